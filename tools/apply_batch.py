#!/usr/bin/env python3
"""tools/apply_batch.py <table.json>  — table: [[patch, title, [crates...]], ...]; applies each proposed fix as one fix: commit and flips its findings to fixed."""
import json, glob, os, subprocess, sys, textwrap
ROOT = "/verif"
table = json.load(open(sys.argv[1]))
ents = []
for f in glob.glob(ROOT + "/known_findings.d/*.json"):
    for e in json.load(open(f))["findings"]:
        ents.append(e)
for patch, title, crates in table:
    hits = [e for e in ents if patch in str(e.get("proposed_fix", ""))]
    body = []
    for e in hits:
        body.append(textwrap.fill(e["what"], 96))
        if e.get("reproducer"):
            body.append(textwrap.fill("Reproducer: " + str(e["reproducer"]), 96))
    msg = "fix: " + title + "\n\n" + "\n\n".join(body) + "\n"
    open("/tmp/batchmsg", "w").write(msg)
    r = subprocess.run([ROOT + "/tools/apply_fix.sh", ROOT + "/proposed_fixes/" + patch, "/tmp/batchmsg"] + crates, capture_output=True, text=True)
    out = (r.stdout + r.stderr).strip()
    print(patch, "->", out[-300:])
    if r.returncode != 0:
        print("STOP"); sys.exit(1)
    commit = subprocess.run(["git", "-C", "/repo", "log", "--format=%h", "-1"], capture_output=True, text=True).stdout.strip()
    for e in hits:
        if e["status"] != "fixed":
            subprocess.run([ROOT + "/tools/mark_fixed.py", e["id"], commit])
