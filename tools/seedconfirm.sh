#!/bin/bash
# tools/seedconfirm.sh <id(lower)> <A|B> <demo-crate> <demo-file> [cargo args] -- <checks...>
# confirm + run checks + demo; prints a compact record
set -u
id="$1"; v="$2"; crate="$3"; demo="$4"; shift 4
extra=(); while [ $# -gt 0 ] && [ "$1" != "--" ]; do extra+=("$1"); shift; done; shift
P="${SEED_PREFIX:-seed}"; n="$P-$id$(echo $v | tr 'AB' 'ab')"
/verif/tools/seedtest.sh "$n" "/tmp/$P-$id/out/$v/patch.diff" "$@" 2>&1 | grep -E "passed=|^==|^VIOL|held|INCONC|NOT APPLY" | cut -c1-210
/verif/tools/seeddemo.sh "$n" "$crate" "/tmp/$P-$id/out/$v/demo/$demo" "${extra[@]}" 2>&1 | grep -E "WITH|CLEAN|test result"
