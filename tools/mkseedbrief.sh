#!/bin/bash
# tools/mkseedbrief.sh <prefix e.g. seed3> <id e.g. c04> ...   prepare /tmp/<prefix>-<id>/{repo (detached worktree of /repo HEAD),out,brief.md}
# for an independent seeding sub-agent. The brief holds the property text only (plus the mechanisms earlier rounds already used, so
# that a new round has to find different ones) - nothing else from /verif.
set -eu
P="$1"; shift
cd /verif
for id in "$@"; do
  PID=$(echo "$id" | tr c C)
  D=/tmp/$P-$id
  git -C /repo worktree remove --force "$D/repo" 2>/dev/null || true
  rm -rf "$D"; mkdir -p "$D/out"
  git -C /repo worktree prune
  git -C /repo worktree add --detach "$D/repo" HEAD >/dev/null 2>&1
  python3 - "$PID" "$D" "$P-$id" <<'PY'
import json, sys, glob, os
pid, d, name = sys.argv[1:4]
prop = next(json.loads(l) for l in open("/verif/properties.jsonl") if json.loads(l)["id"] == pid)
text = f"[{pid}] {prop['title']}\nSTATEMENT: {prop['statement']}\nQUANTIFIER: {prop['quantifier']['text']}\nCODE ANCHORS: {', '.join(prop['anchors']['files'])}\n"
used = []
for m in sorted(glob.glob(f"/verif/seeded/{pid}-*/meta.json")):
    j = json.load(open(m))
    used.append(j.get("needs_to_manifest") or j.get("needs") or "")
if used:
    text += "\nALREADY USED by earlier rounds (do NOT repeat these mechanisms, code sites or triggers - find different ones, in different functions/files behind the property):\n"
    text += "".join(f"  - {u}\n" for u in used if u)
t = open("/verif/tools/seed_brief.md").read().replace("seed-@ID@", name).replace("@PROPERTY@", text.rstrip("\n"))
open(os.path.join(d, "brief.md"), "w").write(t)
PY
done
ls -d /tmp/$P-* | wc -l
