#!/usr/bin/env python3
"""Regenerate the generated sections of DESIGN.md (findings table, seeded-changes table) between their markers."""
import json, glob, os, re
ROOT="/verif"
d=json.load(open(ROOT+'/known_findings.json'))['findings']
fixed=[e for e in d if e['status']=='fixed']; openf=[e for e in d if e['status']=='open']
out=[]
out.append(f"The monitors found {len(d)} genuine defects of the pinned tree: {len(fixed)} repaired by `fix:` commits in /repo, {len(openf)} listed as open known findings. "
 "Every entry was reproduced against the real code with a minimal input before it was listed; `known_findings.json` holds the reproducers, trigger predicates and deviation models. "
 "Several `fix:` commits repair more than one entry (same root cause), and a few defects are listed under two properties (e.g. a panic that is both a C06 and a C09 violation).\n")
out.append("**Open (reported as `KNOWN-FINDING:` on every run, exit 0):**\n")
out.append("| id | what | why not repaired |\n|---|---|---|")
esc=lambda s: str(s).replace('|','/').replace('\n',' ')
for e in openf:
    out.append(f"| {e['id']} | {esc(e['what'])[:200]} | {esc(e.get('proposed_fix',''))[:160]} |")
out.append("\n**Fixed (a fixed entry suppresses nothing: if the behaviour returns the check reports `regression-of-fixed:<id>` or the plain violation):**\n")
out.append("| id | commit | what failed |\n|---|---|---|")
for e in fixed:
    out.append(f"| {e['id']} | {e.get('commit','')} | {esc(e['what'])[:170]} |")
findings="\n".join(out)+"\n"
rows=["| seed | property | needs, in order to manifest | caught by |","|---|---|---|---|"]
for f in sorted(glob.glob(ROOT+'/seeded/*/meta.json')):
    m=json.load(open(f))
    rows.append(f"| {m['id']} | {m['breaks_property']} | {esc(m['needs_to_manifest'])[:260]} | {esc(m['caught_by'])[:330]} |")
seeds="\n".join(rows)+"\n"
p=ROOT+'/DESIGN.md'; s=open(p).read()
def put(s,tag,body):
    a=f"<!-- BEGIN GENERATED {tag} -->"; b=f"<!-- END GENERATED {tag} -->"
    if a not in s: return s
    i=s.index(a)+len(a); j=s.index(b)
    return s[:i]+"\n"+body+s[j:]
cov=["| property | quick: cases / distinct non-trivial / wall (s) | phases (quick sizes) | exhaustive sub-spaces | extra stages |","|---|---|---|---|---|"]
for f in sorted(glob.glob(ROOT+'/evidence/C*.json')):
    e=json.load(open(f)); c=e['coverage']
    if e.get('tier')!='quick': continue
    ph=", ".join(f"{x['name']} {x['cases']}" for x in c.get('phases',[]))
    ex="; ".join(esc(x['subspace'])[:90] for x in c.get('exhaustive_subspaces',[])[:3])
    cov.append(f"| {e['property_id']} | {c['evaluations']} / {c['distinct_nontrivial']} / {e['wall_s']} | {esc(ph)[:230]} | {ex[:300]} | {', '.join(c.get('extra_stages',[]))} |")
coverage="\n".join(cov)+"\n"
s=put(s,"findings",findings); s=put(s,"seeds",seeds); s=put(s,"coverage",coverage)
open(p,'w').write(s); print("findings",len(d),"seeds",len(rows)-2)
