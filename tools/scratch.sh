#!/bin/bash
# tools/scratch.sh new <name>     -> /tmp/scratch-<name>/{repo,harness}: a git worktree of /repo's HEAD and a copy of the
#                                    harness whose path dependencies point at that worktree (own target dir).
# tools/scratch.sh check <name> <Cxx> <quick|thorough> [args]   run a check against the scratch repo (evidence/replays go to
#                                    /tmp/scratch-<name>/out, never to /verif)
# tools/scratch.sh test <name> [cargo test args]   run the repository's own test-suite in the scratch worktree
# tools/scratch.sh rm <name>      -> remove worktree, harness copy and build output
set -eu
cmd="$1"; name="$2"; shift 2
S="/tmp/scratch-$name"
VERIF="$(cd "$(dirname "$0")/.." && pwd)"
case "$cmd" in
  new)
    rm -rf "$S"; mkdir -p "$S/out"
    git -C /repo worktree prune
    git -C /repo worktree add --detach "$S/repo" HEAD >/dev/null 2>&1
    ;;
  sync) ;;
  check)
    mkdir -p "$S/harness" "$S/out/work" "$S/out/evidence" "$S/out/replays"
    rsync -a --delete --exclude target "$VERIF/harness/" "$S/harness/"
    find "$S/harness" -name Cargo.toml -print0 | xargs -0 sed -i "s#\"/repo/crates/#\"$S/repo/crates/#g"
    cp "$VERIF/known_findings.json" "$S/out/" 2>/dev/null || true
    rm -rf "$S/out/known_findings.d"; cp -r "$VERIF/known_findings.d" "$S/out/" 2>/dev/null || true
    [ -d "$VERIF/stages" ] && { rm -rf "$S/out/stages"; cp -r "$VERIF/stages" "$S/out/"; }
    cp "$VERIF/check" "$S/out/check"
    VERIF_REPO="$S/repo" VERIF_ROOT="$S/out" VERIF_HARNESS="$S/harness" CARGO_TARGET_DIR="$S/target" "$S/out/check" "$@"
    ;;
  test)
    (cd "$S/repo" && CARGO_TARGET_DIR="$S/repo-target" cargo test --offline "$@")
    ;;
  rm)
    git -C /repo worktree remove --force "$S/repo" 2>/dev/null || true
    rm -rf "$S"
    git -C /repo worktree prune
    ;;
  *) echo "unknown command"; exit 2;;
esac
