#!/usr/bin/env python3
"""tools/mark_fixed.py <finding-id> <commit> : flip an entry in known_findings.d/*.json to status fixed and add the 'fixed:' line."""
import json, glob, sys, os
ROOT = os.path.dirname(os.path.dirname(os.path.abspath(__file__)))
fid, commit = sys.argv[1], sys.argv[2]
for f in glob.glob(os.path.join(ROOT, "known_findings.d", "*.json")):
    d = json.load(open(f))
    hit = False
    for e in d["findings"]:
        if e["id"] == fid:
            e["status"] = "fixed"
            e["commit"] = commit
            what = e.get("reproducer") or e.get("what")
            e["line"] = f"fixed: property={e['property']} {commit} {e['what'][:220]} [reproducer: {str(what)[:200]}]"
            hit = True
    if hit:
        json.dump(d, open(f, "w"), indent=1, ensure_ascii=False)
        print("marked", fid, "in", os.path.basename(f))
        sys.exit(0)
print("NOT FOUND", fid); sys.exit(1)
