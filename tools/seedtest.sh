#!/bin/bash
# tools/seedtest.sh <name> <patch.diff> <Cxx> [<Cyy> ...]
# Confirm a seeded change in a scratch worktree: applies, workspace test-suite still passes (shared target dir
# /tmp/seed-confirm-target), then runs the named quick checks against it. Leaves /tmp/scratch-<name> in place
# (with the patch applied) so the demonstration can be run; remove with tools/scratch.sh rm <name>.
set -u
N="$1"; P="$2"; shift 2
S=/tmp/scratch-$N
/verif/tools/scratch.sh new "$N"
git -C "$S/repo" apply "$P" || { echo "PATCH DOES NOT APPLY"; exit 2; }
echo "== patch applied: $(git -C "$S/repo" diff --stat | tail -1)"
echo "== workspace test-suite with the patch:"
(cd "$S/repo" && CARGO_TARGET_DIR=/tmp/seed-confirm-target cargo test --workspace --no-fail-fast --offline 2>&1 | grep -E "^test result|FAILED|failed" | awk '/test result/{p+=$4; f+=$6} /FAILED|failed/{print} END{print "passed="p" failed="f}')
for ID in "$@"; do
  echo "== check $ID quick against the seeded tree:"
  /verif/tools/scratch.sh check "$N" "$ID" quick 2>&1 | grep -E "^VIOLATION|held on|^INCONCLUSIVE" | cut -c1-230 | head -5
done
