#!/usr/bin/env python3
"""tools/mutscore.py <lane> <nlanes> <per-property> [seed]

Automatic mutation campaign (dev-time evidence, not a registered check). For every property, sample <per-property> single-token
mutants (relational / arithmetic / boolean operators, off-by-one constants) from the non-test code of the files the property is
anchored in; for each mutant, in a scratch worktree:
  1. it must compile (cargo build of the crate);
  2. the crate's own tests (+ the crates that depend on it directly) are run: killed there => "suite" (ordinary tests see it);
  3. survivors are run against the quick check of every property anchoring the file: exit 1 => "caught", exit 0 => "MISSED"
     (a blind spot or an equivalent mutant - to be looked at by hand), exit 2 => "inconclusive".
Appends to /verif/selftest/mutscore-<lane>.tsv . Lanes split the property list so several can run side by side.
"""
import json, os, random, re, signal, subprocess, sys, time

lane, nlanes, per = int(sys.argv[1]), int(sys.argv[2]), int(sys.argv[3])
seed = int(sys.argv[4]) if len(sys.argv) > 4 else 1
ROOT = "/verif"
S = f"/tmp/scratch-mut{lane}"
OUT = f"{ROOT}/selftest/mutscore-{lane}.tsv"
TARGET = f"/tmp/mut-target-{lane}"

props = [json.loads(l) for l in open(f"{ROOT}/properties.jsonl")]
props = [p for i, p in enumerate(props) if i % nlanes == lane]

OPS = [
    (r" <= ", " < "), (r" < ", " <= "), (r" >= ", " > "), (r" > ", " >= "),
    (r" == ", " != "), (r" != ", " == "),
    (r" && ", " || "), (r" \|\| ", " && "),
    (r" \+ 1\b", " + 0"), (r" - 1\b", " - 0"), (r" \+ 1\b", " + 2"),
    (r" \+ ", " - "), (r" - ", " + "),
    (r"\.saturating_sub\(", ".wrapping_sub("), (r"\.min\(", ".max("), (r"\.max\(", ".min("),
    (r"\bis_some\(\)", "is_none()"), (r"\bis_none\(\)", "is_some()"), (r"\bis_empty\(\)", "len() == 1"),
]

def sh(cmd, cwd=None, timeout=1800, env=None):
    e = dict(os.environ); e.update(env or {})
    # own process group, killed as a whole on timeout: a mutant that loops forever must not outlive the campaign
    p = subprocess.Popen(cmd, shell=True, cwd=cwd, stdout=subprocess.PIPE, stderr=subprocess.STDOUT, text=True, env=e, start_new_session=True)
    try:
        out, _ = p.communicate(timeout=timeout)
        return p.returncode, out
    except subprocess.TimeoutExpired:
        try:
            os.killpg(p.pid, signal.SIGKILL)
        except ProcessLookupError:
            pass
        p.wait()
        return 124, "timeout"

def candidate_lines(path):
    """(line number, line) of non-test, non-comment code lines."""
    out = []
    in_tests = False
    all_lines = open(path, encoding="utf-8", errors="replace").read().split("\n")
    for i, l in enumerate(all_lines):
        t = l.strip()
        # the guarded verification hooks are not the code under test
        if "verif" in l or any('feature = "verif"' in x for x in all_lines[max(0, i - 12):i]):
            continue
        if re.match(r"(pub )?mod tests?\b", t) or t.startswith("#[cfg(test)]"):
            in_tests = True
        if in_tests:
            continue
        if not t or t.startswith("//") or t.startswith("#[") or t.startswith("use ") or "assert" in t or "debug_assert" in t:
            continue
        if "->" in t and t.startswith(("fn ", "pub fn ", "pub(crate) fn ")):
            continue
        out.append((i, l))
    return out

def mutants_for(path, rng, k):
    lines = candidate_lines(path)
    c = []
    for (i, l) in lines:
        code = l.split("//")[0]
        for (pat, rep) in OPS:
            for m in re.finditer(pat, code):
                # skip generics / arrows / lifetimes / strings
                if '"' in code[:m.start()] and code[:m.start()].count('"') % 2 == 1:
                    continue
                if "=>" in code[max(0, m.start() - 2):m.end() + 2] or "->" in code[max(0, m.start() - 2):m.end() + 2]:
                    continue
                new = l[:m.start()] + re.sub(pat, rep, l[m.start():m.end()]) + l[m.end():]
                if new != l:
                    c.append((i, l, new, f"{pat.strip()} -> {rep.strip()}"))
    rng.shuffle(c)
    return c[:k]

def crate_of(relpath):
    m = re.match(r"crates/([^/]+)/", relpath)
    return m.group(1) if m else None

DEPENDENTS = {
    "texcraft-stdext": ["texlang", "texlang-stdlib"], "common": ["texlang", "texlang-stdlib", "boxworks", "boxworks-text"],
    "texlang": ["texlang-stdlib", "texlang-font"], "texlang-stdlib": ["texlang-font"], "texlang-common": ["texlang-stdlib"],
    "tfm": ["tfm-bin", "boxworks-text"], "dvi": ["dvi-bin"], "hyphenate": ["boxworks-hyphenate"],
    "boxworks": ["boxworks-knuthplass", "boxworks-bin", "boxworks-text"], "boxworks-knuthplass": ["boxworks-bin"],
    "boxworks-hyphenate": ["boxworks-knuthplass", "boxworks-bin"], "boxworks-text": ["boxworks-bin", "boxworks-knuthplass"],
}

def main():
    rng = random.Random(seed * 1000 + lane)
    if not os.path.isdir(S + "/repo"):
        sh(f"{ROOT}/tools/scratch.sh new mut{lane}")
    anchors_by_file = {}
    for p in [json.loads(l) for l in open(f"{ROOT}/properties.jsonl")]:
        for f in p["anchors"]["files"]:
            anchors_by_file.setdefault(f, []).append(p["id"])
    done = set()
    if os.path.exists(OUT):
        for l in open(OUT):
            done.add(tuple(l.split("\t")[:3]))
    for p in props:
        files = [f for f in p["anchors"]["files"] if f.endswith(".rs") and os.path.exists(f"{S}/repo/{f}") and "-bin/" not in f]
        pool = []
        for f in files:
            for m in mutants_for(f"{S}/repo/{f}", rng, 40):
                pool.append((f, m))
        rng.shuffle(pool)
        n = 0
        for (f, (ln, old, new, desc)) in pool:
            if n >= per:
                break
            key = (p["id"], f, str(ln + 1))
            if key in done:
                n += 1
                continue
            path = f"{S}/repo/{f}"
            sh("git checkout -q -- .", cwd=f"{S}/repo")
            src = open(path, encoding="utf-8").read().split("\n")
            if src[ln] != old:
                continue
            src[ln] = new
            open(path, "w", encoding="utf-8").write("\n".join(src))
            crate = crate_of(f)
            env = {"CARGO_TARGET_DIR": TARGET, "CARGO_NET_OFFLINE": "true"}
            rc, out = sh(f"cargo build -p {crate} --offline --all-features 2>&1 | tail -3", cwd=f"{S}/repo", env=env)
            if "error" in out and "could not compile" in out:
                sh("git checkout -q -- .", cwd=f"{S}/repo")
                continue
            n += 1
            pk = " ".join(f"-p {c}" for c in [crate] + DEPENDENTS.get(crate, []))
            t0 = time.time()
            rc, out = sh(f"cargo test {pk} --offline 2>&1 | grep -E '^test result|FAILED|panicked|error(\\[|:)' | head -40", cwd=f"{S}/repo", env=env, timeout=1500)
            suite_failed = ("FAILED" in out) or ("error" in out and "could not compile" in out) or rc == 124
            verdict = {}
            if suite_failed:
                status = "suite"
            else:
                status = "survived-suite"
                for pid in anchors_by_file.get(f, [p["id"]]):
                    rc2, out2 = sh(f"{ROOT}/tools/scratch.sh check mut{lane} {pid} quick 2>&1 | grep -a -E '^VIOLATION|held on|^INCONCLUSIVE' | head -2", timeout=2400)
                    if "VIOLATION" in out2:
                        verdict[pid] = "caught:" + out2.split("signature=")[-1].strip().split("\n")[0][:90]
                    elif "held on" in out2:
                        verdict[pid] = "MISSED"
                    else:
                        verdict[pid] = "inconclusive:" + out2.strip()[:80]
            with open(OUT, "a") as fo:
                fo.write("\t".join([p["id"], f, str(ln + 1), desc, old.strip()[:110], status, json.dumps(verdict), f"{time.time()-t0:.0f}s"]) + "\n")
            sh("git checkout -q -- .", cwd=f"{S}/repo")
    sh("git checkout -q -- .", cwd=f"{S}/repo")
    print("lane", lane, "done")

main()
