#!/bin/bash
# tools/mutate.sh <scratch-name> <Cxx> <python-edit-file>   apply a python edit script (cwd = scratch repo), run the quick check, print verdict, revert
set -u
N="$1"; ID="$2"; ED="$3"
S=/tmp/scratch-$N
[ -d "$S/repo" ] || /verif/tools/scratch.sh new "$N"
git -C "$S/repo" checkout -q -- . ; git -C "$S/repo" checkout -q --detach "$(git -C /repo rev-parse HEAD)" 2>/dev/null
(cd "$S/repo" && python3 "$ED") || { echo "EDIT FAILED"; exit 2; }
git -C "$S/repo" diff --stat | tail -1
/verif/tools/scratch.sh check "$N" "$ID" quick 2>&1 | grep -E "^VIOLATION|held on|INCONCLUSIVE|KNOWN" | cut -c1-220 | head -6
git -C "$S/repo" checkout -q -- .
