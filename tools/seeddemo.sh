#!/bin/bash
# tools/seeddemo.sh <scratch-name> <crate> <demo.rs> [extra cargo args]   run a demonstration test with the seeded patch and on the clean tree
set -u
N="$1"; CR="$2"; DEMO="$3"; shift 3
R=/tmp/scratch-$N/repo
T=$(basename "$DEMO" .rs)
mkdir -p "$R/crates/$CR/tests"; cp "$DEMO" "$R/crates/$CR/tests/"
export CARGO_TARGET_DIR=/tmp/seed-confirm-target
echo "WITH PATCH:"; (cd "$R" && cargo test -p "$CR" "$@" --test "$T" --offline 2>&1 | grep -E "^test result")
(cd "$R" && git stash -q -- crates/*/src)
echo "CLEAN:"; (cd "$R" && cargo test -p "$CR" "$@" --test "$T" --offline 2>&1 | grep -E "^test result")
(cd "$R" && git stash pop -q)
