#!/bin/bash
# tools/run_seeds_on_repo.sh [seed-id ...]   For each kept seed: git -C /repo apply seeded/<id>/patch.diff, run the quick check of the
# property it breaks (from meta.json), record exit code + first VIOLATION line, then undo (git -C /repo checkout -- .).
# Only run this when nobody else is building from /repo. Results: /verif/seeded/RESULTS.tsv
set -u
cd /verif
ids=("$@"); [ ${#ids[@]} -eq 0 ] && ids=($(ls seeded | grep -v RESULTS))
out=seeded/RESULTS.tsv; : > "$out.tmp"
for id in "${ids[@]}"; do
  d=seeded/$id; [ -f "$d/patch.diff" ] || continue
  prop=$(python3 -c "import json;print(json.load(open('$d/meta.json'))['breaks_property'])")
  if ! git -C /repo diff --quiet; then echo "/repo has uncommitted changes; refusing"; exit 2; fi
  if ! git -C /repo apply "/verif/$d/patch.diff" 2>/dev/null; then printf "%s\t%s\tPATCH-NO-LONGER-APPLIES\n" "$id" "$prop" >> "$out.tmp"; continue; fi
  log=$(./check "$prop" quick 2>&1); rc=$?
  git -C /repo checkout -- .
  v=$(echo "$log" | grep -m1 "^VIOLATION" | sed 's/.*signature=//' | cut -c1-140)
  printf "%s\t%s\texit=%s\t%s\n" "$id" "$prop" "$rc" "$v" >> "$out.tmp"
  echo "$id $prop exit=$rc $v"
done
mv "$out.tmp" "$out"
