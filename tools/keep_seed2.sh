#!/bin/bash
# tools/keep_seed2.sh <ID e.g. C12-C> <src out dir> <prop> "<caught by>"   (needs/ran text taken from the author's README summary heuristically)
set -eu
ID="$1"; SRC="$2"; PROP="$3"; CAUGHT="$4"; NEEDS="${5:-see AUTHOR_README.md}"
/verif/tools/keep_seed.sh "$ID" "$SRC" "$PROP" "$NEEDS" "scratch worktree: patch applies; cargo test --workspace --offline passes with the patch (0 failed); demonstration fails with the patch and passes on the clean tree; quick check(s) run against the patched tree via tools/seedconfirm.sh" "$CAUGHT"
