#!/bin/bash
# tools/keep_seed.sh <seed-id> <src-dir (…/out/A)> <property> "<needs to manifest>" "<what I ran / results>" "<caught by>"
set -eu
ID="$1"; SRC="$2"; PROP="$3"; NEEDS="$4"; RAN="$5"; CAUGHT="$6"
D=/verif/seeded/$ID; mkdir -p "$D"
cp "$SRC/patch.diff" "$D/patch.diff"
rm -rf "$D/demo"; cp -r "$SRC/demo" "$D/demo"
cp "$SRC/README.md" "$D/AUTHOR_README.md"
python3 - "$D/meta.json" "$ID" "$PROP" "$NEEDS" "$RAN" "$CAUGHT" <<'PY'
import json,sys
out,id,prop,needs,ran,caught=sys.argv[1:7]
json.dump({"id":id,"breaks_property":prop,"needs_to_manifest":needs,"confirmed_by_coordinator":ran,"caught_by":caught,
"origin":"independent sub-agent given only the property text and a scratch worktree (no access to /verif)"},open(out,"w"),indent=1)
PY
echo kept $ID
