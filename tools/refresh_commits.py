#!/usr/bin/env python3
"""Re-point 'commit' of fixed findings at the current commit with the same subject (after a history rewrite such as autosquash)."""
import json, glob, subprocess
def sh(*a): return subprocess.run(a, capture_output=True, text=True).stdout.strip()
cur = {}
for l in sh("git", "-C", "/repo", "log", "--format=%h\t%s").splitlines():
    h, s = l.split("\t", 1); cur.setdefault(s, h)
curhashes = set(cur.values())
n = 0
for f in glob.glob("/verif/known_findings.d/*.json"):
    d = json.load(open(f)); ch = False
    for e in d["findings"]:
        if e.get("status") == "fixed" and e.get("commit") and e["commit"] not in curhashes:
            subj = sh("git", "-C", "/repo", "log", "-1", "--format=%s", e["commit"])
            new = cur.get(subj)
            if new:
                e["line"] = e.get("line", "").replace(e["commit"], new); e["commit"] = new; ch = True; n += 1
            else:
                print("UNRESOLVED", e["id"], e["commit"], subj)
    if ch: json.dump(d, open(f, "w"), indent=1, ensure_ascii=False)
print("updated", n)
