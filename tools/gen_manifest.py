#!/usr/bin/env python3
"""Regenerate /verif/MANIFEST.json from the table below (one entry per claimed property).
Properties without an entry in CLAIMED go to not_applicable with the reason in NOT_CLAIMED."""
import json, os, subprocess

ROOT = os.path.dirname(os.path.dirname(os.path.abspath(__file__)))
props = [json.loads(l) for l in open(os.path.join(ROOT, "properties.jsonl"))]

# id -> (technique, level text, level note, design ref)
CLAIMED = {
    "C01": (
        "runtime monitor: generated TeX programs run in the real VM; every tracked value read back in-language and via state probes; compared online with two reference models (declarative scope rule + TeX eqtb/save-stack §268-283); H2 stack-lockstep invariant at hook",
        "Held on the executions produced: exhaustive op sequences (<=6 quick / <=8 thorough) for six target pairs plus random programs at depth <=8 over 23 targets; a wrong restored value, a leaked definition, a scope prefix affecting more than one assignment or a desynchronised internal stack is reported with the program as witness. Sampling, not proof.",
        "Trusts our transcription of TeX §268-283 (cross-checked by a second, declarative formulation; disagreement = INCONCLUSIVE) and the guarded read-only hook VM::verif_snapshot.",
        "DESIGN.md §6 C01",
    ),
    "C08": (
        "runtime monitor, differential: the same generated program run uninterrupted vs continued after serialise+deserialise at EVERY line boundary, in JSON/MessagePack/bincode; per-line output, errors (rendered), recovered-error count, font events and a final state dump (registers, codes, font, H2 stack sizes) must be identical",
        "Held on the executions produced: ~800 (quick) / 60k (thorough) generated programs leaving behind macros on control sequences and active characters, aliases, all register kinds, code tables, open groups with saved values, executed-but-open conditionals, open \\read streams, fresh names, fonts, recovered errors; every line boundary enumerated as checkpoint. Any divergence is reported with the program, the checkpoint position and both observations.",
        "No external model: both sides are the real code. Non-serialised attachments (file system, terminal, prefix tag registry) are re-attached by the harness as an engine would. Checkpoints after a fatal error are outside the property (pending input not exhausted).",
        "DESIGN.md §6 C08",
    ),
    "C09": (
        "runtime monitor, crash/panic oracle: token-level programs over the full installed vocabulary with hostile operands, truncated at every fragment boundary, in all four interaction modes; outcome of VM::run observed under catch_unwind with panic-site attribution, error rendering and source location checked, H2 snapshot after the run, default-stack probe in an 8 MiB thread (process death caught by the worker journal), logical step budget; Miri stage (Stacked and Tree Borrows) over the VM; libFuzzer stage (thorough tier) whose inputs are decided by the same oracle",
        "Held on the executions produced: ~2.5e5 (quick) / 2e7 (thorough) VM runs ending in Ok or a located, rendered error; every panic inside /repo, arithmetic overflow, index error, todo!(), unbalanced execution stack, pending shutdown or process death is a violation keyed by (file, function, message). Non-terminating programs are cut by a step budget and not counted.",
        "Totality is sampled, not proved. Runs use a 1 GiB stack except the dedicated default-stack probe. Known finding C09-file-location-panics is reported, not suppressed silently.",
        "DESIGN.md §6 C09",
    ),
    "C20": (
        "runtime monitors vs executable sequential models after every operation (stack-of-snapshots for the scoped map, naive windows for the matcher, string table for the interner), exhaustive over small histories + BFS over distinct states + random; tags: real threads behind a barrier with uniqueness oracle and counted ownership interleavings; Miri many-seeds (data-race detector, weak memory) and ThreadSanitizer stages",
        "Held on the executions produced: all 1e7 (quick) / 1e8 (thorough) histories over 2 keys x 2 values for both backing containers incl. iter_all->FromIterator rebuild bisimulation, BFS to depth 12/15, random histories over 16 keys; all patterns<=5 x texts<=12 over {a,b,c}; interner under constant, weak and random hashers incl. serde rebuild; 2/8/64 threads x N tag creations with distinct interleavings counted; Miri 32/256 seeds; TSan (thorough). Thread schedules are sampled, not enumerated.",
        "The sequential models are the specification. Miri/TSan stages report tool failure as INCONCLUSIVE, never as a violation.",
        "DESIGN.md §6 C20",
    ),
    "C04": (
        "runtime monitor: real break_line_single_attempt on generated lists; online check of the debug::Logger trace (every feasible break's badness/penalty/demerits, every new active node) and optimality/feasibility/looseness of the result against an independent evaluator written from the definitions (DP over breakpoint x line count x fitness class, cross-checked by brute-force enumeration of all break subsets on small lists); libFuzzer stage (thorough tier) whose inputs are decided by the same oracle",
        "Held on the executions produced: exhaustive lists of length <=6 (quick) / <=7 (thorough) over a 7-item alphabet, 1.3e6 / 3e7 random and hostile lists (kerns, fil glue, discretionaries, penalties +-10000, 1-4 line widths, tolerances, negative adj_demerits, looseness -2..2) and the book excerpts in cmr10 at random widths. Non-monotone instances (overfull(a,b) not upward closed in b) are skipped and counted, as the property states.",
        "Trusts our evaluator of TeX §817-875, calibrated against all 28 TeX \\tracingparagraphs logs in the repository (4450 feasible breaks, 2302 nodes identical); DP and brute force must agree or the case is INCONCLUSIVE; ties between equal-demerit sequences accepted either way.",
        "DESIGN.md §6 C04",
    ),
    "C15": (
        "runtime monitor: real HBox::pack on generated lists compared field by field with a transcription of TeX §649-667 (four-element stretch/shrink totals), ratio as exact rational and through the printed form, plus a model-free 'fills exactly' conservation check and the panic oracle",
        "Held on the executions produced: exhaustive char + 2 (thorough 3) glue nodes from 144 specs x 7 targets, and 6e5 / 6e7 random lists of all node kinds with glue amounts chosen to cancel, targets at natural +- {0, 1sp, shrink, shrink+-1sp, stretch}.",
        "Trusts our transcription of TeX §649-667, calibrated on all 509 TeX-produced line boxes in the repository's want-files; glue sign is not observable on ds::HBox and is compared in absolute value; Mark/Insertion/Adjust/Math are todo!() in the code and outside the quantifier.",
        "DESIGN.md §6 C15",
    ),
    "C02": (
        "runtime monitor: generated \\def specs and calls run in the real VM; bound arguments and expansion observed through the public post_macro_expansion_hook, plus the delivered character stream, run outcome and group depth; compared with a transcription of macro_call (TeX §389-399) cross-checked by a second declarative formulation of argument binding; libFuzzer stage (thorough tier) whose inputs are decided by the same oracle",
        "Held on the executions produced: exhaustive product of prefixes x 0-2 parameters x 5 delimiter kinds x #{ x 8 replacement texts x all tuples of 12/17 argument shapes (~3e5 calls), 3-parameter specs, and random specs with up to 9 parameters (quick 4.2e5 calls, thorough 6.6e6).",
        "Trusts our transcription of TeX §389-399 and §473-477, calibrated on 27 rows of the repository's def.rs/expansion.rs tables and the TeXbook p.203 example; arguments never contain the delimiter at depth 0, \\par or unbalanced braces (the quantifier).",
        "DESIGN.md §6 C02",
    ),
    "C03": (
        "runtime monitor: the real Lexer under arbitrary catcode tables / end-line characters and the same sources through a VM with \\catcode/\\endlinechar changed mid-file; token sequence and every token's Tracer::trace compared with a transcription of TeX's scanner (§343-356); panic oracle; Miri stage (Stacked and Tree Borrows) for the lexer's unsafe in-place write with a UTF-8 probe after every token; libFuzzer stage (thorough tier) whose inputs are decided by the same differential oracle",
        "Held on the executions produced: all strings of length <=5 (quick) / <=7 (thorough) over {\\ ^ space newline 5 e e-acute} under 6 tables x 5 end-line chars, 2e6 / 5e7 random adversarial strings with random 16-code tables, 1.2e5 / 3e6 VM runs with just-in-time catcode changes, 240 / 3200 strings under Miri.",
        "Trusts our transcription of TeX §343-356, calibrated on the 76 lexer_tests cases of the repository (incl. TeXbook exercises 8.2-8.6). Trace leniency exactly as DESIGN §6 C03 G (any column inside a ^^ span; first trimmed column for end-line tokens).",
        "DESIGN.md §6 C03",
    ),
    "C05": (
        "runtime monitor: real CompiledProgram::compile + run on generated lig/kern programs and words, compared with three independent formulations (cursor interpreter of the raw program, label-by-label transcription of TeX §1034-1040, TFtoPL §88-95 recursive pair evaluation) that must agree with each other; loop reports checked in both directions; conservation of the word; libFuzzer stage (thorough tier) whose inputs are decided by the same oracle",
        "Held on the executions produced: all 104 976 programs over {a,b} (thorough also 2 x 1.05e7 boundary-rule programs), 6e4 / 2e6 random programs over 3-5 letters with all eight ligature forms, SKIP/STOP chains and boundaries, every word of length <=4 per program plus random words, every corpus font on all character pairs, 83 hand-built TeX-verified cases node by node.",
        "The three models must agree or the case is INCONCLUSIVE; kern amounts go through our own store_scaled; TeX's lig_ptr bookkeeping and boundary flags are compared node by node only on the hand-built cases (DESIGN guard G).",
        "DESIGN.md §6 C05",
    ),
    "C06": (
        "runtime monitor: (a) Scaled Display/parse round trip and unit arithmetic at function level against transcriptions of print_scaled/round_decimals/xn_over_d/nx_plus_y; (b) generated assignment and \\advance/\\multiply/\\divide statements run in the real VM in \\nonstopmode, comparing the \\the text, all 24 tracked registers read from state and the recovered-error count and class with a token-level model of scan_int/scan_dimen/scan_glue and TeX §1236-1240; libFuzzer stage (thorough tier) whose inputs are decided by the same oracle",
        "Held on the executions produced: quick every 257th scaled value + boundaries (8.7e6), thorough ALL 2^31-1 values with |s| <= 2^30-1 (exhaustive); all 30x30 boundary operand pairs for 3 operations x count/dimen/skip; 3e6 / 8e7 random statements (4 radices, sign strings, 11 units, fil/fill/filll, 0-20 fraction digits, coercions, internal quantities as units).",
        "Trusts our transcription of TeX §99-107, §440-461, §1236-1240, calibrated on 90 unit-test/TeXbook facts and 421 decimals printed by real TeX in the goldens. Where TeX itself would negate -2^31 only 'no crash' is demanded. `true` units and non-standard catcodes are outside the quantifier.",
        "DESIGN.md §6 C06",
    ),
    "C07": (
        "runtime monitor: generated conditional trees with a unique marker per branch evaluated directly by the generator and compared with the VM's output, followed by a lone \\fi that must raise exactly one error; differential execution of two VMs identical except for the simple vs optimised \\expandafter (output, error, macro-expansion event sequence), additionally compared with a small reference expander (TeX §366-369) on the macro-only subset; libFuzzer stage (thorough tier) whose inputs are decided by the same oracle",
        "Held on the executions produced: exhaustive \\ifodd/\\ifnum/\\ifcase operand tables, 6e4 / 1.5e6 trees of depth 0-6 whose skipped branches hold unbalanced braces, nested conditionals, \\let-aliases and look-alikes; all 6144 \\expandafter chains k1..k4, 1.2e5 / 3e6 random streams.",
        "Trusts the generator's own evaluation of the tree and our reference expander (calibrated on 34 + 24 rows of the repository's tables); streams leaving the reference's domain are skipped and counted; \\ifx/\\if/\\ifcat/\\csname do not exist in texlang-stdlib.",
        "DESIGN.md §6 C07",
    ),
    "C10": (
        "runtime monitor, crash/panic oracle: tfm_to_pl on hostile bytes (all 2^16 values of each of the twelve header words spliced into short files and corpus fonts, truncations at every length, byte mutations) and pl_to_tfm on hostile text (token-level mutations of corpus PLs, generated PLs, table-size and nesting stressors); every PL->TFM output must be accepted by File::deserialize without warning; libFuzzer stage in the thorough tier",
        "Held on the executions produced: quick ~7e6 inputs, thorough ~1e8 (header sweeps exhaustive in thorough); any panic inside /repo is a violation keyed by (file, function, message).",
        "Totality is sampled, not proved. The libFuzzer stage contributes nothing (and is recorded as unavailable) if the nightly fuzz build fails. Known finding C10-pl-output-exceeds-tfm-capacity is reported on every run.",
        "DESIGN.md §6 C10",
    ),
    "C11": (
        "runtime monitor: chain b0 -> PL1 -> b1 -> PL2 -> b2 through the real converters; b2 == b1 byte for byte, PL2 == PL1, no warnings after step one, and File(b0) equivalent to File(b1) both through the crate's public fields and through our own independent TFM reader (exact lig/kern map over every pair and both boundaries, canonical form of b1), plus CompiledProgram::run on characters, pairs and sampled words; libFuzzer stage (thorough tier) whose inputs are decided by the same oracle",
        "Held on the executions produced: all 94 corpus fonts and clean corpus PLs, 1e4 / 3e5 generated fonts (0-256 characters, 15/15/63 limits, several labels per chain, SKIPs, entry points above 255, boundary characters, NEXTLARGER, VARCHAR) and 6e3 / 1.5e5 meaning-preserving repackings.",
        "Our TFM reader is calibrated against Knuth's recorded TFtoPL output for 29 corpus pairs; generated PLs that warn in the first step are outside the quantifier (skipped, counted); lossy compression is excluded by construction (C17's subject).",
        "DESIGN.md §6 C11",
    ),
    "C12": (
        "runtime monitor, conservation checker: the horizontal list before and after the real break_line, the breakpoints and the produced vertical list are checked offline: text -> list spells the words with inter-word glue equal to a transcription of TeX §1041-1044; list -> lines by two formulations that must agree (exact expected content per line; cursor walk consuming each node exactly once in order); geometry, skips (§816/§886-887) and inter-line penalties (§890); libFuzzer stage (thorough tier) whose inputs are decided by the same oracle; CLI stage (both tiers): the box binary built from the working tree must hand 22 skip texts x 4 flags on to the printed line boxes exactly as given",
        "Held on the executions produced: exhaustive space-factor words (2336) and lists of <=6 items (137 256), 1.5e5 / 3e6 random cmr10 texts with random \\spaceskip/\\xspaceskip/sfcodes/widths/indents/all 17 Knuth-Plass parameters (hyphenation on in 2/3), 3e5 / 6e6 hand-built lists with runs of glue/penalty/kern and discretionaries.",
        "Calibrated on the repository's 20-row spacing table and 29 TeX-generated goldens (509 line boxes); the hyphenator and the breaker's choice of breakpoints are black boxes here (C13/C14, C04); interline glue presence only; math/mark/insert/adjust nodes excluded (todo!() in hpack).",
        "DESIGN.md §6 C12",
    ),
    "C16": (
        "runtime monitor: serialize -> deserialize round trip with full consumption on generated op sequences; framing model (TeX §585-591) and panic oracle on arbitrary and mutated bytes; an independent position tracker (h as integer + multiset of unmeasured character widths, v, w/x/y/z, stack, font, page reset) replays the stream before and after VarRemover and compares page, position and font at every typeset character and rule; libFuzzer stage (thorough tier) whose inputs are decided by the same oracles",
        "Held on the executions produced: every opcode with every truncation, every op at every operand-width boundary, 3e5 / 2e7 sequences of 1-200 ops (document-like, anything-anywhere, move-heavy), 5e5 / 3e7 noise and mutated byte strings.",
        "The tracker shares no code with the dvi crate; VarRemover sequences keep cumulative coordinates inside i32 (wrap-around is unspecified). Known finding C16-post-post-absorbs-fnt-num-52 is inherent in the byte format.",
        "DESIGN.md §6 C16",
    ),
    "C17": (
        "runtime monitor: FixWord Display -> real PL reader -> identical 32 bits for sampled (quick) or ALL 2^32 (thorough) bit patterns, the printed text also compared with a transcription of TFtoPL §40-43; to_scaled vs a literal transcription of TeX §571-572 and a closed form that must agree; compress vs a brute-force oracle over all candidate tolerances; NextLargerProgram vs a functional-graph oracle; libFuzzer stage (thorough tier) for compress and the next-larger program, decided by the same oracles",
        "Held on the executions produced: quick stride-65521 sweep + boundaries + 6e6 random patterns, thorough exhaustive over all 2^32 patterns; all 2^25 storable values at 10pt + random (value, design size) pairs; 49 140 exhaustive + 2e4 / 2e6 random multisets for compress; all 126 125 functional graphs on <=6 characters + random ones on <=256.",
        "The single value -2048.0 is outside PLtoTF's legal range and is reported separately (skipped). Calibrated on 35 542 reals from 34 tftopl-written files.",
        "DESIGN.md §6 C17",
    ),
    "C18": (
        "runtime monitor: print -> parse round trip on generated lists compared by our own deep comparison (three printing paths), format idempotence and parse(format(s)) == parse(s) on rearranged valid programs, panic oracle and located-error check on mutated texts and token soup; libFuzzer stage (thorough tier) whose inputs are decided by the same oracles",
        "Held on the executions produced: 36 golden Box-language files (5e5 nodes), 1e5 / 1e7 generated hlists/vboxes (any scalar but the double quote, all glue orders, extreme scaled values, nested boxes, insertions, marks, adjusts, math, discretionaries, ligatures), 6e4 / 3e6 relayouts, 2.4e5 / 1.7e7 mutated and random texts.",
        "The generator stays inside what lang/convert.rs can express (normal kerns, no whatsits); glue ratios compared by the value their printed form carries. Known finding C18-deep-nesting-overflows-stack is probed in a child process.",
        "DESIGN.md §6 C18",
    ),
    "C19": (
        "runtime monitor: programs against an in-memory file system compared with (O1) a miniature TeX input stack written from tex.web §343-362/482-486/537-538, (O2) the generator's own marker bookkeeping, (O3) the same VM run on the inlined text where inlining is scanner-state neutral; \\read/\\ifeof interleavings on up to 16 streams; nesting chains around the limit of 100; panic oracle and source-stack depth via the H2 snapshot",
        "Held on the executions produced: every position of \\input/\\endinput in a line over 14 file shapes (6048), every \\openin/\\read/\\ifeof/\\closein sequence of length <=5 on 12 file shapes (16 368), 1.2e3 / 6e3 chains of depth 0-139 and recursive cycles, 1e5 / 3e6 random file trees of depth 0-5, 6e4 / 2e6 random stream programs.",
        "O1 and O2 must agree or the case is INCONCLUSIVE. Two deviations pinned by the repository's own unit tests (\\endinput drops the rest of its line; \\ifeof true one read early) are known findings with exact deviation models.",
        "DESIGN.md §6 C19",
    ),
    "C13": (
        "runtime monitor: real Hyphenator::calculate_indices on generated pattern sets, exception lists and words, compared with a transcription of Liang's algorithm as TeX defines it (§919-931, §934-940, §960-965) in two formulations (substring hash look-up and linear scan); libFuzzer stage (thorough tier) whose inputs are decided by the same oracle",
        "Held on the executions produced: all 9344 single patterns of 1-3 letters over {a,b} with levels {0,1,2,7} and every anchor combination, with and without an exception, on all words of length <=7 in both cases; 5e3 / 2.4e5 random pattern sets (levels 0-9, anchored/nested, multi-byte letters) each on all words of length <=7 plus random words up to 40 letters; 1e4 / 4e5 sets of 17-40-letter patterns around the 16-zero encoding boundary; plain TeX's patterns on 2.6e5 / 6.4e6 words.",
        "Trusts our transcription of Liang's algorithm, calibrated on the repository's 20 hyphenation words, 3 explanation vectors and the TeXbook Appendix H example. Malformed patterns (a12b, 1.ab), upper-case exceptions and patterns loaded after exceptions are kept out of the generator (DESIGN guard G).",
        "DESIGN.md §6 C13",
    ),
    "C14": (
        "runtime monitor, conservation checker: horizontal lists built by the real TextPreprocessorImpl are hyphenated by the real pass; (1) deleting inserted discretionaries restores the list node for node, (2) letters conserved at each discretionary, (2b/2c) pre/post-break differential against the same lig/kern runner, (3) positions = Liang positions (C13's model) within the minimums for the words found by a transcription of TeX §894-899; the repository's 33 TeX-verified goldens compared exactly; panic oracle",
        "Held on the executions produced: exhaustive 16 291 lig/kern programs of <=2 rules x all words of 2-4 letters over {a,b} x all hyphen-position sets (2.4e6 lists), 3e5 / 2e7 cmr10 paragraphs, 6e5 / 4e7 synthetic-font paragraphs with hyphen and boundary rules, minimums 1..4 and hostile values.",
        "TeX's reconstitute (§905-918) is NOT transcribed: discretionary contents are checked by conservation and the differential, and exactly only on the 33 goldens. Words longer than 63 letters: (3) not demanded. Four TeX-own quirks pinned by the repository's unit tests are excluded from (1) by predicate and counted.",
        "DESIGN.md §6 C14",
    ),
}

NOT_CLAIMED = {}

checks = []
for p in props:
    pid = p["id"]
    if pid not in CLAIMED:
        continue
    tech, text, note, ref = CLAIMED[pid]
    checks.append(
        {
            "property_id": pid,
            "quick_cmd": f"./check {pid} quick",
            "thorough_cmd": f"./check {pid} thorough",
            "evidence_file": f"/verif/evidence/{pid}.json",
            "replay_cmd_template": f"./check {pid} --replay {{path}}",
            "engine": "vcheck",
            "level_claimed": {"category": "exploration", "text": text, "design_ref": ref},
            "level_note": note,
            "technique": tech,
        }
    )

hook_commits = []
try:
    out = subprocess.run(
        ["git", "-C", "/repo", "log", "--format=%h %s"], capture_output=True, text=True
    ).stdout
    hook_commits = [l.split()[0] for l in out.splitlines() if "verif hook" in l]
except Exception:
    pass

manifest = {
    "version": 1,
    "setup_cmd": "cd /verif && ./setup.sh",
    "hooks": {
        "guard": "cargo feature `verif` on crates texcraft-stdext and texlang (off by default)",
        "enable": "the harness crates depend on /repo/crates/* by path with features=[\"verif\"] (harness/vstate/Cargo.toml); ./check rebuilds from /repo's working tree on every run",
        "baseline_off_cmd": "cd /repo && cargo nextest run --workspace --no-fail-fast --offline || cargo test --workspace --no-fail-fast --offline",
        "source_commits": hook_commits,
        "add_only": True,
    },
    "engines": [
        {
            "name": "vcheck",
            "path": "/verif/harness",
            "serves_properties": [c["property_id"] for c in checks],
            "kind_free_text": "runtime monitors: one Rust binary per property (harness/cNN) built on vcore (sharded workers, panic oracle, evidence writer); reference models in harness/vmodels; Miri/TSan stages in /verif/stages",
        }
    ],
    "checks": checks,
    "not_applicable": [
        {
            "property_id": p["id"],
            "reason": NOT_CLAIMED.get(
                p["id"],
                "monitor under construction; not claimed until its check is silent on the unchanged tree (see DESIGN.md §6)",
            ),
        }
        for p in props
        if p["id"] not in CLAIMED
    ],
    "notes": "Technique family: runtime monitoring and sanitizers. Exit codes: 0 held on everything explored, 1 VIOLATION, 2 INCONCLUSIVE (never on the unchanged tree). Known findings: /verif/known_findings.json.",
}
json.dump(manifest, open(os.path.join(ROOT, "MANIFEST.json"), "w"), indent=1)
print("claimed:", [c["property_id"] for c in checks])
