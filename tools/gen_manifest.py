#!/usr/bin/env python3
"""Regenerate /verif/MANIFEST.json from the table below (one entry per claimed property).
Properties without an entry in CLAIMED go to not_applicable with the reason in NOT_CLAIMED."""
import json, os, subprocess

ROOT = os.path.dirname(os.path.dirname(os.path.abspath(__file__)))
props = [json.loads(l) for l in open(os.path.join(ROOT, "properties.jsonl"))]

# id -> (technique, level text, level note, design ref)
CLAIMED = {
    "C01": (
        "runtime monitor: generated TeX programs run in the real VM; every tracked value read back in-language and via state probes; compared online with two reference models (declarative scope rule + TeX eqtb/save-stack §268-283); H2 stack-lockstep invariant at hook",
        "Held on the executions produced: exhaustive op sequences (<=6 quick / <=8 thorough) for six target pairs plus random programs at depth <=8 over 23 targets; a wrong restored value, a leaked definition, a scope prefix affecting more than one assignment or a desynchronised internal stack is reported with the program as witness. Sampling, not proof.",
        "Trusts our transcription of TeX §268-283 (cross-checked by a second, declarative formulation; disagreement = INCONCLUSIVE) and the guarded read-only hook VM::verif_snapshot.",
        "DESIGN.md §6 C01",
    ),
    "C08": (
        "runtime monitor, differential: the same generated program run uninterrupted vs continued after serialise+deserialise at EVERY line boundary, in JSON/MessagePack/bincode; per-line output, errors (rendered), recovered-error count, font events and a final state dump (registers, codes, font, H2 stack sizes) must be identical",
        "Held on the executions produced: ~800 (quick) / 60k (thorough) generated programs leaving behind macros on control sequences and active characters, aliases, all register kinds, code tables, open groups with saved values, executed-but-open conditionals, open \\read streams, fresh names, fonts, recovered errors; every line boundary enumerated as checkpoint. Any divergence is reported with the program, the checkpoint position and both observations.",
        "No external model: both sides are the real code. Non-serialised attachments (file system, terminal, prefix tag registry) are re-attached by the harness as an engine would. Checkpoints after a fatal error are outside the property (pending input not exhausted).",
        "DESIGN.md §6 C08",
    ),
    "C09": (
        "runtime monitor, crash/panic oracle: token-level programs over the full installed vocabulary with hostile operands, truncated at every fragment boundary, in all four interaction modes; outcome of VM::run observed under catch_unwind with panic-site attribution, error rendering and source location checked, H2 snapshot after the run, default-stack probe in an 8 MiB thread (process death caught by the worker journal), logical step budget",
        "Held on the executions produced: ~2.5e5 (quick) / 2e7 (thorough) VM runs ending in Ok or a located, rendered error; every panic inside /repo, arithmetic overflow, index error, todo!(), unbalanced execution stack, pending shutdown or process death is a violation keyed by (file, function, message). Non-terminating programs are cut by a step budget and not counted.",
        "Totality is sampled, not proved. Runs use a 1 GiB stack except the dedicated default-stack probe. Known finding C09-file-location-panics is reported, not suppressed silently.",
        "DESIGN.md §6 C09",
    ),
    "C20": (
        "runtime monitors vs executable sequential models after every operation (stack-of-snapshots for the scoped map, naive windows for the matcher, string table for the interner), exhaustive over small histories + BFS over distinct states + random; tags: real threads behind a barrier with uniqueness oracle and counted ownership interleavings; Miri many-seeds (data-race detector, weak memory) and ThreadSanitizer stages",
        "Held on the executions produced: all 1e7 (quick) / 1e8 (thorough) histories over 2 keys x 2 values for both backing containers incl. iter_all->FromIterator rebuild bisimulation, BFS to depth 12/15, random histories over 16 keys; all patterns<=5 x texts<=12 over {a,b,c}; interner under constant, weak and random hashers incl. serde rebuild; 2/8/64 threads x N tag creations with distinct interleavings counted; Miri 32/256 seeds; TSan (thorough). Thread schedules are sampled, not enumerated.",
        "The sequential models are the specification. Miri/TSan stages report tool failure as INCONCLUSIVE, never as a violation.",
        "DESIGN.md §6 C20",
    ),
    "C04": (
        "runtime monitor: real break_line_single_attempt on generated lists; online check of the debug::Logger trace (every feasible break's badness/penalty/demerits, every new active node) and optimality/feasibility/looseness of the result against an independent evaluator written from the definitions (DP over breakpoint x line count x fitness class, cross-checked by brute-force enumeration of all break subsets on small lists)",
        "Held on the executions produced: exhaustive lists of length <=6 (quick) / <=7 (thorough) over a 7-item alphabet, 1.3e6 / 3e7 random and hostile lists (kerns, fil glue, discretionaries, penalties +-10000, 1-4 line widths, tolerances, negative adj_demerits, looseness -2..2) and the book excerpts in cmr10 at random widths. Non-monotone instances (overfull(a,b) not upward closed in b) are skipped and counted, as the property states.",
        "Trusts our evaluator of TeX §817-875, calibrated against all 28 TeX \\tracingparagraphs logs in the repository (4450 feasible breaks, 2302 nodes identical); DP and brute force must agree or the case is INCONCLUSIVE; ties between equal-demerit sequences accepted either way.",
        "DESIGN.md §6 C04",
    ),
    "C15": (
        "runtime monitor: real HBox::pack on generated lists compared field by field with a transcription of TeX §649-667 (four-element stretch/shrink totals), ratio as exact rational and through the printed form, plus a model-free 'fills exactly' conservation check and the panic oracle",
        "Held on the executions produced: exhaustive char + 2 (thorough 3) glue nodes from 144 specs x 7 targets, and 6e5 / 6e7 random lists of all node kinds with glue amounts chosen to cancel, targets at natural +- {0, 1sp, shrink, shrink+-1sp, stretch}.",
        "Trusts our transcription of TeX §649-667, calibrated on all 509 TeX-produced line boxes in the repository's want-files; glue sign is not observable on ds::HBox and is compared in absolute value; Mark/Insertion/Adjust/Math are todo!() in the code and outside the quantifier.",
        "DESIGN.md §6 C15",
    ),
}

NOT_CLAIMED = {}

checks = []
for p in props:
    pid = p["id"]
    if pid not in CLAIMED:
        continue
    tech, text, note, ref = CLAIMED[pid]
    checks.append(
        {
            "property_id": pid,
            "quick_cmd": f"./check {pid} quick",
            "thorough_cmd": f"./check {pid} thorough",
            "evidence_file": f"/verif/evidence/{pid}.json",
            "replay_cmd_template": f"./check {pid} --replay {{path}}",
            "engine": "vcheck",
            "level_claimed": {"category": "exploration", "text": text, "design_ref": ref},
            "level_note": note,
            "technique": tech,
        }
    )

hook_commits = []
try:
    out = subprocess.run(
        ["git", "-C", "/repo", "log", "--format=%h %s"], capture_output=True, text=True
    ).stdout
    hook_commits = [l.split()[0] for l in out.splitlines() if "verif hook" in l]
except Exception:
    pass

manifest = {
    "version": 1,
    "setup_cmd": "cd /verif && ./setup.sh",
    "hooks": {
        "guard": "cargo feature `verif` on crates texcraft-stdext and texlang (off by default)",
        "enable": "the harness crates depend on /repo/crates/* by path with features=[\"verif\"] (harness/vstate/Cargo.toml); ./check rebuilds from /repo's working tree on every run",
        "baseline_off_cmd": "cd /repo && cargo nextest run --workspace --no-fail-fast --offline || cargo test --workspace --no-fail-fast --offline",
        "source_commits": hook_commits,
        "add_only": True,
    },
    "engines": [
        {
            "name": "vcheck",
            "path": "/verif/harness",
            "serves_properties": [c["property_id"] for c in checks],
            "kind_free_text": "runtime monitors: one Rust binary per property (harness/cNN) built on vcore (sharded workers, panic oracle, evidence writer); reference models in harness/vmodels; Miri/TSan stages in /verif/stages",
        }
    ],
    "checks": checks,
    "not_applicable": [
        {
            "property_id": p["id"],
            "reason": NOT_CLAIMED.get(
                p["id"],
                "monitor under construction; not claimed until its check is silent on the unchanged tree (see DESIGN.md §6)",
            ),
        }
        for p in props
        if p["id"] not in CLAIMED
    ],
    "notes": "Technique family: runtime monitoring and sanitizers. Exit codes: 0 held on everything explored, 1 VIOLATION, 2 INCONCLUSIVE (never on the unchanged tree). Known findings: /verif/known_findings.json.",
}
json.dump(manifest, open(os.path.join(ROOT, "MANIFEST.json"), "w"), indent=1)
print("claimed:", [c["property_id"] for c in checks])
