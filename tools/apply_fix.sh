#!/bin/bash
# tools/apply_fix.sh <patch> <message-file> <test crates...>
# apply a proposed fix to /repo, run the named crates' tests (all features where serde matters), commit with the message.
set -u
P="$1"; MSG="$2"; shift 2
cd /repo
if ! git apply --check "$P" 2>/tmp/applyerr; then echo "DOES NOT APPLY: $(cat /tmp/applyerr | head -3)"; exit 1; fi
git apply "$P"
pk=""; for c in "$@"; do pk="$pk -p $c"; done
if ! cargo test $pk --offline >/tmp/fixtest.log 2>&1; then echo "TESTS FAILED"; grep -E "FAILED|panicked|error" /tmp/fixtest.log | head; git checkout -- .; exit 1; fi
fmt=$(cargo fmt $pk -- --check 2>/dev/null | head -3)
[ -n "$fmt" ] && echo "FMT DIFF (check): $fmt"
git commit -qaF "$MSG" && git log --oneline | head -1
