#!/usr/bin/env python3
"""Merge known_findings.d/*.json into the committed /verif/known_findings.json (dev-time tool; checks never write it)."""
import json, glob, os
ROOT = os.path.dirname(os.path.dirname(os.path.abspath(__file__)))
out = []
seen = set()
for f in sorted(glob.glob(os.path.join(ROOT, "known_findings.d", "*.json"))):
    for e in json.load(open(f))["findings"]:
        if e["id"] in seen:
            continue
        seen.add(e["id"])
        out.append(e)
json.dump({"comment": "Genuine defects of /repo found by the monitors. status=open: reported as KNOWN-FINDING (exit 0) when observed; status=fixed: repaired by the named fix: commit, suppresses nothing. Never written at run time.", "findings": out}, open(os.path.join(ROOT, "known_findings.json"), "w"), indent=1)
print(len(out), "entries")
