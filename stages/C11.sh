#!/bin/bash
# Extra stage for C11 (thorough tier only): coverage-guided fonts (property lists and .tfm bytes), decided by the monitor's own
# round-trip oracle (warning-free b0 -> PL -> TFM is the same font, canonical bytes are a fixed point). See fuzz.sh.
exec "$(dirname "$0")/fuzz.sh" "${1:-quick}" "${2:-/tmp}" c11_pl_font 8192
