#!/bin/bash
# Extra stage for C06 (thorough tier only): coverage-guided register statements, decided by the monitor's own oracle. See fuzz.sh.
exec "$(dirname "$0")/fuzz.sh" "${1:-quick}" "${2:-/tmp}" c06_statements 256
