#!/bin/bash
# Extra stages for C12.
#  1. (both tiers) the `box` BINARY: skip flags must reach the line breaker as given (stages/c12_cli.py). The binary is built from
#     the repository's working tree into the harness's target directory; if it cannot be built the stage is inconclusive.
#  2. (thorough tier) coverage-guided paragraphs, decided by the monitor's own oracle (see fuzz.sh).
set -u
TIER="${1:-quick}"; OUT="${2:-/tmp}"
HERE="$(cd "$(dirname "$0")" && pwd)"
ROOT="${VERIF_ROOT:-/verif}"
HARNESS="${VERIF_HARNESS:-$ROOT/harness}"
REPO="${VERIF_REPO:-/repo}"
TGT="${CARGO_TARGET_DIR:-$HARNESS/target}/boxbin"
if (cd "$REPO" && CARGO_NET_OFFLINE=true cargo build --release --offline -p boxworks-bin --bin box --target-dir "$TGT") >"$OUT/box-build.log" 2>&1; then
  python3 "$HERE/c12_cli.py" "$OUT" "$TGT/release/box" >"$OUT/cli.log" 2>&1 || \
    python3 - "$OUT" <<'PY'
import json,sys
json.dump({"stage":"cli","evaluations":0,"observed":{},"violations":[],"inconclusive":["stages/c12_cli.py failed: see cli.log"],"samples":[]},open(sys.argv[1]+"/cli.json","w"))
PY
else
  python3 - "$OUT" <<'PY'
import json,sys
json.dump({"stage":"cli","evaluations":0,"observed":{},"violations":[],"inconclusive":["the box binary could not be built (box-build.log)"],"samples":[]},open(sys.argv[1]+"/cli.json","w"))
PY
fi
"$HERE/fuzz.sh" "$TIER" "$OUT" c12_paragraph 4096
exit 0
