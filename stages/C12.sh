#!/bin/bash
# Extra stage for C12 (thorough tier only): coverage-guided paragraphs (parameters + a horizontal list in the Box language),
# decided by the monitor's own oracle (the lines reproduce the broken list; break_line agrees with its attempts). See fuzz.sh.
exec "$(dirname "$0")/fuzz.sh" "${1:-quick}" "${2:-/tmp}" c12_paragraph 4096
