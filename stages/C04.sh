#!/bin/bash
# Extra stage for C04 (thorough tier only): coverage-guided paragraphs (parameters + a horizontal list in the Box language),
# decided by the monitor's own oracle (independent optimum + online check of the breaker's trace). See fuzz.sh.
exec "$(dirname "$0")/fuzz.sh" "${1:-quick}" "${2:-/tmp}" c04_paragraph 4096
