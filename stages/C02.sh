#!/bin/bash
# Extra stage for C02 (thorough tier only): coverage-guided definition + call lines, decided by the monitor's own oracle
# (model lexer, parse_def, two formulations of TeX's argument binding, predict/exec vs the real VM). See fuzz.sh.
exec "$(dirname "$0")/fuzz.sh" "${1:-quick}" "${2:-/tmp}" c02_def_and_call 256
