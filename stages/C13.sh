#!/bin/bash
# Extra stage for C13 (thorough tier only): coverage-guided pattern sets, exception lists and words, decided by the monitor's
# own oracle (real Hyphenator vs the transcription of Liang's algorithm). See fuzz.sh.
exec "$(dirname "$0")/fuzz.sh" "${1:-quick}" "${2:-/tmp}" c13_patterns_words 1024
