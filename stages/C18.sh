#!/bin/bash
# Extra stage for C18 (thorough tier only): coverage-guided box-language text, decided by the monitor's own oracle. See fuzz.sh.
exec "$(dirname "$0")/fuzz.sh" "${1:-quick}" "${2:-/tmp}" c18_bwl_text 4096
