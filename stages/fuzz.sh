#!/bin/bash
# Coverage-guided stage (thorough tier only): libFuzzer + ASan on a target of harness/vfuzz whose inputs are decided by the
# monitor's own oracle (vcore::fuzzglue).
#   stages/fuzz.sh <tier> <outdir> <target> <max_len> [seconds] [forks]     writes <outdir>/fuzz-<target>.json
# Only witness files written by the oracle become violations. libFuzzer's own exit code, its crashes (e.g. the listed
# stack-exhaustion findings), timeouts and OOMs are counters, never verdicts (wall-clock and memory dependent). If the
# nightly toolchain / cargo-fuzz cannot build the target the stage records `unavailable = 1` and contributes nothing: the
# monitor's generated workloads do not depend on it.
set -u
TIER="${1:-quick}"; OUT="${2:-/tmp}"; TARGET="$3"; MAXLEN="${4:-4096}"
[ "$TIER" = "thorough" ] || exit 0
ROOT="${VERIF_ROOT:-/verif}"
HARNESS="${VERIF_HARNESS:-$ROOT/harness}"
SEED="${VERIF_SEED:-0}"
SECS="${5:-${VERIF_FUZZ_SECONDS:-300}}"
FORKS="${6:-${VERIF_FUZZ_FORKS:-12}}"
TGT="${CARGO_TARGET_DIR:-$HARNESS/target}/vfuzz"
WORK="$(mktemp -d /tmp/vfuzz-XXXXXX)"
trap 'rm -rf "$WORK"' EXIT
mkdir -p "$WORK/art" "$WORK/findings" "$WORK/dump"

emit() { # emit <unavailable> <note>
python3 - "$OUT/fuzz-$TARGET.json" "$WORK" "$1" "$2" "$TARGET" <<'PY'
import json, sys, glob, re, os
out, work, unavailable, note, target = sys.argv[1], sys.argv[2], int(sys.argv[3]), sys.argv[4], sys.argv[5]
obs = {"unavailable": unavailable}
execs = cov = crashes = ooms = timeouts = 0
log = os.path.join(work, "fuzz.log")
if os.path.exists(log):
    for line in open(log, errors="replace"):
        m = re.match(r"#(\d+)[:\s].*?cov: (\d+)", line)
        if m:
            execs = max(execs, int(m.group(1))); cov = max(cov, int(m.group(2)))
        m = re.search(r"oom/timeout/crash: (\d+)/(\d+)/(\d+)", line)
        if m:
            ooms, timeouts, crashes = int(m.group(1)), int(m.group(2)), int(m.group(3))
obs["execs"] = execs; obs["coverage_edges"] = cov
obs["aborts_ignored"] = crashes; obs["timeouts"] = timeouts; obs["ooms"] = ooms
obs["seed_inputs"] = len(glob.glob(os.path.join(work, "dump", "corpus", "*")))
obs["corpus_at_end"] = len(glob.glob(os.path.join(work, "corpus", "*")))
viol = []
for f in sorted(glob.glob(os.path.join(work, "findings", "finding-*.json"))):
    try:
        v = json.load(open(f))
        viol.append({"signature": v.get("signature", "?"), "detail": {k: v.get(k) for k in ("detail", "input_len", "input_hex", "input_lossy")}})
    except Exception as e:
        viol.append({"signature": "unreadable-finding-file", "detail": str(e)})
obs["unlisted_findings"] = len(viol)
obs["inconclusive_inputs_kinds"] = len(glob.glob(os.path.join(work, "findings", "inconclusive-*.txt")))
inc = []
if not unavailable and execs == 0:
    inc.append(f"libFuzzer target {target} executed nothing: " + (open(log, errors="replace").read()[-300:].replace("\n", " | ") if os.path.exists(log) else "no log"))
doc = {"stage": "fuzz-" + target, "evaluations": execs, "observed": obs, "violations": viol, "inconclusive": inc,
       "samples": [{"note": note}] if note else []}
json.dump(doc, open(out, "w"), indent=1)
PY
}

if ! (cd "$HARNESS/vfuzz" && { [ -f Cargo.lock ] || cp "$HARNESS/Cargo.lock" Cargo.lock; } && \
      CARGO_NET_OFFLINE=true CARGO_TARGET_DIR="$TGT" cargo +nightly fuzz build --fuzz-dir . "$TARGET" ) >"$WORK/build.log" 2>&1; then
  tail -5 "$WORK/build.log"
  emit 1 "cargo +nightly fuzz build failed: $(tail -1 "$WORK/build.log" | tr -d '"')"
  exit 0
fi
BIN="$TGT/x86_64-unknown-linux-gnu/release/$TARGET"
export VERIF_ROOT="$ROOT"
# seed corpus and dictionary from the monitor's own generators
# (the target exits from inside the callback once the files are written; libFuzzer reports that as a crash of the empty input)
VERIF_FUZZ_DUMP="$WORK/dump" "$BIN" -runs=1 -artifact_prefix="$WORK/art/" >"$WORK/dump.log" 2>&1
mkdir -p "$WORK/corpus"; cp "$WORK/dump/corpus/"* "$WORK/corpus/" 2>/dev/null
DICT=(); [ -s "$WORK/dump/dict.txt" ] && DICT=(-dict="$WORK/dump/dict.txt")
export VERIF_FUZZ_FINDINGS="$WORK/findings"
"$BIN" "$WORK/corpus" -fork="$FORKS" -ignore_crashes=1 -ignore_timeouts=1 -ignore_ooms=1 \
    -max_total_time="$SECS" -max_len="$MAXLEN" -timeout=60 -rss_limit_mb=4096 -seed="$((SEED + 1))" "${DICT[@]}" \
    -artifact_prefix="$WORK/art/" >"$WORK/fuzz.log" 2>&1
emit 0 "libFuzzer -fork=$FORKS for ${SECS}s, max_len $MAXLEN, seed $((SEED + 1)), $(ls "$WORK/dump/corpus" 2>/dev/null | wc -l) seed inputs"
exit 0
