# stages/lib.sh - sourced by the stage scripts.
# budget <cpu_s> <wall_s> cmd...   run cmd with a CPU-time limit per process (ulimit -t: SIGXCPU/SIGKILL, load independent)
# and a wall-clock cap as the last resort. A stage that hits either is INCONCLUSIVE, never a verdict; the CPU limit is the one
# that is meant to fire (a looping workload), the wall-clock cap only bounds the run on a machine that gives the stage next to
# no CPU, so it is deliberately several times larger.
budget() {
  local cpu="$1" wall="$2"; shift 2
  ( ulimit -t "$cpu" 2>/dev/null; exec timeout "$wall" "$@" )
}
