#!/bin/bash
# Extra stage for C17 (thorough tier only): coverage-guided multisets for compress and functional graphs for the next-larger
# program, decided by the monitor's own oracles (brute-force tolerance oracle, functional-graph oracle). See fuzz.sh.
exec "$(dirname "$0")/fuzz.sh" "${1:-quick}" "${2:-/tmp}" c17_compress_nextlarger 1400
