#!/usr/bin/env python3
"""stages/c12_cli.py <outdir> <box-binary>    (run by stages/C12.sh, both tiers)

C12 anchors crates/boxworks-bin/src/box.rs: the `box linebreak` command hands the skips given on the command line to the line
breaker. The monitors drive the library; this stage drives the BINARY. For a table of flag texts (all four stretch and shrink
orders, differing orders in the `plus` and `minus` parts, plus-only, minus-only, negative and fractional amounts) it runs
`box linebreak` on a one-word and a three-word paragraph with the flag given as --left-skip, --right-skip, --par-fill-skip and
--space-skip, and looks for the glue in the printed line boxes: the node must be printed exactly as this stage's own reading of
the flag text prints it (Box-language `glue(<width>, <stretch>[order], <shrink>[order])`, amounts through TeX's print_scaled).
Writes <outdir>/cli.json in the format the runner merges.
"""
import json, os, subprocess, sys, tempfile

out, box = sys.argv[1], sys.argv[2]

def print_scaled(s):
    # TeX §103
    r = ""
    if s < 0:
        r += "-"; s = -s
    r += str(s // 65536) + "."
    s = 10 * (s % 65536) + 5
    delta = 10
    while True:
        if delta > 65536:
            s = s + 32768 - 50000
        r += str(s // 65536)
        s = 10 * (s % 65536)
        delta *= 10
        if s <= delta:
            break
    return r

def scaled(pt_num, pt_den=1):
    # exact for the amounts in the table (integers and halves/quarters)
    return (pt_num * 65536) // pt_den

# (flag text, (width sp, stretch sp, stretch order, shrink sp, shrink order))
ORD = {"": "pt", "fil": "fil", "fill": "fill", "filll": "filll"}
TABLE = []
def add(w, st, so, sh, ho):
    text = f"{w}pt"
    if st is not None:
        text += f" plus {st}{so if so else 'pt'}"
    if sh is not None:
        text += f" minus {sh}{ho if ho else 'pt'}"
    TABLE.append((text, (w, st or 0, so or "", sh or 0, ho or "")))
for so in ["", "fil", "fill", "filll"]:
    for ho in ["", "fil", "fill", "filll"]:
        add(0, 1, so, 2, ho)
add(3, 2, "fil", None, None)
add(3, None, None, 2, "fil")
add(3, None, None, 2, "")
add(5, 4, "", 1, "")
add(2, 3, "fill", 1, "")
add(2, 1, "", 3, "filll")

def expect(g):
    w, st, so, sh, ho = g
    f = lambda v, o: print_scaled(scaled(v)) + (o if o else "pt")
    return f"glue({print_scaled(scaled(w))}pt, {f(st, so)}, {f(sh, ho)})"

viol, inc, obs = [], [], {"flags_checked": 0, "glue_nodes_matched": 0, "flag_texts": len(TABLE)}
with tempfile.TemporaryDirectory() as td:
    texts = os.path.join(td, "t.txt")
    open(texts, "w").write("a\nab cd ef\n")
    for text, g in TABLE:
        want = expect(g)
        for flag in ["--left-skip", "--right-skip", "--par-fill-skip", "--space-skip"]:
            cmd = [box, "linebreak", "--width=200pt", f"{flag}={text}", f"--texts-file={texts}"]
            try:
                r = subprocess.run(cmd, capture_output=True, text=True, timeout=120)
            except Exception as e:
                inc.append(f"box could not be run: {e}"); break
            if r.returncode != 0:
                # a flag text the command rejects is a finding of its own kind: every text in the table is legal TeX glue
                viol.append({"signature": f"cli:flag-rejected:{flag}", "detail": {"flag": f"{flag}={text}", "stderr": r.stderr[-400:]}})
                continue
            obs["flags_checked"] += 1
            n = r.stdout.count(want)
            need = 1
            if n >= need:
                obs["glue_nodes_matched"] += n
            else:
                lines = [l.strip() for l in r.stdout.splitlines() if l.strip().startswith("glue(")]
                viol.append({"signature": f"cli:skip-flag-not-handed-on-as-given:{flag}",
                             "detail": {"flag": f"{flag}={text}", "expected_node": want, "glue_nodes_printed": sorted(set(lines))[:12]}})
if obs["flags_checked"] == 0 and not inc:
    inc.append("no flag could be checked")
# de-duplicate violations by signature (first witness kept)
seen, uniq = set(), []
for v in viol:
    if v["signature"] not in seen:
        seen.add(v["signature"]); uniq.append(v)
json.dump({"stage": "cli", "evaluations": obs["flags_checked"], "observed": obs, "violations": uniq, "inconclusive": inc,
           "samples": [{"flag_text": TABLE[5][0], "expected_node": expect(TABLE[5][1])}]}, open(os.path.join(out, "cli.json"), "w"), indent=1)
