#!/bin/bash
# C03 extra stage: Miri over the lexer's unsafe in-place byte write (`as_bytes_mut` in
# RawLexer::maybe_apply_caret_notation), under Stacked Borrows and Tree Borrows.
#
#   stages/C03.sh <quick|thorough> <outdir>
#
# Writes <outdir>/miri-stacked.json and <outdir>/miri-tree.json in the format merged by
# vcore/src/runner.rs. A Miri diagnostic, a panic of the lexer, a non-UTF-8 line buffer or a lexer
# that does not reach the end of its input is a violation; Miri/cargo not being able to build or
# start is "inconclusive".
set -u
TIER="${1:-quick}"
OUT="${2:-.}"
mkdir -p "$OUT"
HARNESS="${VERIF_HARNESS:-$(cd "$(dirname "$0")/../harness" && pwd)}"
CRATE="$HARNESS/vmiri-lexer"
case "$TIER" in
  thorough) TOTAL=3200 ;;
  *) TOTAL=240 ;;
esac
JOBS="${VERIF_MIRI_JOBS:-8}"          # shards per borrow model (two models run at the same time)
export CARGO_TARGET_DIR="$CRATE/target"
export CARGO_NET_OFFLINE=true
WORK="$(mktemp -d "${TMPDIR:-/tmp}/c03-miri.XXXXXX")"
trap 'rm -rf "$WORK"' EXIT

esc() { # make arbitrary text safe inside a JSON string
  tr -d '\000-\010\013-\037"\\' | tr '\n\t' '  ' | cut -c1-600
}

write_json() { # stage strings results tokens utf8 carets multibyte violations_json inconclusive_json samples_json
  cat >"$OUT/$1.json" <<EOF
{"stage":"$1","evaluations":$2,
 "observed":{"strings":$2,"lexer_results":$3,"tokens_traced":$4,"utf8_validity_checks":$5,"caret_pairs_in_sources":$6,"strings_with_multibyte_chars":$7},
 "violations":[$8],
 "inconclusive":[$9],
 "samples":[${10}]}
EOF
}

if [ "${C03_MIRI:-on}" = "off" ]; then   # development knob; an explicit INCONCLUSIVE, never a pass
  for st in miri-stacked miri-tree; do
    write_json "$st" 0 0 0 0 0 0 "" "\"Miri stage disabled by C03_MIRI=off\"" ""
  done
  exit 0
fi
if [ ! -d "$CRATE" ]; then
  for st in miri-stacked miri-tree; do
    write_json "$st" 0 0 0 0 0 0 "" "\"crate $CRATE not found\"" ""
  done
  exit 0
fi

# build once (zero strings), so that the shards do not queue on cargo's build lock
BUILD_LOG="$WORK/build.log"
if ! (cd "$CRATE" && MIRIFLAGS="" cargo +nightly miri run --offline -- 0 0) >"$BUILD_LOG" 2>&1 \
   || ! grep -q '^SUMMARY strings=0 ' "$BUILD_LOG"; then
  why="$(grep -m3 -E '^(error|warning: build failed)' "$BUILD_LOG" | esc)"
  [ -z "$why" ] && why="$(tail -n 3 "$BUILD_LOG" | esc)"
  for st in miri-stacked miri-tree; do
    write_json "$st" 0 0 0 0 0 0 "" "\"cargo miri could not build or start the workload: $why\"" ""
  done
  exit 0
fi

PER=$(( (TOTAL + JOBS - 1) / JOBS ))
. "$(cd "$(dirname "$0")" && pwd)/lib.sh"
run_model() { # stage-name miriflags
  local st="$1" flags="$2" k first n
  for k in $(seq 0 $((JOBS - 1))); do
    first=$((k * PER))
    n=$PER
    [ $((first + n)) -gt "$TOTAL" ] && n=$((TOTAL - first))
    [ "$n" -le 0 ] && continue
    ( cd "$CRATE" && MIRIFLAGS="$flags" budget 3000 24000 cargo +nightly miri run --offline -- "$first" "$n" \
        >"$WORK/$st-$k.log" 2>&1; echo $? >"$WORK/$st-$k.rc" ) &
  done
}
run_model miri-stacked ""
run_model miri-tree "-Zmiri-tree-borrows"
wait

collect() { # stage-name
  local st="$1" strings=0 results=0 tokens=0 utf8=0 carets=0 multi=0 viol="" inc="" samples="" k rc log line sig det
  for k in $(seq 0 $((JOBS - 1))); do
    log="$WORK/$st-$k.log"
    [ -f "$log" ] || continue
    rc="$(cat "$WORK/$st-$k.rc" 2>/dev/null || echo 99)"
    line="$(grep -m1 '^SUMMARY ' "$log")"
    if [ -n "$line" ]; then
      for kv in $line; do
        case "$kv" in
          strings=*) strings=$((strings + ${kv#strings=})) ;;
          results=*) results=$((results + ${kv#results=})) ;;
          tokens=*) tokens=$((tokens + ${kv#tokens=})) ;;
          utf8_checks=*) utf8=$((utf8 + ${kv#utf8_checks=})) ;;
          caret_pairs=*) carets=$((carets + ${kv#caret_pairs=})) ;;
          multibyte_strings=*) multi=$((multi + ${kv#multibyte_strings=})) ;;
        esac
      done
    fi
    if [ "$k" -lt 2 ]; then
      s="$(grep -m1 '^SAMPLE ' "$log" | esc)"
      [ -n "$s" ] && samples="$samples${samples:+,}\"$s\""
    fi
    [ "$rc" = "0" ] && [ -n "$line" ] && continue
    # something went wrong in this shard: classify
    DIAG='error: Undefined Behavior|unsafe precondition\(s\) violated|error: unsupported operation|error: memory leaked|error: abnormal termination|error: the evaluated program|error: deadlock|error: post-monomorphization'
    if grep -q -E "$DIAG" "$log"; then
      sig="$(grep -m1 -E "$DIAG" "$log" \
              | sed -E 's/0x[0-9a-f]+/0x#/g; s/alloc[0-9]+/alloc#/g; s/<[0-9]+>/<#>/g; s/[0-9]+/#/g' | esc | cut -c1-160)"
      det="$(grep -B2 -A10 -m1 -E "$DIAG" "$log" | esc)"
      viol="$viol${viol:+,}{\"signature\":\"miri-diagnostic: $sig\",\"idx\":$((k * PER)),\"detail\":{\"shard\":$k,\"first_string\":$((k * PER)),\"log\":\"$det\"}}"
    elif grep -q -E '^(BAD-UTF8|PANIC|RUNAWAY) ' "$log"; then
      sig="$(grep -m1 -E '^(BAD-UTF8|PANIC|RUNAWAY) ' "$log" | cut -d' ' -f1)"
      det="$(grep -m1 -E '^(BAD-UTF8|PANIC|RUNAWAY) ' "$log" | esc)"
      msg=""
      [ "$sig" = "PANIC" ] && msg=": $(grep -m1 '^PANIC ' "$log" | sed -E 's/.*message=//; s/[0-9]+/#/g' | esc | cut -c1-100)"
      viol="$viol${viol:+,}{\"signature\":\"lexer-$sig$msg\",\"idx\":$((k * PER)),\"detail\":{\"shard\":$k,\"log\":\"$det\"}}"
    else
      det="$(tail -n 4 "$log" | esc)"
      inc="$inc${inc:+,}\"shard $k ended with status $rc without a verdict: $det\""
    fi
  done
  if [ "$strings" -lt "$TOTAL" ] && [ -z "$viol" ] && [ -z "$inc" ]; then
    inc="\"only $strings of $TOTAL strings were run\""
  fi
  write_json "$st" "$strings" "$results" "$tokens" "$utf8" "$carets" "$multi" "$viol" "$inc" "$samples"
}
collect miri-stacked
collect miri-tree
# coverage-guided stage (thorough tier only): source text + table selector chosen by libFuzzer, decided by the monitor's oracle
"$(cd "$(dirname "$0")" && pwd)/fuzz.sh" "$TIER" "$OUT" c03_lexer_source 512
exit 0
