#!/bin/bash
# Extra stage for C16 (thorough tier only): coverage-guided DVI bytes, decided by the monitor's own oracle. See fuzz.sh.
exec "$(dirname "$0")/fuzz.sh" "${1:-quick}" "${2:-/tmp}" c16_dvi_bytes 4096
