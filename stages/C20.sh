#!/bin/bash
# Extra stages for property C20 (DESIGN.md §5), called by /verif/check as
#     stages/C20.sh <quick|thorough> <outdir>
# before the monitor binary runs. Writes one JSON file per stage into <outdir>:
#     miri.json   Miri (data-race detector, weak-memory emulation, UB checks) on command::Tag /
#                 StaticTag created from 2-4 threads, many scheduler seeds; plus a small
#                 grouping-map / interner / matcher workload
#     tsan.json   (thorough only) ThreadSanitizer, 64 native threads x 10^4 tag creations x 3 rounds
# Verdict policy: a Miri / TSan diagnostic or a broken uniqueness check is a *violation*; anything
# that keeps the tool from running (tool missing, build failure, timeout) is *inconclusive*.
set -u
TIER="${1:-quick}"
OUT="${2:-/tmp/stage-C20}"
HERE="$(cd "$(dirname "$0")" && pwd)"
HARNESS="${VERIF_HARNESS:-$HERE/../harness}"
mkdir -p "$OUT"
LOGDIR="$OUT/logs"
mkdir -p "$LOGDIR"
export CARGO_NET_OFFLINE=true
# the stage's own cargo invocations must not inherit the monitor's target dir or flags
unset CARGO_TARGET_DIR RUSTFLAGS CARGO_ENCODED_RUSTFLAGS

. "$HERE/lib.sh"
# MIRI_CPU: CPU seconds per Miri process (many-seeds runs one thread per core, so this is a total over threads);
# MIRI_WALL: wall-clock last resort (see lib.sh)
if [ "$TIER" = "thorough" ]; then
  SEEDS=256; CONTAINER_OPS=400; MIRI_CPU=24000; MIRI_WALL=18000
else
  SEEDS=32; CONTAINER_OPS=120; MIRI_CPU=3840; MIRI_WALL=2880
fi
[ -n "${VERIF_MIRI_SEEDS:-}" ] && SEEDS="$VERIF_MIRI_SEEDS"

# ---------------------------------------------------------------------------------------- Miri
miri_available=1
if ! cargo +nightly miri --version >"$LOGDIR/miri-version.log" 2>&1; then miri_available=0; fi

if [ "$miri_available" = 1 ]; then
  (
    cd "$HARNESS/vmiri" || exit 97
    export CARGO_TARGET_DIR="$HARNESS/vmiri/target"
    # build once (a build failure must be told apart from a Miri diagnostic)
    budget "$MIRI_CPU" "$MIRI_WALL" cargo +nightly miri run --offline --bin c20 -- build-only >"$LOGDIR/miri-build.log" 2>&1
    echo $? >"$LOGDIR/miri-build.rc"
    MIRIFLAGS="-Zmiri-many-seeds=0..$SEEDS -Zmiri-preemption-rate=0.05" \
      budget "$MIRI_CPU" "$MIRI_WALL" cargo +nightly miri run --offline --bin c20 -- tags >"$LOGDIR/miri-tags.log" 2>&1
    echo $? >"$LOGDIR/miri-tags.rc"
    MIRIFLAGS="-Zmiri-many-seeds=0..2" \
      budget "$MIRI_CPU" "$MIRI_WALL" cargo +nightly miri run --offline --bin c20 -- containers "$CONTAINER_OPS" >"$LOGDIR/miri-containers.log" 2>&1
    echo $? >"$LOGDIR/miri-containers.rc"
  )
fi

# ---------------------------------------------------------------------------------------- TSan
if [ "$TIER" = "thorough" ]; then
  (
    cd "$HARNESS/vtsan" || exit 97
    export CARGO_TARGET_DIR="$HARNESS/vtsan/target"
    RUSTFLAGS="-Zsanitizer=thread" budget 7200 7200 cargo +nightly build --offline --release -Zbuild-std \
      --target x86_64-unknown-linux-gnu --bin c20 >"$LOGDIR/tsan-build.log" 2>&1
    echo $? >"$LOGDIR/tsan-build.rc"
    if [ "$(cat "$LOGDIR/tsan-build.rc")" = 0 ]; then
      BIN="$CARGO_TARGET_DIR/x86_64-unknown-linux-gnu/release/c20"
      for run in 1 2 3; do
        TSAN_OPTIONS="exitcode=66 halt_on_error=0 report_thread_leaks=0" \
          budget 9600 4800 "$BIN" 64 10000 3 >"$LOGDIR/tsan-run-$run.log" 2>&1
        echo $? >"$LOGDIR/tsan-run-$run.rc"
      done
      # smaller thread counts, more rounds: different contention pattern
      TSAN_OPTIONS="exitcode=66 halt_on_error=0 report_thread_leaks=0" \
        budget 9600 4800 "$BIN" 2 100000 5 >"$LOGDIR/tsan-run-4.log" 2>&1
      echo $? >"$LOGDIR/tsan-run-4.rc"
      TSAN_OPTIONS="exitcode=66 halt_on_error=0 report_thread_leaks=0" \
        budget 9600 4800 "$BIN" 8 30000 5 >"$LOGDIR/tsan-run-5.log" 2>&1
      echo $? >"$LOGDIR/tsan-run-5.rc"
    fi
  )
fi

# ------------------------------------------------------------------------------- classification
python3 - "$TIER" "$OUT" "$LOGDIR" "$SEEDS" "$miri_available" <<'PY'
import json, os, re, sys
tier, out, logdir, seeds, miri_available = sys.argv[1], sys.argv[2], sys.argv[3], int(sys.argv[4]), sys.argv[5] == "1"

def read(name):
    try:
        return open(os.path.join(logdir, name), errors="replace").read()
    except OSError:
        return None

def rc(name):
    t = read(name)
    try:
        return int(t.strip())
    except (AttributeError, ValueError):
        return None

def tail(text, n=25):
    return "\n".join((text or "").strip().splitlines()[-n:])

def excerpt(text, pattern, before=2, after=28):
    lines = (text or "").splitlines()
    for i, l in enumerate(lines):
        if re.search(pattern, l):
            return "\n".join(lines[max(0, i - before): i + after])
    return tail(text)

# A Miri diagnostic that speaks about the program's behaviour (as opposed to the tool's limits).
MIRI_VERDICT = r"error: Undefined Behavior|Data race detected|error: deadlock|error: the evaluated program deadlocked|error: abnormal termination|error: the main thread terminated without waiting"
MIRI_TOOL = r"error: unsupported operation|error: could not compile|error\[E\d+\]|error: failed to|error: no such (sub)?command|isolation"
BROKEN = r"DUPLICATE-TAG|STATIC-TAG-SEVERAL-VALUES|STATIC-TAG-EQUALS-FRESH-TAG|MISSING-TAGS|^CONTAINERS |PROPERTY-BROKEN"

def classify_miri(kind, log, code, violations, inconclusive):
    """Returns True when the run is clean."""
    if log is None or code is None:
        inconclusive.append(f"miri {kind} run left no log / exit code")
        return False
    m = re.search(MIRI_VERDICT, log)
    if m:
        what = "data-race" if "Data race" in log else re.sub(r"[^a-zA-Z]+", "-", m.group(0)).strip("-").lower()
        violations.append({"signature": f"{kind}/miri-diagnostic/{what}",
                           "detail": {"diagnostic": excerpt(log, MIRI_VERDICT), "exit_code": code}})
        return False
    if re.search(BROKEN, log, re.M):
        first = re.search(BROKEN, log, re.M).group(0).strip()
        first = "uniqueness-check" if first == "PROPERTY-BROKEN" else first.lower().strip()
        violations.append({"signature": f"{kind}/property-broken-under-miri/{first}",
                           "detail": {"output": excerpt(log, BROKEN, before=4, after=12), "exit_code": code}})
        return False
    if "panicked at" in log:
        # only repo code and a few lines of glue run in these binaries
        violations.append({"signature": f"{kind}/panic-under-miri",
                           "detail": {"output": excerpt(log, "panicked at"), "exit_code": code}})
        return False
    if code == 124:
        inconclusive.append(f"miri {kind} run timed out")
        return False
    if code != 0:
        why = "tool/build problem" if re.search(MIRI_TOOL, log) else "unexplained exit code"
        inconclusive.append(f"miri {kind} run failed ({why}, exit {code}): " + tail(log, 6).replace("\n", " | "))
        return False
    return True

# ---- miri.json
obs, violations, inconclusive, samples = {}, [], [], []
evaluations = 0
if not miri_available:
    inconclusive.append("cargo +nightly miri is not available: " + tail(read("miri-version.log"), 3).replace("\n", " | "))
else:
    build_rc = rc("miri-build.rc")
    build_log = read("miri-build.log") or ""
    # `build-only` is an unknown mode: the binary prints its usage and exits 2 once it was built
    if build_rc != 2 or "usage: c20" not in build_log:
        inconclusive.append(f"vmiri did not build / start under Miri (exit {build_rc}): " + tail(build_log, 8).replace("\n", " | "))
    else:
        tags_log, tags_rc = read("miri-tags.log"), rc("miri-tags.rc")
        clean = classify_miri("tags", tags_log, tags_rc, violations, inconclusive)
        lines = (tags_log or "").splitlines()
        inter = [l.strip() for l in lines if l.startswith("INTERLEAVING ")]
        done = sum(1 for l in lines if l.strip() == "DONE tags")
        created = sum(int(l.split()[1]) for l in lines if l.startswith("TAGS-CREATED "))
        obs["tag_seeds_run"] = done
        obs["tag_seeds_clean"] = done if clean else 0
        obs["tag_rounds"] = len(inter)
        obs["tags_created"] = created
        obs["distinct_ownership_interleavings"] = len(set(inter))
        for t in (2, 3, 4):
            obs[f"distinct_ownership_interleavings_{t}_threads"] = len(set(l for l in inter if l.startswith(f"INTERLEAVING t={t} ")))
        evaluations += done
        if clean and done != seeds:
            inconclusive.append(f"miri tags: {done} of {seeds} seeds reported completion")
        samples.extend({"miri": l} for l in sorted(set(inter))[:3])
        c_log, c_rc = read("miri-containers.log"), rc("miri-containers.rc")
        c_clean = classify_miri("containers", c_log, c_rc, violations, inconclusive)
        c_lines = (c_log or "").splitlines()
        c_done = sum(1 for l in c_lines if l.strip() == "DONE containers")
        obs["container_runs_clean"] = c_done if c_clean else 0
        obs["container_ops"] = sum(int(l.split()[1]) for l in c_lines if l.startswith("CONTAINER-OPS "))
        evaluations += c_done
        if c_clean and c_done != 2:
            inconclusive.append(f"miri containers: {c_done} of 2 seeds reported completion")
json.dump({"stage": "miri", "evaluations": evaluations, "observed": obs, "violations": violations,
           "inconclusive": inconclusive, "samples": samples}, open(os.path.join(out, "miri.json"), "w"), indent=1)

# ---- tsan.json
if tier == "thorough":
    obs, violations, inconclusive, samples = {}, [], [], []
    evaluations = 0
    b_rc = rc("tsan-build.rc")
    if b_rc != 0:
        inconclusive.append(f"ThreadSanitizer build failed (exit {b_rc}): " + tail(read("tsan-build.log"), 8).replace("\n", " | "))
    else:
        obs.update({"runs_clean": 0, "tags_created": 0, "owner_switches": 0, "reports": 0})
        for run in (1, 2, 3, 4, 5):
            log, code = read(f"tsan-run-{run}.log"), rc(f"tsan-run-{run}.rc")
            if log is None or code is None:
                inconclusive.append(f"tsan run {run} left no log / exit code")
                continue
            reports = len(re.findall(r"WARNING: ThreadSanitizer", log))
            obs["reports"] += reports
            for l in log.splitlines():
                if l.startswith("TAGS-CREATED "):
                    obs["tags_created"] += int(l.split()[1])
                if l.startswith("OWNER-SWITCHES "):
                    obs["owner_switches"] += int(l.split()[1])
            evaluations += 1
            if reports > 0 or code == 66:
                kind = re.search(r"WARNING: ThreadSanitizer: ([a-z \-]+)", log)
                kind = kind.group(1).strip().replace(" ", "-") if kind else "report"
                violations.append({"signature": f"tags/tsan-report/{kind}",
                                   "detail": {"run": run, "reports": reports, "first_report": excerpt(log, "WARNING: ThreadSanitizer", 0, 40), "exit_code": code}})
            elif re.search(BROKEN, log, re.M):
                violations.append({"signature": "tags/property-broken-under-tsan",
                                   "detail": {"run": run, "output": excerpt(log, BROKEN, 2, 10), "exit_code": code}})
            elif "panicked at" in log:
                violations.append({"signature": "tags/panic-under-tsan",
                                   "detail": {"run": run, "output": excerpt(log, "panicked at"), "exit_code": code}})
            elif code != 0 or "DONE" not in log:
                inconclusive.append(f"tsan run {run} ended with exit {code}: " + tail(log, 5).replace("\n", " | "))
            else:
                obs["runs_clean"] += 1
    json.dump({"stage": "tsan", "evaluations": evaluations, "observed": obs, "violations": violations,
               "inconclusive": inconclusive, "samples": samples}, open(os.path.join(out, "tsan.json"), "w"), indent=1)
PY
# keep the raw logs next to the check's other work files for post-mortems
if [ -n "${VERIF_ROOT:-}" ] && [ -d "$VERIF_ROOT/work" ]; then
  rm -rf "$VERIF_ROOT/work/stage-C20-logs"; cp -r "$LOGDIR" "$VERIF_ROOT/work/stage-C20-logs" 2>/dev/null || true
fi
rm -rf "$LOGDIR"
exit 0
