#!/bin/bash
# Extra stage for C05 (thorough tier only): coverage-guided lig/kern tables (property-list syntax) and words, decided by the
# monitor's own oracle (real compiler + iterator vs two models of TeX's direct interpretation). See fuzz.sh.
exec "$(dirname "$0")/fuzz.sh" "${1:-quick}" "${2:-/tmp}" c05_ligtable_words 1024
