#!/bin/bash
# Miri stage for the VM (serves C09: "never ... undefined behaviour" part of totality; the same
# workload reaches the code behind C01/C02/C07/C19): the two transmuting pointer casts in
# vm/streams.rs and the lexer's in-place byte write, under Stacked Borrows and Tree Borrows.
# usage: stages/C09.sh <tier> <outdir>   -> writes <outdir>/miri-vm.json
set -u
TIER="${1:-quick}"; OUT="${2:-/tmp}"
HARNESS="${VERIF_HARNESS:-$(cd "$(dirname "$0")/../harness" && pwd)}"
CRATE="$HARNESS/vmiri-vm"
export CARGO_NET_OFFLINE=true
export CARGO_TARGET_DIR="$CRATE/target"
. "$(dirname "$0")/lib.sh"
# per shard: CPU seconds (the limit that is meant to fire on a looping workload) and the wall-clock last resort
if [ "$TIER" = "thorough" ]; then SHARDS=16; PER=16; CPU_S=3600; WALL_S=28800; else SHARDS=8; PER=4; CPU_S=1500; WALL_S=12000; fi
LOGDIR="$OUT/miri-vm-logs"; mkdir -p "$LOGDIR"
emit() { # stage evaluations violations_json inconclusive_json observed_json
python3 - "$OUT/miri-vm.json" "$@" <<'PY'
import json,sys
out,ev,viol,inc,obs=sys.argv[1:6]
json.dump({"stage":"miri-vm","evaluations":int(ev),"violations":json.loads(viol),"inconclusive":json.loads(inc),"observed":json.loads(obs),"samples":[]},open(out,"w"))
PY
}
cd "$CRATE" || { emit 0 '[]' '["vmiri-vm crate missing"]' '{}'; exit 0; }
[ -f Cargo.lock ] || cp "$HARNESS/Cargo.lock" Cargo.lock
# build once (both borrow models share the build)
if ! MIRIFLAGS="-Zmiri-disable-isolation" cargo +nightly miri run --offline -- 0 0 >"$LOGDIR/build.log" 2>&1; then
  if grep -q "Undefined Behavior" "$LOGDIR/build.log"; then :; else
    emit 0 '[]' "[\"miri build/run failed: $(tail -1 "$LOGDIR/build.log" | tr -d '\"\\' | cut -c1-160)\"]" '{}'; exit 0
  fi
fi
run_shard() { # model shard
  local model="$1" k="$2" flags="-Zmiri-disable-isolation"
  [ "$model" = "tree" ] && flags="$flags -Zmiri-tree-borrows"
  MIRIFLAGS="$flags" budget "$CPU_S" "$WALL_S" cargo +nightly miri run --offline -- $((k*PER)) "$PER" >"$LOGDIR/$model-$k.log" 2>&1
  echo "exit=$?" >>"$LOGDIR/$model-$k.log"
}
export -f run_shard budget; export PER LOGDIR CRATE CPU_S WALL_S
# cargo serialises on the target-dir lock only while checking freshness; runs proceed in parallel
for model in stacked tree; do
  for k in $(seq 0 $((SHARDS-1))); do echo "$model $k"; done
done | xargs -P 16 -L 1 bash -c 'run_shard $0 $1'
python3 - "$OUT/miri-vm.json" "$LOGDIR" "$SHARDS" "$PER" <<'PY'
import json,sys,glob,re,os
out,logdir,shards,per=sys.argv[1],sys.argv[2],int(sys.argv[3]),int(sys.argv[4])
viol=[];inc=[];obs={"programs_stacked_borrows":0,"programs_tree_borrows":0,"runs_ok":0,"runs_err":0,"shards":0}
for f in sorted(glob.glob(os.path.join(logdir,"*-*.log"))):
    name=os.path.basename(f); model=name.split("-")[0]
    if model not in("stacked","tree"): continue
    t=open(f,errors="replace").read()
    obs["shards"]+=1
    m=re.search(r"VMIRI first=(\d+) count=(\d+) ok=(\d+) err=(\d+) mismatches=(\d+)",t)
    if "Undefined Behavior" in t or "error: unsupported operation" in t and "Undefined" in t:
        first=[l for l in t.splitlines() if l.startswith("error")][:1]
        where=[l.strip() for l in t.splitlines() if "/repo/crates" in l or "crates/" in l][:3]
        viol.append({"signature":"miri-undefined-behaviour:"+(first[0][:80] if first else "?"),"detail":{"model":model,"log":name,"first":first,"where":where}})
    elif m:
        obs["programs_stacked_borrows" if model=="stacked" else "programs_tree_borrows"]+=int(m.group(2))
        obs["runs_ok"]+=int(m.group(3)); obs["runs_err"]+=int(m.group(4))
        if int(m.group(5))>0:
            viol.append({"signature":"miri-vm-output-mismatch","detail":{"model":model,"lines":[l for l in t.splitlines() if l.startswith("MISMATCH")][:3]}})
    else:
        tail=t.strip().splitlines()[-3:]
        inc.append(f"{name}: no result line ({' | '.join(tail)[:200]})")
ev=obs["programs_stacked_borrows"]+obs["programs_tree_borrows"]
if not viol and not inc and ev<shards*per: inc.append(f"only {ev} programs ran under Miri")
json.dump({"stage":"miri-vm","evaluations":ev,"violations":viol,"inconclusive":inc,"observed":obs,"samples":[{"what":"vmiri-vm programs first..first+count per shard under -Zmiri-disable-isolation [+ -Zmiri-tree-borrows]","shards":shards,"per_shard":per}]},open(out,"w"))
PY
# coverage-guided stage (thorough tier only): TeX source chosen by libFuzzer, decided by the monitor's own oracle
"$(dirname "$0")/fuzz.sh" "$TIER" "$OUT" c09_tex_source 1024
exit 0
