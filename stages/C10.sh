#!/bin/bash
# Extra stage for C10 (thorough tier only): libFuzzer + ASan on both conversion directions.
#   stages/C10.sh <tier> <outdir>      writes <outdir>/fuzz.json in the format runner.rs merges
# The targets (harness/c10/fuzz) call the monitor's own oracle (c10::fuzz): panics at the sites of
# listed open findings are swallowed so that exploration continues past them; an unlisted panic or a
# rejected PL->TFM output writes a witness file and aborts. Only those witnesses become violations -
# libFuzzer's own exit code, timeouts and OOMs are counters, never verdicts (wall-clock dependent).
# If the nightly toolchain / cargo-fuzz cannot build the targets the stage records
# `unavailable = 1` and contributes nothing (the generated workloads of the monitor do not depend
# on it).
set -u
TIER="${1:-quick}"; OUT="${2:-/tmp}"
[ "$TIER" = "thorough" ] || exit 0
ROOT="${VERIF_ROOT:-/verif}"
HARNESS="${VERIF_HARNESS:-$ROOT/harness}"
REPO="${VERIF_REPO:-/repo}"
SEED="${VERIF_SEED:-0}"
SECS="${C10_FUZZ_SECONDS:-240}"
FORKS="${C10_FUZZ_FORKS:-8}"
TGT="${CARGO_TARGET_DIR:-$HARNESS/target}/c10-fuzz"
WORK="$(mktemp -d /tmp/c10-fuzz-XXXXXX)"
trap 'rm -rf "$WORK"' EXIT
mkdir -p "$WORK/corpus-tfm" "$WORK/corpus-pl" "$WORK/art" "$WORK/findings"

emit() { # emit <unavailable> <note>
python3 - "$OUT/fuzz.json" "$WORK" "$1" "$2" <<'PY'
import json, sys, glob, re, os
out, work, unavailable, note = sys.argv[1], sys.argv[2], int(sys.argv[3]), sys.argv[4]
obs = {"unavailable": unavailable}
evals = 0
for name in ("tfm_bytes", "pl_text"):
    log = os.path.join(work, name + ".log")
    execs = cov = crashes = ooms = timeouts = 0
    if os.path.exists(log):
        for line in open(log, errors="replace"):
            m = re.match(r"#(\d+)[:\s].*?cov: (\d+)", line)
            if m:
                execs = max(execs, int(m.group(1))); cov = max(cov, int(m.group(2)))
            m = re.search(r"oom/timeout/crash: (\d+)/(\d+)/(\d+)", line)
            if m:
                ooms, timeouts, crashes = int(m.group(1)), int(m.group(2)), int(m.group(3))
    obs[name + "_execs"] = execs; obs[name + "_coverage_edges"] = cov
    obs[name + "_aborts_ignored"] = crashes; obs[name + "_timeouts"] = timeouts; obs[name + "_ooms"] = ooms
    evals += execs
viol = []
for f in sorted(glob.glob(os.path.join(work, "findings", "finding-*.json"))):
    try:
        v = json.load(open(f))
        viol.append({"signature": v.get("signature", "?"), "detail": v.get("detail")})
    except Exception as e:
        viol.append({"signature": "unreadable-finding-file", "detail": str(e)})
obs["unlisted_findings"] = len(viol)
doc = {"stage": "fuzz", "evaluations": evals, "observed": obs, "violations": viol, "inconclusive": [],
       "samples": [{"note": note}] if note else []}
json.dump(doc, open(out, "w"), indent=1)
PY
}

if ! (cd "$HARNESS/c10/fuzz" && CARGO_TARGET_DIR="$TGT" cargo +nightly fuzz build --fuzz-dir . ) >"$WORK/build.log" 2>&1; then
  tail -5 "$WORK/build.log"
  emit 1 "cargo +nightly fuzz build failed: $(tail -1 "$WORK/build.log" | tr -d '"')"
  exit 0
fi
BIN="$TGT/x86_64-unknown-linux-gnu/release"
find "$REPO/crates/tfm/corpus" -name '*.tfm' -size -16k -exec cp {} "$WORK/corpus-tfm/" \;
find "$REPO/crates/tfm/corpus" -name '*.plst' -size -48k -exec cp {} "$WORK/corpus-pl/" \;

export C10_FUZZ_FINDINGS="$WORK/findings" VERIF_ROOT="$ROOT"
( "$BIN/tfm_bytes" "$WORK/corpus-tfm" -fork="$FORKS" -ignore_crashes=1 -ignore_timeouts=1 -ignore_ooms=1 \
    -max_total_time="$SECS" -max_len=8192 -timeout=60 -rss_limit_mb=4096 -seed="$SEED" \
    -artifact_prefix="$WORK/art/" >"$WORK/tfm_bytes.log" 2>&1 ) &
( "$BIN/pl_text" "$WORK/corpus-pl" -fork="$FORKS" -ignore_crashes=1 -ignore_timeouts=1 -ignore_ooms=1 \
    -max_total_time="$SECS" -max_len=16384 -timeout=60 -rss_limit_mb=4096 -seed="$SEED" -only_ascii=0 \
    -artifact_prefix="$WORK/art/" >"$WORK/pl_text.log" 2>&1 ) &
wait
emit 0 "libFuzzer -fork=$FORKS x 2 targets for ${SECS}s, seed $SEED"
exit 0
