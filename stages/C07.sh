#!/bin/bash
# Extra stage for C07 (thorough tier only): coverage-guided TeX source run under both \expandafter implementations, which
# must agree on output, error and recorded macro expansions. See fuzz.sh.
exec "$(dirname "$0")/fuzz.sh" "${1:-quick}" "${2:-/tmp}" c07_expandafter_source 512
