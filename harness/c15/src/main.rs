fn main() {
    vcore::run_main(&c15::MONITOR)
}
