//! Monitor for property C15 — `HBox::pack` yields TeX's box dimensions and glue setting
//! (DESIGN.md §6 C15; TeX: The Program §649–667).
//!
//! Observed event: the fields of the `ds::HBox` returned by the real
//! `boxworks::ds::HBox::pack(font_repo, list, Exact|Additional)`.
//!
//! Oracle: `vmodels::hpack` (own transcription of §649–667 with the four-element
//! total_stretch/total_shrink arrays). Compared: width, height, depth (shifted boxes), the glue set
//! as an exact rational in absolute value (`HBox` has no glue_sign field and the repository's own
//! `GlueRatio` equality/printing ignores the sign, so the direction is taken from the sign of the
//! excess exactly as TeX does), its printed form (§186), the glue order whenever the ratio is
//! non-zero, plus a model-free conservation check ("the stretched/shrunk contents fill the box").
//!
//! Known finding C15-dominating-order-only is attributed by trigger predicate + deviation model
//! (`vmodels::hpack::hpack_dominating_order_only`).

use boxworks::ds;
use common::{GlueOrder, Scaled};
use std::rc::Rc;
use vcore::*;
use vmodels::hpack as model;
use vmodels::hpack::{Item, Packed, Sign, Target};

pub struct M;
pub static MONITOR: M = M;

const PT: i32 = 65536;
const KNOWN_DOM: &str = "C15-dominating-order-only";
const KNOWN_SWAP: &str = "C15-box-rule-width-height-swapped";

// ------------------------------------------------------------------------------------------
// synthetic font repository: dimensions are a pure function of (char, font)

struct SynthFont;

fn synth_dims(c: char, font: u32) -> Option<[i32; 3]> {
    if !c.is_ascii_lowercase() && !c.is_ascii_uppercase() && c != '-' {
        return None;
    }
    let k = (c as u32).wrapping_mul(2654435761).wrapping_add(font.wrapping_mul(40503));
    // widths 0 .. 12pt in steps that are not multiples of a point; some exactly 0
    let w = match k % 11 {
        0 => 0,
        r => (r as i32) * PT + ((k >> 8) % 4096) as i32,
    };
    let h = (((k >> 4) % 9) as i32) * (PT / 2) + ((k >> 12) % 1000) as i32;
    let d = match (k >> 7) % 4 {
        0 => 0,
        r => (r as i32) * (PT / 3),
    };
    // sparse metrics: the character exists (it has a width) but the repository has no height and/or depth for it;
    // `FontRepo::width_height_depth` takes those as zero
    let (no_h, no_d) = synth_missing(k);
    Some([w, if no_h { 0 } else { h }, if no_d { 0 } else { d }])
}

fn synth_missing(k: u32) -> (bool, bool) {
    match (k >> 20) % 16 {
        0 => (true, false),
        1 => (false, true),
        2 => (true, true),
        _ => (false, false),
    }
}

fn synth_key(c: char, font: u32) -> u32 {
    (c as u32).wrapping_mul(2654435761).wrapping_add(font.wrapping_mul(40503))
}

impl boxworks::FontRepo for SynthFont {
    fn width(&self, c: char, font: u32) -> Option<Scaled> {
        synth_dims(c, font).map(|d| Scaled(d[0]))
    }
    fn height(&self, c: char, font: u32) -> Option<Scaled> {
        if synth_missing(synth_key(c, font)).0 {
            return None;
        }
        synth_dims(c, font).map(|d| Scaled(d[1]))
    }
    fn depth(&self, c: char, font: u32) -> Option<Scaled> {
        if synth_missing(synth_key(c, font)).1 {
            return None;
        }
        synth_dims(c, font).map(|d| Scaled(d[2]))
    }
}

// ------------------------------------------------------------------------------------------
// conversion ds::Horizontal -> model item

fn ord_of(o: GlueOrder) -> usize {
    match o {
        GlueOrder::Normal => 0,
        GlueOrder::Fil => 1,
        GlueOrder::Fill => 2,
        GlueOrder::Filll => 3,
    }
}

fn order_from(o: usize) -> GlueOrder {
    match o {
        0 => GlueOrder::Normal,
        1 => GlueOrder::Fil,
        2 => GlueOrder::Fill,
        _ => GlueOrder::Filll,
    }
}

/// A box/rule item as TeX reads it (§653), or - with `swapped` - as the code reads it today
/// (known finding C15-box-rule-width-height-swapped: the array built for HBox/VBox/Rule is
/// `[height - shift, width, depth + shift]` but is destructured as `[w, h, d]`).
fn boxy(w: i32, h: i32, d: i32, shift: i32, swapped: bool) -> Item {
    if swapped {
        Item::Boxy {
            w: (h as i64 - shift as i64).clamp(i32::MIN as i64, i32::MAX as i64) as i32,
            h: w,
            d: (d as i64 + shift as i64).clamp(i32::MIN as i64, i32::MAX as i64) as i32,
            shift: 0,
        }
    } else {
        Item::Boxy { w, h, d, shift }
    }
}

/// None = the node kind is outside the property's quantifier (todo!() in the code).
fn convert(list: &[ds::Horizontal], swapped: bool) -> Option<Vec<Item>> {
    let mut out = Vec::with_capacity(list.len());
    for e in list {
        use ds::Horizontal as H;
        out.push(match e {
            H::Char(ds::Char { char, font }) | H::Ligature(ds::Ligature { char, font, .. }) => {
                let d = synth_dims(*char, *font)?;
                Item::Boxy { w: d[0], h: d[1], d: d[2], shift: 0 }
            }
            H::HBox(b) => boxy(b.width.0, b.height.0, b.depth.0, b.shift_amount.0, swapped),
            H::VBox(b) => boxy(b.width.0, b.height.0, b.depth.0, b.shift_amount.0, swapped),
            H::Rule(r) => boxy(r.width.0, r.height.0, r.depth.0, 0, swapped),
            H::Glue(g) => Item::Glue {
                w: g.value.width.0,
                stretch: g.value.stretch.0,
                stretch_order: ord_of(g.value.stretch_order),
                shrink: g.value.shrink.0,
                shrink_order: ord_of(g.value.shrink_order),
            },
            H::Kern(k) => Item::Kern { w: k.width.0 },
            H::Penalty(_) | H::Discretionary(_) => Item::Inert,
            H::Mark(_) | H::Insertion(_) | H::Adjust(_) | H::Math(_) | H::Whatsit(_) => return None,
        });
    }
    Some(out)
}

/// Trigger predicate of C15-box-rule-width-height-swapped: some box or rule has
/// height - shift != width (then, and only then, the swap is observable).
fn swap_trigger(list: &[ds::Horizontal]) -> bool {
    list.iter().any(|e| match e {
        ds::Horizontal::HBox(b) => b.height.0 as i64 - b.shift_amount.0 as i64 != b.width.0 as i64,
        ds::Horizontal::VBox(b) => b.height.0 as i64 - b.shift_amount.0 as i64 != b.width.0 as i64,
        ds::Horizontal::Rule(r) => r.height != r.width,
        _ => false,
    })
}

/// With 32-bit overflow checks on, does accumulating these item widths in list order, then forming
/// width and excess, leave the i32 range? (Only reachable through the swap deviation, where a
/// running rule height of -2^31 is added to the natural width.)
fn i32_overflow_predicted(items: &[Item], target: Target) -> bool {
    let mut nat: i32 = 0;
    for it in items {
        let w = match *it {
            Item::Boxy { w, .. } | Item::Glue { w, .. } | Item::Kern { w } => w,
            Item::Inert => 0,
        };
        match nat.checked_add(w) {
            Some(v) => nat = v,
            None => return true,
        }
    }
    let width = match target {
        Target::Exactly(w) => w,
        Target::Additional(a) => match nat.checked_add(a) {
            Some(v) => v,
            None => return true,
        },
    };
    match width.checked_sub(nat) {
        Some(x) => x == i32::MIN,
        None => true,
    }
}

// ------------------------------------------------------------------------------------------
// generators

fn glue(w: i32, st: i32, so: usize, sh: i32, ho: usize) -> ds::Horizontal {
    ds::Horizontal::Glue(ds::Glue {
        value: common::Glue {
            width: Scaled(w),
            stretch: Scaled(st),
            stretch_order: order_from(so),
            shrink: Scaled(sh),
            shrink_order: order_from(ho),
        },
        kind: ds::GlueKind::Normal,
    })
}

fn ch(c: char, font: u32) -> ds::Horizontal {
    ds::Horizontal::Char(ds::Char { char: c, font })
}

/// Amounts chosen from a small palette so that totals of one order cancel often.
fn amount(rng: &mut Rng) -> i32 {
    match rng.below(16) {
        0..=2 => 0,
        3 | 4 => PT,
        5 | 6 => -PT,
        7 => 2 * PT,
        8 => -2 * PT,
        9 => 1,
        10 => -1,
        11 => 3 * PT + 1,
        12 => rng.range_i32(-5 * PT, 5 * PT),
        13 => rng.range_i32(0, 40 * PT),
        14 => rng.range_i32(0, 3),
        _ => rng.range_i32(-(1 << 24), 1 << 24),
    }
}

fn small_dim(rng: &mut Rng) -> i32 {
    match rng.below(8) {
        0 => 0,
        1 => rng.range_i32(-3 * PT, 0),
        2 => rng.range_i32(-(1 << 22), 1 << 22),
        _ => rng.range_i32(0, 12 * PT),
    }
}

fn rand_char(rng: &mut Rng) -> char {
    (b'a' + rng.below(26) as u8) as char
}

fn rand_disc_elems(rng: &mut Rng) -> Vec<ds::DiscretionaryElem> {
    (0..rng.below(3))
        .map(|_| match rng.below(3) {
            0 => ds::DiscretionaryElem::Kern(ds::Kern { width: Scaled(small_dim(rng)), kind: ds::KernKind::Normal }),
            _ => ds::DiscretionaryElem::Char(ds::Char { char: rand_char(rng), font: rng.below(3) as u32 }),
        })
        .collect()
}

fn rand_hbox(rng: &mut Rng, depth: u32) -> ds::HBox {
    let inner = if depth < 2 && rng.chance(1, 3) {
        (0..rng.below(3)).map(|_| rand_item(rng, depth + 1)).collect()
    } else {
        vec![]
    };
    ds::HBox {
        height: Scaled(small_dim(rng)),
        width: Scaled(small_dim(rng)),
        depth: Scaled(small_dim(rng)),
        shift_amount: Scaled(match rng.below(4) {
            0 => 0,
            _ => rng.range_i32(-6 * PT, 6 * PT),
        }),
        list: inner,
        glue_ratio: ds::GlueRatio { num: Scaled(rng.range_i32(0, 3)), den: Scaled(1) },
        glue_order: order_from(rng.usize_below(4)),
    }
}

fn rand_item(rng: &mut Rng, depth: u32) -> ds::Horizontal {
    use ds::Horizontal as H;
    match rng.weighted(&[22, 5, 8, 6, 8, 3, 4, 4, 40]) {
        0 => ch(rand_char(rng), rng.below(3) as u32),
        1 => H::Ligature(ds::Ligature {
            char: rand_char(rng),
            font: rng.below(3) as u32,
            original_chars: Rc::from("fi"),
            includes_left_boundary: rng.chance(1, 8),
            includes_right_boundary: rng.chance(1, 8),
        }),
        2 => H::Kern(ds::Kern {
            width: Scaled(small_dim(rng)),
            kind: *rng.pick(&[ds::KernKind::Normal, ds::KernKind::Explicit, ds::KernKind::Accent, ds::KernKind::Math]),
        }),
        3 => {
            let running = rng.chance(1, 4);
            H::Rule(ds::Rule {
                height: if running && rng.coin() { ds::Rule::RUNNING } else { Scaled(small_dim(rng)) },
                width: Scaled(small_dim(rng)),
                depth: if running && rng.coin() { ds::Rule::RUNNING } else { Scaled(small_dim(rng)) },
            })
        }
        4 => H::HBox(rand_hbox(rng, depth)),
        5 => H::VBox(ds::VBox {
            height: Scaled(small_dim(rng)),
            width: Scaled(small_dim(rng)),
            depth: Scaled(small_dim(rng)),
            shift_amount: Scaled(rng.range_i32(-4 * PT, 4 * PT)),
            list: vec![],
            glue_ratio: Default::default(),
            glue_order: GlueOrder::Normal,
        }),
        6 => H::Penalty(ds::Penalty(rng.range_i32(-10000, 10000))),
        7 => H::Discretionary(ds::Discretionary {
            pre_break: rand_disc_elems(rng),
            post_break: rand_disc_elems(rng),
            replace_count: 0,
        }),
        _ => {
            // glue: orders biased so that a higher order is frequently present with zero total
            let so = rng.weighted(&[5, 3, 2, 1]);
            let ho = rng.weighted(&[6, 2, 1, 1]);
            glue(small_dim(rng), amount(rng), so, amount(rng), ho)
        }
    }
}

fn rand_list(rng: &mut Rng) -> Vec<ds::Horizontal> {
    let n = match rng.below(10) {
        0 => rng.usize_below(2),
        1..=6 => rng.range_usize(1, 8),
        7 | 8 => rng.range_usize(4, 16),
        _ => rng.range_usize(10, 40),
    };
    // Half of the lists carry no boxes/rules at all: while the width/height swap (known finding) is
    // present, only such lists are compared with the unmodified TeX model.
    let boxes = rng.coin();
    (0..n)
        .map(|_| loop {
            let it = rand_item(rng, 0);
            if boxes || !matches!(it, ds::Horizontal::HBox(_) | ds::Horizontal::VBox(_) | ds::Horizontal::Rule(_)) {
                break it;
            }
        })
        .collect()
}

/// Targets at natural ± {0, 1sp, shrink, shrink+1sp, stretch, ...}.
fn rand_target(rng: &mut Rng, items: &[Item]) -> (ds::PackWidth, Target) {
    let t = model::totals(items);
    let hs = |a: &[i64; 4]| -> i64 {
        for o in (0..4).rev() {
            if a[o] != 0 {
                return a[o];
            }
        }
        0
    };
    let sh = hs(&t.total_shrink);
    let st = hs(&t.total_stretch);
    let fin_sh = t.total_shrink[0];
    let delta: i64 = match rng.below(20) {
        0 | 1 => 0,
        2 => 1,
        3 => -1,
        4 => -sh,
        5 => -sh - 1,
        6 => -sh + 1,
        7 => -fin_sh,
        8 => -fin_sh - 1,
        9 => -fin_sh + 1,
        10 => st,
        11 => st / 2,
        12 => -sh / 2,
        13 => rng.range_i64(-(20 * PT as i64), 0),
        14 => rng.range_i64(0, 20 * PT as i64),
        15 => rng.range_i64(-(1 << 26), 1 << 26),
        16 => -(fin_sh.abs()) - rng.range_i64(0, 3),
        17 => rng.range_i64(-3, 3),
        18 => 20001 * st.abs().min(1 << 10),
        _ => rng.range_i64(-(5 * PT as i64), 5 * PT as i64),
    };
    let delta = delta.clamp(-(1 << 28), 1 << 28) as i32;
    if rng.coin() {
        (ds::PackWidth::Additional(Scaled(delta)), Target::Additional(delta))
    } else {
        let w = (t.natural + delta as i64).clamp(-(1 << 30), 1 << 30) as i32;
        (ds::PackWidth::Exact(Scaled(w)), Target::Exactly(w))
    }
}

// ------------------------------------------------------------------------------------------
// the check

/// Local counters (flushed once per case index; `Obs::count` costs a map lookup).
#[derive(Default)]
struct Tally(std::collections::BTreeMap<&'static str, u64>);
impl Tally {
    fn hit(&mut self, k: &'static str) {
        *self.0.entry(k).or_insert(0) += 1;
    }
    fn flush(self, obs: &mut Obs) {
        for (k, v) in self.0 {
            obs.add(k, v);
        }
    }
}

const ORDER_NAMES: [&str; 4] = ["normal", "fil", "fill", "filll"];

fn describe(list: &[ds::Horizontal]) -> Vec<String> {
    list.iter()
        .map(|e| {
            use ds::Horizontal as H;
            match e {
                H::Char(c) => format!("char {:?} font {}", c.char, c.font),
                H::Ligature(l) => format!("lig {:?} font {}", l.char, l.font),
                H::HBox(b) => format!("hbox w={} h={} d={} shift={}", b.width.0, b.height.0, b.depth.0, b.shift_amount.0),
                H::VBox(b) => format!("vbox w={} h={} d={} shift={}", b.width.0, b.height.0, b.depth.0, b.shift_amount.0),
                H::Rule(r) => format!("rule w={} h={} d={}", r.width.0, r.height.0, r.depth.0),
                H::Glue(g) => format!(
                    "glue w={} plus {}{} minus {}{}",
                    g.value.width.0,
                    g.value.stretch.0,
                    ORDER_NAMES[ord_of(g.value.stretch_order)],
                    g.value.shrink.0,
                    ORDER_NAMES[ord_of(g.value.shrink_order)]
                ),
                H::Kern(k) => format!("kern {}", k.width.0),
                H::Penalty(p) => format!("penalty {}", p.0),
                H::Discretionary(_) => "discretionary".to_string(),
                _ => "other".to_string(),
            }
        })
        .collect()
}

fn packed_json(p: &Packed) -> Value {
    json!({
        "width": p.width, "height": p.height, "depth": p.depth, "natural": p.natural, "excess": p.excess,
        "total_stretch": p.total_stretch, "total_shrink": p.total_shrink,
        "sign": format!("{:?}", p.sign), "order": ORDER_NAMES[p.order],
        "glue_set": format!("{}/{}", p.set_num, p.set_den), "overfull": p.overfull,
    })
}

/// First field in which the observed box differs from what `m` predicts (None = full match).
/// Order is compared only when the ratio is non-zero (DESIGN G).
fn first_difference(got: &ds::HBox, m: &Packed) -> Option<&'static str> {
    if got.width.0 as i64 != m.width {
        return Some("width-differs-from-tex");
    }
    if got.height.0 as i64 != m.height {
        return Some("height-differs-from-tex");
    }
    if got.depth.0 as i64 != m.depth {
        return Some("depth-differs-from-tex");
    }
    let (mn, md) = m.abs_ratio();
    let gn = (got.glue_ratio.num.0 as i64).abs();
    let gd = (got.glue_ratio.den.0 as i64).abs();
    if gd == 0 {
        return Some("glue-ratio-with-zero-denominator");
    }
    if (gn as i128) * (md as i128) != (mn as i128) * (gd as i128) {
        return Some(if m.overfull {
            "overfull-box-not-set-to-ratio-one"
        } else if mn == 0 {
            "glue-set-although-tex-leaves-it-unset"
        } else if gn == 0 {
            "glue-unset-although-tex-sets-it"
        } else {
            "glue-ratio-differs-from-tex"
        });
    }
    if mn != 0 && ord_of(got.glue_order) != m.order {
        return Some("glue-order-differs-from-tex");
    }
    // An unset box: TeX §657 (x=0), §658/§664 (no usable glue: then o is `normal`, because o is the highest order with
    // a non-zero total) always leaves glue_order normal.
    if mn == 0 && ord_of(got.glue_order) != 0 {
        return Some("unset-box-has-a-glue-order");
    }
    None
}

/// Model-free conservation check, directly on the ds nodes: if the glue is set (ratio != 0) and the
/// box is not overfull, then |ratio| * |sum of the amounts of order `glue_order` in the direction of the
/// excess| = |excess| exactly.
fn fills_exactly(list: &[ds::Horizontal], got: &ds::HBox, natural: i64) -> Option<bool> {
    let x = got.width.0 as i64 - natural;
    let gn = (got.glue_ratio.num.0 as i64).abs();
    let gd = (got.glue_ratio.den.0 as i64).abs();
    if gn == 0 || x == 0 {
        return None;
    }
    let mut total: i64 = 0;
    for e in list {
        if let ds::Horizontal::Glue(g) = e {
            if x > 0 && g.value.stretch_order == got.glue_order {
                total += g.value.stretch.0 as i64;
            }
            if x < 0 && g.value.shrink_order == got.glue_order {
                total += g.value.shrink.0 as i64;
            }
        }
    }
    Some((gn as i128) * (total.abs() as i128) == (x.abs() as i128) * (gd as i128))
}

/// vcore finds the repo frame of a panic from the backtrace; when the panicking repo function was
/// inlined into the monitor (e.g. `Scaled::add_assign` inside `HBox::pack` inside our closure) no
/// frame carries a /repo path although the panic *location* is a repo file. Work-around (vcore is
/// not ours to edit): take file and function from the location.
fn locate_inlined_repo_panic(mut p: PanicInfo) -> PanicInfo {
    if !p.budget && !p.in_harness && p.repo_file.is_empty() {
        let root = repo_dir();
        if let Ok(rel) = std::path::Path::new(&p.file).strip_prefix(&root) {
            p.repo_file = rel.display().to_string();
            p.repo_function = "(inlined)".to_string();
        }
    }
    p
}

struct Case {
    list: Vec<ds::Horizontal>,
    pack: ds::PackWidth,
    target: Target,
    /// false for enumerated phases, whose cases are distinct by construction (counted without hashing)
    hash: bool,
}

fn dom_trigger(m: &Packed) -> bool {
    (m.excess > 0 && m.max_order_present_stretch > m.order) || (m.excess < 0 && m.max_order_present_shrink > m.order)
}

fn check_case(case: Case, obs: &mut Obs, tally: &mut Tally, in_known_phase: bool) {
    let Case { list, pack, target, hash } = case;
    let Some(items) = convert(&list, false) else {
        obs.skip("node kind outside quantifier");
        return;
    };
    let m = model::hpack(&items, target);
    let input = list.clone();
    let swap_trig = swap_trigger(&input);
    let got = match catch(|| ds::HBox::pack(&SynthFont, list, pack)) {
        Ok(b) => b,
        Err(p) => {
            let p = locate_inlined_repo_panic(p);
            let d = json!({"list": describe(&input), "target": format!("{target:?}")});
            let swapped = convert(&input, true).unwrap_or_default();
            if p.in_repo() && swap_trig && i32_overflow_predicted(&swapped, target) && !i32_overflow_predicted(&items, target) {
                // the swap deviation model predicts exactly this: a (running) rule height ends up
                // in the natural width and the 32-bit sum overflows
                obs.known(KNOWN_SWAP, json!({"panic": p.signature(), "case": d}));
                tally.hit("known:swap(panic-on-running-rule)");
            } else {
                obs.repo_panic(&p, d);
            }
            return;
        }
    };
    tally.hit("packs");

    // classes observed (by TeX's reading of the case)
    match m.sign {
        Sign::Normal => {
            if m.excess == 0 {
                tally.hit("class:exact-natural-width");
            } else if m.excess > 0 {
                tally.hit("class:unset-nothing-to-stretch");
            } else if m.overfull {
                tally.hit("class:overfull-no-shrink-at-all");
            } else {
                tally.hit("class:unset-nothing-to-shrink");
            }
        }
        Sign::Stretching => tally.hit(["class:stretch-normal", "class:stretch-fil", "class:stretch-fill", "class:stretch-filll"][m.order]),
        Sign::Shrinking => {
            if m.overfull {
                tally.hit("class:overfull-ratio-one");
            } else {
                tally.hit(["class:shrink-normal", "class:shrink-fil", "class:shrink-fill", "class:shrink-filll"][m.order]);
            }
        }
    }
    if m.excess < 0 && m.order == 0 && m.total_shrink[0] == -m.excess && m.total_shrink[0] != 0 {
        tally.hit("boundary:shrink-exactly-used-up");
    }
    if m.excess < 0 && m.order == 0 && m.total_shrink[0] + 1 == -m.excess {
        tally.hit("boundary:overfull-by-1sp");
    }
    if m.sign != Sign::Normal && m.set_den < 0 {
        tally.hit("class:negative-total-sets-glue");
    }
    if dom_trigger(&m) {
        tally.hit("class:higher-order-present-with-zero-total");
    }
    if swap_trig {
        tally.hit("class:has-box-or-rule-with-width!=height-shift");
    }
    if items.iter().any(|i| matches!(i, Item::Boxy { shift, .. } if *shift != 0)) {
        tally.hit("class:has-shifted-box");
    }

    let detail = |what: &str, got: &ds::HBox, m: &Packed, extra: Value| -> Value {
        json!({
            "what": what,
            "list": describe(&input),
            "target": format!("{target:?}"),
            "observed": {
                "width": got.width.0, "height": got.height.0, "depth": got.depth.0,
                "shift_amount": got.shift_amount.0,
                "glue_ratio": format!("{}/{}", got.glue_ratio.num.0, got.glue_ratio.den.0),
                "glue_ratio_printed": format!("{}", got.glue_ratio),
                "glue_order": ORDER_NAMES[ord_of(got.glue_order)],
            },
            "tex_model": packed_json(m),
            "extra": extra,
        })
    };

    if got.shift_amount.0 != 0 {
        obs.violation("fresh-box-has-shift", detail("shift_amount", &got, &m, Value::Null));
        return;
    }
    if got.list != input {
        obs.violation("list-altered-by-pack", detail("list", &got, &m, Value::Null));
        return;
    }

    // The observed box must equal TeX's. If it does not, it may only equal the prediction of a
    // deviation model whose trigger predicate holds (known findings); anything else is a violation.
    let matched: Packed;
    match first_difference(&got, &m) {
        None => {
            if in_known_phase {
                tally.hit("known-reproducer-now-matches-tex");
            }
            matched = m.clone();
        }
        Some(sig) => {
            // Every deviation combination whose triggers hold and whose prediction equals the
            // observation. The defects actually present are one of them; only the ids common to all
            // of them are certain, so only those are reported (never blame a defect that may already
            // be fixed for something another one explains as well).
            let mut matching: Vec<(Packed, Vec<&'static str>)> = vec![];
            for (swap, dom) in [(false, true), (true, false), (true, true)] {
                if swap && !swap_trig {
                    continue;
                }
                let its = if swap { convert(&input, true).unwrap_or_default() } else { items.clone() };
                let base = model::hpack(&its, target);
                if dom && !dom_trigger(&base) {
                    continue;
                }
                let dm = if dom { model::hpack_dominating_order_only(&its, target) } else { base };
                if first_difference(&got, &dm).is_none() {
                    let mut ids = vec![];
                    if swap {
                        ids.push(KNOWN_SWAP);
                    }
                    if dom {
                        ids.push(KNOWN_DOM);
                    }
                    matching.push((dm, ids));
                }
            }
            let attributed: Option<(Packed, Vec<&'static str>)> = if matching.is_empty() {
                None
            } else {
                let common: Vec<&'static str> = [KNOWN_SWAP, KNOWN_DOM]
                    .into_iter()
                    .filter(|id| matching.iter().all(|(_, ids)| ids.contains(id)))
                    .collect();
                if common.is_empty() {
                    tally.hit("known:explained-by-either-deviation-alone");
                }
                Some((matching.swap_remove(0).0, common))
            };
            match attributed {
                Some((dm, ids)) => {
                    for id in &ids {
                        obs.known(id, detail("observed box equals the deviation model's prediction", &got, &m, json!({"deviation_model": packed_json(&dm), "deviations": ids})));
                        tally.hit(if *id == KNOWN_SWAP { "known:swap" } else { "known:dominating-order-only" });
                    }
                    matched = dm;
                }
                None => {
                    obs.violation(sig, detail(sig, &got, &m, json!({"swap_trigger": swap_trig, "dominating_order_trigger": dom_trigger(&m)})));
                    return;
                }
            }
        }
    }

    // printed form (§186), through the repository's own Display, with f32 tolerance
    let (n, d) = matched.abs_ratio();
    let want = model::printed_glue_set_exact(n, d);
    let printed = format!("{}", got.glue_ratio);
    match model::parse_scaled(&printed) {
        Some(v) => {
            let tol = 2 + (want >> 21);
            if (v - want).abs() > tol {
                obs.violation(
                    "printed-glue-set-differs",
                    detail("printed glue set", &got, &m, json!({"printed": printed, "want_scaled": want, "want": model::print_scaled(want)})),
                );
                return;
            }
            if want >= 20000 * 65536 {
                tally.hit("printed:capped-at-20000");
            }
        }
        None => {
            obs.violation("printed-glue-set-unparsable", detail("printed glue set", &got, &m, json!({"printed": printed})));
            return;
        }
    }

    // conservation (only meaningful where the box is neither overfull nor unset)
    if !matched.overfull {
        match fills_exactly(&input, &got, matched.natural) {
            Some(true) => tally.hit("conservation:fills-exactly"),
            Some(false) => {
                // the model accepted the setting but the direct computation disagrees: the two
                // formulations are inconsistent, which is a harness problem, not a verdict
                obs.inconclusive("model accepted a glue setting that does not fill the box exactly");
            }
            None => {}
        }
    }

    if hash && items.iter().any(|i| matches!(i, Item::Glue { .. })) {
        obs.nontrivial(&(&items, m.width));
    }
    if obs.wants_sample() {
        obs.sample(detail("sample", &got, &m, Value::Null));
    }
}

// ------------------------------------------------------------------------------------------
// enumerated sub-space: a fixed character followed by k glue nodes from a palette

const ENUM_AMOUNTS: [i32; 3] = [-PT, 0, PT];
const ENUM_DELTAS: [i32; 7] = [-2 * PT - 1, -2 * PT, -PT, -1, 0, 1, PT];
/// 4 orders × 3 amounts for stretch, same for shrink
const ENUM_SPECS: u64 = 12 * 12;

fn enum_glue(code: u64) -> ds::Horizontal {
    let st = code % 12;
    let sh = code / 12;
    glue(
        PT,
        ENUM_AMOUNTS[(st % 3) as usize],
        (st / 3) as usize,
        ENUM_AMOUNTS[(sh % 3) as usize],
        (sh / 3) as usize,
    )
}

fn known_cases() -> Vec<(Vec<ds::Horizontal>, i32)> {
    vec![
        // glue(0pt plus 10pt) next to glue(0pt plus 0fil), box 5pt wider than natural: TeX 0.5
        (vec![ch('a', 0), glue(0, 10 * PT, 0, 0, 0), glue(0, 0, 1, 0, 0)], 5 * PT),
        // 1fil + -1fil cancel next to finite stretch: TeX 0.5
        (vec![ch('a', 0), glue(0, PT, 1, 0, 0), glue(0, 10 * PT, 0, 0, 0), glue(0, -PT, 1, 0, 0)], 5 * PT),
        // same on the shrink side: 0fil shrink hides 10pt of finite shrink, box 5pt narrower
        (vec![ch('a', 0), glue(10 * PT, 0, 0, 10 * PT, 0), glue(0, 0, 0, 0, 1)], -5 * PT),
        // a rule 10pt wide and 2pt high: TeX adds 10pt to the width; the code adds 2pt and takes 10pt as height
        (
            vec![ch('a', 0), ds::Horizontal::Rule(ds::Rule { width: Scaled(10 * PT), height: Scaled(2 * PT), depth: Scaled(PT) })],
            0,
        ),
        // a lowered hbox next to stretchable glue
        (
            vec![
                ds::Horizontal::HBox(ds::HBox {
                    width: Scaled(10 * PT),
                    height: Scaled(3 * PT),
                    depth: Scaled(PT),
                    shift_amount: Scaled(PT),
                    ..Default::default()
                }),
                glue(0, 10 * PT, 0, 0, 0),
            ],
            5 * PT,
        ),
        // a rule with running height after negative glue: the running height (-2^31) is added to the
        // natural width and the 32-bit sum overflows
        (
            vec![
                glue(-PT, 0, 0, 0, 0),
                ds::Horizontal::Rule(ds::Rule { width: Scaled(PT), height: ds::Rule::RUNNING, depth: ds::Rule::RUNNING }),
            ],
            0,
        ),
    ]
}

impl Monitor for M {
    fn id(&self) -> &'static str {
        "C15"
    }
    fn rule(&self) -> String {
        "Each case is a horizontal list (chars, ligatures, kerns of all kinds, rules incl. running height/depth, \
         nested shifted h/vboxes, penalties, discretionaries, glue of all four stretch and shrink orders with \
         positive/zero/negative amounts from a palette that makes totals cancel) and a target (Exact or Additional) \
         placed at natural ± {0, 1sp, shrink, shrink±1sp, stretch, ...}. It is packed by the real HBox::pack with a \
         synthetic FontRepo and compared field by field with vmodels::hpack (TeX §649-667). Phase 'enum' enumerates \
         all lists 'char + k glue nodes' over a palette of 144 glue specs (4 orders x {-1pt,0,1pt} for stretch and \
         for shrink) at 7 targets. A case is non-trivial if the list contains glue; distinct = hash of (model items, width)."
            .into()
    }
    fn assumptions(&self) -> Vec<String> {
        vec![
            "HBox has no glue_sign field; the repository's GlueRatio equality and Display ignore the sign. The monitor compares |ratio| and takes the direction from the sign of the excess, as TeX does.".into(),
            "The printed form goes through f32 in the code; it is compared with the exactly rounded value within a relative tolerance of 2^-21 (+2 units).".into(),
            "Mark/Insertion/Adjust/Math/Whatsit nodes are outside the quantifier (todo!() or undefined width in the code) and are not generated.".into(),
            "All characters used exist in the synthetic font (a missing character is skipped by the code; TeX never creates such a node).".into(),
            "Dimensions are kept below 2^24sp per item and lists below 41 items so that no sum overflows i32 (TeX itself does not guard these sums).".into(),
        ]
    }
    fn phases(&self, tier: Tier) -> Vec<Phase> {
        let mut v = vec![
            Phase::new("known", known_cases().len() as u64).batch(1),
            Phase::new("enum2", ENUM_SPECS * ENUM_SPECS)
                .batch(512)
                .exhaustive("char + 2 glue nodes, each from 144 specs (4 orders x {-1pt,0,1pt} stretch and shrink), x 7 targets"),
        ];
        if tier == Tier::Thorough {
            v.push(
                Phase::new("enum3", ENUM_SPECS * ENUM_SPECS * ENUM_SPECS)
                    .batch(8192)
                    .exhaustive("char + 3 glue nodes, each from 144 specs, x 7 targets"),
            );
        }
        // one index = 32 random lists
        v.push(Phase::new("random", tier.pick(200_000, 12_000_000)).batch(tier.pick(256, 1024)));
        v
    }
    fn floors(&self, tier: Tier) -> Vec<(&'static str, u64)> {
        let s = tier.pick(1, 50);
        vec![
            ("packs", tier.pick(700_000, 80_000_000)),
            ("class:stretch-normal", 2000 * s),
            ("class:stretch-fil", 2000 * s),
            ("class:stretch-fill", 1000 * s),
            ("class:stretch-filll", 500 * s),
            ("class:shrink-normal", 1000 * s),
            ("class:shrink-fil", 1000 * s),
            ("class:shrink-fill", 500 * s),
            ("class:shrink-filll", 500 * s),
            ("class:overfull-ratio-one", 2000 * s),
            ("class:overfull-no-shrink-at-all", 500 * s),
            ("class:unset-nothing-to-stretch", 500 * s),
            ("class:unset-nothing-to-shrink", 200 * s),
            ("class:exact-natural-width", 2000 * s),
            ("class:negative-total-sets-glue", 500 * s),
            ("class:has-shifted-box", 2000 * s),
            ("boundary:shrink-exactly-used-up", 300 * s),
            ("boundary:overfull-by-1sp", 300 * s),
            ("conservation:fills-exactly", 10_000 * s),
            ("printed:capped-at-20000", 20 * s),
        ]
    }
    fn calibrate(&self, obs: &mut Obs) {
        calibrate_impl(obs);
    }
    fn run_case(&self, phase: &str, idx: u64, rng: &mut Rng, obs: &mut Obs) {
        let mut tally = Tally::default();
        match phase {
            "known" => {
                let (list, delta) = known_cases().swap_remove(idx as usize);
                check_case(
                    Case { list, pack: ds::PackWidth::Additional(Scaled(delta)), target: Target::Additional(delta), hash: true },
                    obs,
                    &mut tally,
                    true,
                );
            }
            "enum2" | "enum3" => {
                let k = if phase == "enum2" { 2 } else { 3 };
                let mut list = vec![ch('a', 0)];
                let mut c = idx;
                for _ in 0..k {
                    list.push(enum_glue(c % ENUM_SPECS));
                    c /= ENUM_SPECS;
                }
                for (j, delta) in ENUM_DELTAS.iter().enumerate() {
                    // alternate Exact / Additional
                    let items = convert(&list, false).expect("enum lists are convertible");
                    let nat = model::totals(&items).natural as i32;
                    let (pack, target) = if (idx + j as u64) % 2 == 0 {
                        (ds::PackWidth::Additional(Scaled(*delta)), Target::Additional(*delta))
                    } else {
                        (ds::PackWidth::Exact(Scaled(nat + *delta)), Target::Exactly(nat + *delta))
                    };
                    check_case(Case { list: list.clone(), pack, target, hash: false }, obs, &mut tally, false);
                }
                obs.nontrivial_by_construction(ENUM_DELTAS.len() as u64);
            }
            _ => {
                for _ in 0..32 {
                    let list = rand_list(rng);
                    let Some(items) = convert(&list, false) else { continue };
                    let (pack, target) = rand_target(rng, &items);
                    check_case(Case { list, pack, target, hash: true }, obs, &mut tally, false);
                }
            }
        }
        tally.flush(obs);
    }
    fn stack_bytes(&self) -> usize {
        64 << 20
    }
}

// ------------------------------------------------------------------------------------------
// calibration of the MODEL against TeX-produced ground truth in the repository

/// Metrics of cmr10 read through the repository's tfm crate (input preparation only).
struct Cmr10(tfm::File);

impl Cmr10 {
    fn dims(&self, c: char) -> Option<[i32; 3]> {
        Some([
            self.0.width_utf8(c)?.0,
            self.0.height_utf8(c).map(|s| s.0).unwrap_or(0),
            self.0.depth_utf8(c).map(|s| s.0).unwrap_or(0),
        ])
    }
}

fn convert_with(list: &[ds::Horizontal], font: &Cmr10) -> Option<Vec<Item>> {
    let mut out = vec![];
    for e in list {
        use ds::Horizontal as H;
        out.push(match e {
            H::Char(ds::Char { char, .. }) | H::Ligature(ds::Ligature { char, .. }) => {
                let d = font.dims(*char)?;
                Item::Boxy { w: d[0], h: d[1], d: d[2], shift: 0 }
            }
            H::HBox(b) => Item::Boxy { w: b.width.0, h: b.height.0, d: b.depth.0, shift: b.shift_amount.0 },
            H::VBox(b) => Item::Boxy { w: b.width.0, h: b.height.0, d: b.depth.0, shift: b.shift_amount.0 },
            H::Rule(r) => Item::Boxy { w: r.width.0, h: r.height.0, d: r.depth.0, shift: 0 },
            H::Glue(g) => Item::Glue {
                w: g.value.width.0,
                stretch: g.value.stretch.0,
                stretch_order: ord_of(g.value.stretch_order),
                shrink: g.value.shrink.0,
                shrink_order: ord_of(g.value.shrink_order),
            },
            H::Kern(k) => Item::Kern { w: k.width.0 },
            H::Penalty(_) | H::Discretionary(_) => Item::Inert,
            _ => return None,
        });
    }
    Some(out)
}

fn calibrate_impl(obs: &mut Obs) {
    // (a) arithmetic helpers against values quoted in tex.web / the TeXbook
    for (v, s) in [(65536i64, "1.0"), (0, "0.0"), (32768, "0.5"), (1, "0.00002"), (-98304, "-1.5")] {
        obs.count("cal:print_scaled checks");
        if model::print_scaled(v) != s {
            obs.violation("print_scaled", json!({"v": v, "want": s, "got": model::print_scaled(v)}));
        }
        if v >= 0 && model::parse_scaled(&model::print_scaled(v)) != Some(v) {
            obs.violation("print_scaled-roundtrip", json!({"v": v}));
        }
    }
    for (t, s, b) in [(65536i64, 65536i64, 100), (32768, 65536, 12), (65536, 32768, 800), (0, 0, 0), (5, 0, 10000)] {
        obs.count("cal:badness checks");
        if model::badness(t, s) != b {
            obs.violation("badness", json!({"t": t, "s": s, "want": b, "got": model::badness(t, s)}));
        }
    }

    // (b) every line box in the TeX-produced want-files (boxworks-knuthplass/testdata/*_want.txt and
    // the ragged-right files): TeX packed exactly these contents to exactly this width and printed
    // height, depth, "glue set" and order. The model must reproduce all of them.
    let repo = repo_dir();
    let tfm_bytes = match std::fs::read(repo.join("crates/tfm/corpus/computer-modern/cmr10.tfm")) {
        Ok(b) => b,
        Err(e) => {
            obs.inconclusive(format!("cannot read cmr10.tfm: {e}"));
            return;
        }
    };
    let Ok(file) = tfm::File::deserialize(&tfm_bytes).0 else {
        obs.inconclusive("cmr10.tfm does not deserialize");
        return;
    };
    let font = Cmr10(file);
    let dir = repo.join("crates/boxworks-knuthplass/testdata");
    let mut names: Vec<_> = match std::fs::read_dir(&dir) {
        Ok(rd) => rd
            .filter_map(|e| e.ok())
            .map(|e| e.path())
            .filter(|p| {
                let n = p.file_name().and_then(|n| n.to_str()).unwrap_or("");
                n.ends_with("_want.txt") || n.starts_with("wolf_hall_ragged_right") && !n.ends_with("_log.txt")
            })
            .collect(),
        Err(e) => {
            obs.inconclusive(format!("cannot list {}: {e}", dir.display()));
            return;
        }
    };
    names.sort();
    for path in names {
        let Ok(text) = std::fs::read_to_string(&path) else {
            obs.inconclusive(format!("cannot read {}", path.display()));
            continue;
        };
        let parsed = catch(|| boxworks::lang::parse_horizontal_list(&text).map_err(|e| e.len()));
        let list = match parsed {
            Ok(Ok(l)) => l,
            _ => {
                obs.inconclusive(format!("golden {} does not parse", path.display()));
                continue;
            }
        };
        obs.count("cal:golden files");
        for top in &list {
            let ds::Horizontal::VBox(vb) = top else { continue };
            for v in &vb.list {
                let ds::Vertical::HBox(hb) = v else { continue };
                let Some(items) = convert_with(&hb.list, &font) else {
                    obs.inconclusive(format!("golden {} has an unconvertible line", path.display()));
                    continue;
                };
                obs.count("cal:golden line boxes");
                let m = model::hpack(&items, Target::Exactly(hb.width.0));
                let (n, d) = m.abs_ratio();
                let want_printed = (hb.glue_ratio.num.0 as i64).abs();
                let got_printed = model::printed_glue_set_exact(n, d);
                let ok_ratio = (want_printed - got_printed).abs() <= 1;
                let ok_order = n == 0 || m.order == ord_of(hb.glue_order);
                let ok_dims = m.height == hb.height.0 as i64 && m.depth == hb.depth.0 as i64;
                match (m.sign, m.overfull) {
                    (_, true) => obs.count("cal:golden overfull boxes"),
                    (Sign::Stretching, _) if m.order > 0 => obs.count("cal:golden fil-stretched boxes"),
                    (Sign::Stretching, _) => obs.count("cal:golden stretched boxes"),
                    (Sign::Shrinking, _) => obs.count("cal:golden shrunk boxes"),
                    (Sign::Normal, _) => obs.count("cal:golden unset boxes"),
                }
                if !(ok_ratio && ok_order && ok_dims) {
                    obs.violation(
                        "hpack-model-vs-tex-golden",
                        json!({
                            "file": path.display().to_string(),
                            "golden": {"height": hb.height.0, "depth": hb.depth.0, "width": hb.width.0,
                                       "glue_set_scaled": want_printed, "order": ORDER_NAMES[ord_of(hb.glue_order)]},
                            "model": packed_json(&m), "model_printed_scaled": got_printed,
                        }),
                    );
                }
            }
        }
    }
}
