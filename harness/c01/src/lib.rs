//! Monitor for property C01 - group scoping (DESIGN.md §6 C01).
//!
//! Events: in-language reads `[rK:<text>]` of every tracked target after every `}` and at random
//! points, `\vprobe` snapshots (current font, H2 stack sizes, registers read straight from state).
//! Oracle: two independent formulations that must agree with each other and with the VM:
//!  (A) the declarative rule of the statement (stack of snapshots + "last global value");
//!  (B) TeX's eqtb/save-stack algorithm (eq_define / geq_define / eq_save / unsave, §274-283).
//! Plus the H2 lockstep invariant: all per-group stacks have the model's depth.

use serde_json::json;
use std::collections::HashMap;
use vcore::*;
use vstate::texlang::vm::VM;
use vstate::{Event, VState, VmOptions};

pub struct M;
pub static MONITOR: M = M;

// ------------------------------------------------------------------------------------------
// targets

#[derive(Clone, Copy, Debug, PartialEq, Eq, Hash)]
pub enum Kind {
    Count,
    Dimen,
    Skip,
    Toks,
    Mac,
    CountDef,
    CharDef,
    CatCode,
    EndLineChar,
    GlobalDefs,
    Font,
    MathCode,
    IntParam,
    ToksDef,
    MathCharDef,
    /// `\font\fx=<file>`: the *definition* of a font selector (value = font id allocated)
    FontDef,
}

#[derive(Clone, Copy, Debug, PartialEq, Eq, Hash)]
pub struct Target {
    pub kind: Kind,
    /// register index / name index / character index
    pub n: u8,
}

const MAC_NAMES: [&str; 4] = ["\\ma", "\\mb", "~", "!"];
const COUNTDEF_NAMES: [&str; 2] = ["\\ca", "|"];
const CHARDEF_NAMES: [&str; 2] = ["\\cb", "?"];
const CATCODE_CHARS: [char; 2] = ['Q', 'Z'];
const CATCODE_VALUES: [i64; 6] = [3, 4, 7, 8, 11, 12];
const FONT_NAMES: [&str; 4] = ["\\nullfont", "\\fa", "\\fb", "\\fc"];

fn all_targets() -> Vec<Target> {
    let mut v = vec![];
    for n in 1..=3 {
        v.push(Target { kind: Kind::Count, n });
    }
    for n in 1..=2 {
        v.push(Target { kind: Kind::Dimen, n });
        v.push(Target { kind: Kind::Skip, n });
        v.push(Target { kind: Kind::Toks, n });
    }
    for n in 0..4 {
        v.push(Target { kind: Kind::Mac, n });
    }
    for n in 0..2 {
        v.push(Target { kind: Kind::CountDef, n });
        v.push(Target { kind: Kind::CharDef, n });
        v.push(Target { kind: Kind::CatCode, n });
    }
    v.push(Target { kind: Kind::EndLineChar, n: 0 });
    v.push(Target { kind: Kind::GlobalDefs, n: 0 });
    v.push(Target { kind: Kind::Font, n: 0 });
    v.push(Target { kind: Kind::MathCode, n: 0 });
    v.push(Target { kind: Kind::IntParam, n: 0 });
    v.push(Target { kind: Kind::ToksDef, n: 0 });
    v.push(Target { kind: Kind::MathCharDef, n: 0 });
    v.push(Target { kind: Kind::FontDef, n: 0 });
    v
}

impl Target {
    fn label(&self) -> String {
        match self.kind {
            Kind::Count => format!("\\count{}", self.n),
            Kind::Dimen => format!("\\dimen{}", self.n),
            Kind::Skip => format!("\\skip{}", self.n),
            Kind::Toks => format!("\\toks{}", self.n),
            Kind::Mac => format!("macro {}", MAC_NAMES[self.n as usize]),
            Kind::CountDef => format!("countdef {}", COUNTDEF_NAMES[self.n as usize]),
            Kind::CharDef => format!("chardef {}", CHARDEF_NAMES[self.n as usize]),
            Kind::CatCode => format!("\\catcode`{}", CATCODE_CHARS[self.n as usize]),
            Kind::EndLineChar => "\\endlinechar".into(),
            Kind::GlobalDefs => "\\globaldefs".into(),
            Kind::Font => "current font".into(),
            Kind::MathCode => "\\mathcode`Q".into(),
            Kind::IntParam => "\\year".into(),
            Kind::ToksDef => "toksdef \\tb".into(),
            Kind::MathCharDef => "mathchardef \\mx".into(),
            Kind::FontDef => "font selector \\fx".into(),
        }
    }
    fn class(&self) -> String {
        match self.kind {
            Kind::Mac | Kind::CountDef | Kind::CharDef => {
                let name = match self.kind {
                    Kind::Mac => MAC_NAMES[self.n as usize],
                    Kind::CountDef => COUNTDEF_NAMES[self.n as usize],
                    _ => CHARDEF_NAMES[self.n as usize],
                };
                let who = if name.starts_with('\\') { "cs" } else { "active" };
                format!("{:?}-{}", self.kind, who)
            }
            _ => format!("{:?}", self.kind),
        }
    }
}

// ------------------------------------------------------------------------------------------
// programs

#[derive(Clone, Copy, Debug, PartialEq, Eq, Hash)]
pub enum How {
    /// plain assignment
    Set,
    /// `\advance` (Count only)
    Advance,
    /// `\gdef` (Mac only): global whatever the prefix says
    Gdef,
    /// `\let target = other macro name` (Mac only); the value is the index of the source name
    Let,
    /// assign the value the target currently has (resolved when the program is built): an
    /// assignment that changes nothing must still have its scope effect
    Same,
}

#[derive(Clone, Copy, Debug, PartialEq, Eq, Hash)]
pub enum Op {
    Begin,
    End,
    Assign {
        t: Target,
        v: i64,
        prefix_global: bool,
        how: How,
    },
    /// read every tracked target (in-language) and probe
    ReadAll,
    /// read one target
    Read(Target),
}

fn initial_value(t: Target) -> i64 {
    match t.kind {
        Kind::Count => 100 + t.n as i64,
        Kind::Dimen => 110 + t.n as i64,
        Kind::Skip => 120 + t.n as i64,
        Kind::Toks => 130 + t.n as i64,
        Kind::Mac => 140 + t.n as i64,
        Kind::CountDef => 1 + t.n as i64,
        Kind::CharDef => 65 + t.n as i64,
        Kind::CatCode => 11,
        Kind::EndLineChar => 13,
        Kind::GlobalDefs => 0,
        Kind::Font => 0,
        Kind::MathCode => 0,
        Kind::IntParam => 0,
        Kind::ToksDef => 1,
        Kind::MathCharDef => 7,
        Kind::FontDef => 4, // \fa \fb \fc are fonts 1-3, the preamble's \font\fx is the 4th
    }
}

fn assign_text(t: Target, v: i64, how: How) -> String {
    match (t.kind, how) {
        (Kind::Count, How::Advance) => format!("\\advance\\count{} by {}\\relax ", t.n, v),
        (Kind::Count, _) => format!("\\count{}={}\\relax ", t.n, v),
        (Kind::Dimen, _) => format!("\\dimen{}={}pt\\relax ", t.n, v),
        (Kind::Skip, _) => format!("\\skip{}={}pt plus {}pt\\relax ", t.n, v, v + 1),
        (Kind::Toks, _) => format!("\\toks{}={{{}}}", t.n, v),
        (Kind::Mac, How::Gdef) => format!("\\gdef{}{{{}}}", MAC_NAMES[t.n as usize], v),
        (Kind::Mac, How::Let) => format!(
            "\\let{}={}",
            MAC_NAMES[t.n as usize], MAC_NAMES[v as usize]
        ),
        (Kind::Mac, _) => format!("\\def{}{{{}}}", MAC_NAMES[t.n as usize], v),
        (Kind::CountDef, _) => format!("\\countdef{}={}\\relax ", COUNTDEF_NAMES[t.n as usize], v),
        (Kind::CharDef, _) => format!("\\chardef{}={}\\relax ", CHARDEF_NAMES[t.n as usize], v),
        (Kind::CatCode, _) => format!("\\catcode`\\{}={}\\relax ", CATCODE_CHARS[t.n as usize], v),
        (Kind::EndLineChar, _) => format!("\\endlinechar={}\\relax ", v),
        (Kind::GlobalDefs, _) => format!("\\globaldefs={}\\relax ", v),
        (Kind::Font, _) => format!("{} ", FONT_NAMES[v as usize]),
        (Kind::MathCode, _) => format!("\\mathcode`\\Q={}\\relax ", v),
        (Kind::IntParam, _) => format!("\\year={}\\relax ", v),
        (Kind::ToksDef, _) => format!("\\toksdef\\tb={}\\relax ", v),
        (Kind::MathCharDef, _) => format!("\\mathchardef\\mx={}\\relax ", v),
        // every execution of \font allocates the next font id; the file does not matter
        (Kind::FontDef, _) => format!("\\font\\fx={} ", ["a", "b", "c"][(v % 3) as usize]),
    }
}

fn read_text(t: Target) -> Option<String> {
    Some(match t.kind {
        Kind::Count => format!("\\the\\count{}\\relax ", t.n),
        Kind::Dimen => format!("\\the\\dimen{}\\relax ", t.n),
        Kind::Skip => format!("\\the\\skip{}\\relax ", t.n),
        Kind::Toks => format!("\\the\\toks{}\\relax ", t.n),
        Kind::Mac => MAC_NAMES[t.n as usize].to_string(),
        Kind::CountDef => format!("\\the{}", COUNTDEF_NAMES[t.n as usize]),
        Kind::CharDef => format!("\\the{}", CHARDEF_NAMES[t.n as usize]),
        Kind::CatCode => format!("\\the\\catcode`\\{}\\relax ", CATCODE_CHARS[t.n as usize]),
        Kind::EndLineChar => "\\the\\endlinechar ".to_string(),
        Kind::GlobalDefs => "\\the\\globaldefs ".to_string(),
        Kind::Font | Kind::FontDef => return None, // read through \vprobe only
        Kind::MathCode => "\\the\\mathcode`\\Q\\relax ".to_string(),
        Kind::IntParam => "\\the\\year ".to_string(),
        Kind::ToksDef => "\\the\\tb ".to_string(),
        Kind::MathCharDef => "\\the\\mx ".to_string(),
    })
}

/// Text TeX prints for value `v` of target `t`, given the model's current values (a countdef
/// alias prints the register it points to).
fn expected_text(t: Target, v: i64, cur: &dyn Fn(Target) -> i64) -> String {
    match t.kind {
        Kind::Count | Kind::Toks | Kind::Mac | Kind::CharDef | Kind::CatCode => v.to_string(),
        Kind::EndLineChar | Kind::GlobalDefs => v.to_string(),
        Kind::Dimen => format!("{v}.0pt"),
        Kind::Skip => format!("{v}.0pt plus {}.0pt", v + 1),
        Kind::CountDef => cur(Target {
            kind: Kind::Count,
            n: v as u8,
        })
        .to_string(),
        Kind::Font | Kind::FontDef => v.to_string(),
        Kind::MathCode | Kind::IntParam | Kind::MathCharDef => v.to_string(),
        Kind::ToksDef => cur(Target {
            kind: Kind::Toks,
            n: v as u8,
        })
        .to_string(),
    }
}

const PREAMBLE_FIXED: &str = "\\catcode`\\~=13 \\catcode`\\!=13 \\catcode`\\|=13 \\catcode`\\?=13 \
\\font\\fa=a \\font\\fb=b \\font\\fc=c \\font\\fx=a ";

fn preamble(targets: &[Target]) -> String {
    let mut s = String::from(PREAMBLE_FIXED);
    for t in targets {
        match t.kind {
            Kind::CatCode
            | Kind::EndLineChar
            | Kind::GlobalDefs
            | Kind::Font
            | Kind::MathCode
            | Kind::IntParam
            | Kind::FontDef => {}
            _ => s.push_str(&assign_text(*t, initial_value(*t), How::Set)),
        }
    }
    s
}

// ------------------------------------------------------------------------------------------
// Model A: the declarative rule of the statement

#[derive(Clone)]
struct ModelA {
    cur: HashMap<Target, i64>,
    frames: Vec<(HashMap<Target, i64>, HashMap<Target, i64>)>, // (snapshot, last global value)
}

impl ModelA {
    fn new(targets: &[Target]) -> Self {
        ModelA {
            cur: targets.iter().map(|t| (*t, initial_value(*t))).collect(),
            frames: vec![],
        }
    }
    fn begin(&mut self) {
        self.frames.push((self.cur.clone(), HashMap::new()));
    }
    fn end(&mut self) {
        let (snap, globals) = self.frames.pop().expect("model: no group");
        for (t, v) in snap {
            let nv = globals.get(&t).copied().unwrap_or(v);
            self.cur.insert(t, nv);
        }
    }
    fn assign(&mut self, t: Target, v: i64, global: bool) {
        self.cur.insert(t, v);
        if global {
            for f in &mut self.frames {
                f.1.insert(t, v);
            }
        }
    }
}

// ------------------------------------------------------------------------------------------
// Model B: TeX's eqtb + save stack (§268-283)

#[derive(Clone)]
struct ModelB {
    eqtb: HashMap<Target, (i64, u32)>, // (value, level); level_one = 1
    save: Vec<Option<(Target, i64, u32)>>, // None = level boundary
    cur_level: u32,
}

impl ModelB {
    fn new(targets: &[Target]) -> Self {
        ModelB {
            eqtb: targets
                .iter()
                .map(|t| (*t, (initial_value(*t), 1)))
                .collect(),
            save: vec![],
            cur_level: 1,
        }
    }
    fn begin(&mut self) {
        self.save.push(None);
        self.cur_level += 1;
    }
    // §277 eq_define / §279 geq_define
    fn assign(&mut self, t: Target, v: i64, global: bool) {
        if global {
            self.eqtb.insert(t, (v, 1));
            return;
        }
        let (old, lvl) = self.eqtb[&t];
        if lvl != self.cur_level {
            self.save.push(Some((t, old, lvl))); // eq_save
        }
        self.eqtb.insert(t, (v, self.cur_level));
    }
    // §281 unsave, §283 restore: "if eq_level(p)=level_one then retain else restore"
    fn end(&mut self) {
        while let Some(e) = self.save.pop() {
            match e {
                None => break,
                Some((t, old, lvl)) => {
                    if self.eqtb[&t].1 == 1 {
                        // retain the global value, destroy the saved one
                    } else {
                        self.eqtb.insert(t, (old, lvl));
                    }
                }
            }
        }
        self.cur_level -= 1;
    }
    fn cur(&self, t: Target) -> i64 {
        self.eqtb[&t].0
    }
}

// ------------------------------------------------------------------------------------------
// generation

fn fresh(counter: &mut i64) -> i64 {
    *counter += 1;
    *counter
}

fn gen_value(t: Target, rng: &mut Rng, counter: &mut i64) -> (i64, How) {
    if matches!(
        t.kind,
        Kind::Count | Kind::Dimen | Kind::Skip | Kind::Toks | Kind::IntParam | Kind::MathCode
    ) && rng.chance(1, 6)
    {
        return (0, How::Same);
    }
    match t.kind {
        Kind::Count => {
            if rng.chance(1, 5) {
                (fresh(counter) * 10007, How::Advance)
            } else {
                (fresh(counter), How::Set)
            }
        }
        Kind::Dimen | Kind::Skip | Kind::Toks => (fresh(counter), How::Set),
        Kind::Mac => match rng.below(10) {
            0 | 1 => (fresh(counter), How::Gdef),
            2 | 3 => {
                // \let to another of the macro names
                let mut src = rng.below(4) as i64;
                if src == t.n as i64 {
                    src = (src + 1) % 4;
                }
                (src, How::Let)
            }
            _ => (fresh(counter), How::Set),
        },
        Kind::CountDef => (1 + rng.below(3) as i64, How::Set),
        Kind::CharDef => (1 + (fresh(counter) % 250), How::Set),
        Kind::CatCode => (*rng.pick(&CATCODE_VALUES), How::Set),
        Kind::EndLineChar => (
            match rng.below(4) {
                0 => -1,
                1 => 13,
                _ => 65 + rng.below(26) as i64,
            },
            How::Set,
        ),
        Kind::GlobalDefs => (rng.range_i64(-1, 1), How::Set),
        Kind::Font => (rng.below(4) as i64, How::Set),
        Kind::MathCode => (rng.range_i64(0, 32767), How::Set), // "8000 is legal TeX but rejected by texcraft ([0, 32768)): not C01's subject
        Kind::IntParam => (fresh(counter), How::Set),
        Kind::ToksDef => (1 + rng.below(2) as i64, How::Set),
        Kind::MathCharDef => (fresh(counter) % 32768, How::Set),
        // placeholder: the value (font id) is assigned by the model when it is executed
        Kind::FontDef => (rng.below(3) as i64, How::Set),
    }
}

fn can_prefix_global(t: Target) -> bool {
    // `\global\chardef` is rejected by texcraft with an explicit "cannot be prefixed" error:
    // an unsupported feature, not probed (DESIGN §3.6). \chardef is made global via \globaldefs.
    // (\mathchardef likewise)
    t.kind != Kind::CharDef && t.kind != Kind::MathCharDef
}

fn gen_random_program(rng: &mut Rng, targets: &[Target]) -> Vec<Op> {
    let n_ops = rng.range_usize(10, 80);
    let mut ops = vec![];
    let mut depth = 0usize;
    let mut counter: i64 = 1000;
    // a few "hot" targets get most of the traffic, so that local/global orders collide
    let hot: Vec<Target> = (0..rng.range_usize(1, 4))
        .map(|_| *rng.pick(targets))
        .collect();
    let max_depth = rng.range_usize(1, 8);
    while ops.len() < n_ops {
        match rng.below(100) {
            0..=17 if depth < max_depth => {
                ops.push(Op::Begin);
                depth += 1;
            }
            18..=31 if depth > 0 => {
                ops.push(Op::End);
                ops.push(Op::ReadAll);
                depth -= 1;
            }
            32..=39 => ops.push(Op::ReadAll),
            40..=47 => ops.push(Op::Read(*rng.pick(targets))),
            _ => {
                let t = if rng.chance(3, 4) {
                    *rng.pick(&hot)
                } else {
                    *rng.pick(targets)
                };
                let (v, how) = gen_value(t, rng, &mut counter);
                let prefix_global = can_prefix_global(t) && rng.chance(2, 5);
                ops.push(Op::Assign {
                    t,
                    v,
                    prefix_global,
                    how,
                });
                // biased: follow with the opposite scope on the same target in the same group
                if rng.chance(1, 3) {
                    let (v2, how2) = gen_value(t, rng, &mut counter);
                    ops.push(Op::Assign {
                        t,
                        v: v2,
                        prefix_global: can_prefix_global(t) && !prefix_global,
                        how: how2,
                    });
                }
            }
        }
    }
    ops
}

/// Exhaustive phases: all sequences of length <= L over
/// { {, }, local T1, global T1, local T2, global T2 } for a fixed target pair.
const ENUM_PAIRS: [(Target, Target); 6] = [
    (
        Target { kind: Kind::Count, n: 1 },
        Target { kind: Kind::Mac, n: 2 }, // ~ (active character)
    ),
    (
        Target { kind: Kind::Dimen, n: 1 },
        Target { kind: Kind::Mac, n: 0 }, // \ma
    ),
    (
        Target { kind: Kind::Toks, n: 1 },
        Target { kind: Kind::CountDef, n: 1 }, // | (active character)
    ),
    (
        Target { kind: Kind::CatCode, n: 0 },
        Target { kind: Kind::Font, n: 0 },
    ),
    (
        Target { kind: Kind::Skip, n: 1 },
        Target { kind: Kind::EndLineChar, n: 0 },
    ),
    (
        Target { kind: Kind::CountDef, n: 0 },
        Target { kind: Kind::Count, n: 2 },
    ),
];

fn enum_len(tier: Tier) -> u32 {
    match tier {
        Tier::Quick => 6,
        Tier::Thorough => 8,
    }
}

fn enum_count(len: u32) -> u64 {
    // sequences of length exactly 1..=len over 6 symbols
    (1..=len).map(|l| 6u64.pow(l)).sum()
}

fn decode_enum(mut idx: u64, max_len: u32, pair: (Target, Target)) -> Option<Vec<Op>> {
    let mut len = 1;
    loop {
        let n = 6u64.pow(len);
        if idx < n {
            break;
        }
        idx -= n;
        len += 1;
        if len > max_len {
            return None;
        }
    }
    let mut ops = vec![];
    let mut depth = 0i32;
    let mut counter: i64 = 1000;
    let mut alt = 0u64;
    for _ in 0..len {
        let sym = idx % 6;
        idx /= 6;
        match sym {
            0 => {
                ops.push(Op::Begin);
                depth += 1;
            }
            1 => {
                if depth == 0 {
                    return None; // `}` without a group: not a program of the quantifier
                }
                depth -= 1;
                ops.push(Op::End);
            }
            s => {
                let t = if s < 4 { pair.0 } else { pair.1 };
                let global = s % 2 == 1;
                alt += 1;
                let v = match t.kind {
                    Kind::CountDef => 1 + (alt % 3) as i64,
                    Kind::CatCode => CATCODE_VALUES[(alt % 6) as usize],
                    Kind::Font => 1 + (alt % 3) as i64,
                    Kind::EndLineChar => 65 + (alt % 26) as i64,
                    _ => fresh(&mut counter),
                };
                ops.push(Op::Assign {
                    t,
                    v,
                    prefix_global: global,
                    how: How::Set,
                });
            }
        }
        ops.push(Op::ReadAll);
    }
    Some(ops)
}

// ------------------------------------------------------------------------------------------
// execution + checking

struct Expect {
    id: usize,
    target: Target,
    text: String,
    depth: usize,
}

fn probe_fn(vm: &VM<VState>) -> serde_json::Value {
    let s = vm.verif_snapshot();
    let counts = vm.state.registers_i32.values();
    use vstate::texlang::command::Command;
    use vstate::texlang::token::CommandRef;
    let fx = match vm.cs_name_interner().get("fx") {
        Some(cs) => match vm.commands_map.get_command(&CommandRef::ControlSequence(cs)) {
            Some(Command::Font(f)) => f.0 as i64,
            Some(_) => -2,
            None => -1,
        },
        None => -1,
    };
    json!({
        "fx": fx,
        "font": vm.current_font().0,
        "commands_groups": s.commands_groups,
        "active_char_groups": s.active_char_groups,
        "save_stack_len": s.save_stack_len,
        "save_stack_entries": s.save_stack_entries,
        "font_stack_len": s.font_stack_len,
        "exec_stack_len": s.exec_stack_len,
        "counts": [counts[1], counts[2], counts[3]],
    })
}

struct ProbeExpect {
    depth: usize,
    fx: i64,
    font: i64,
    counts: [i64; 3],
}

pub struct Built {
    pub text: String,
    reads: Vec<Expect>,
    probes: Vec<ProbeExpect>,
    pub models_disagree: Option<String>,
    classes: Vec<String>,
    max_depth: usize,
    /// the program contains a `\gdef` executed while \globaldefs<0
    pub trigger_gdef_neg: bool,
}

/// Deviation models for listed known findings (DESIGN §3.5): the reference model with exactly
/// one rule replaced by what the code does today.
#[derive(Clone, Copy, Default, PartialEq, Eq)]
pub struct Deviation {
    /// C01-gdef-ignores-negative-globaldefs: `\gdef` stays global when \globaldefs<0
    /// (TeX §1218: `if odd(cur_chr) and not global and (global_defs>=0) then a:=a+4`).
    pub gdef_ignores_negative_globaldefs: bool,
}

/// Render the program and run both models alongside.
pub fn build(ops: &[Op], targets: &[Target], dev: Deviation) -> Built {
    let mut a = ModelA::new(targets);
    let mut b = ModelB::new(targets);
    let mut text = preamble(targets);
    let mut reads = vec![];
    let mut probes = vec![];
    let mut disagree = None;
    let mut classes = vec![];
    let mut depth = 0usize;
    let mut max_depth = 0usize;
    let has = |t: Target| targets.contains(&t);
    let mut ops: Vec<Op> = ops.to_vec();
    // close what is open, read everything at the end
    let opens = ops.iter().filter(|o| **o == Op::Begin).count();
    let closes = ops.iter().filter(|o| **o == Op::End).count();
    for _ in closes..opens {
        ops.push(Op::End);
        ops.push(Op::ReadAll);
    }
    ops.push(Op::ReadAll);
    // for "order" classes: what happened to each target in the current group so far
    let mut hist: Vec<HashMap<Target, Vec<bool>>> = vec![HashMap::new()];
    let mut trigger_gdef_neg = false;
    let mut next_font_id: i64 = 5;
    for op in &ops {
        match *op {
            Op::Begin => {
                text.push('{');
                a.begin();
                b.begin();
                depth += 1;
                max_depth = max_depth.max(depth);
                hist.push(HashMap::new());
            }
            Op::End => {
                text.push('}');
                a.end();
                b.end();
                depth -= 1;
                hist.pop();
            }
            Op::Assign {
                t,
                v,
                prefix_global,
                how,
            } => {
                if !has(t) {
                    continue;
                }
                let (v, how) = if how == How::Same {
                    (b.cur(t), How::Set)
                } else {
                    (v, how)
                };
                if prefix_global {
                    text.push_str("\\global");
                }
                text.push_str(&assign_text(t, v, how));
                // effective scope: \globaldefs overrides the prefix (§1211/§1214)
                let gdt = Target {
                    kind: Kind::GlobalDefs,
                    n: 0,
                };
                let gd = if has(gdt) { b.cur(gdt) } else { 0 };
                let mut global = if gd > 0 {
                    true
                } else if gd < 0 {
                    false
                } else {
                    prefix_global
                };
                if how == How::Gdef && gd >= 0 {
                    global = true;
                }
                if how == How::Gdef && gd < 0 {
                    // §1218: \gdef = \global\def, and negative \globaldefs cancels \global
                    global = dev.gdef_ignores_negative_globaldefs;
                    trigger_gdef_neg = true;
                }
                let value = match how {
                    _ if t.kind == Kind::FontDef => {
                        let id = next_font_id;
                        next_font_id += 1;
                        id
                    }
                    How::Advance => b.cur(t).wrapping_add(v),
                    How::Let => b.cur(Target {
                        kind: Kind::Mac,
                        n: v as u8,
                    }),
                    _ => v,
                };
                a.assign(t, value, global);
                b.assign(t, value, global);
                let h = hist.last_mut().unwrap().entry(t).or_default();
                let order = match (h.last(), global) {
                    (Some(false), true) => "local-then-global",
                    (Some(true), false) => "global-then-local",
                    (Some(true), true) => "global-then-global",
                    (Some(false), false) => "local-then-local",
                    (None, true) => "first-global",
                    (None, false) => "first-local",
                };
                h.push(global);
                classes.push(format!(
                    "assign:{}:{}:depth{}:{}",
                    t.class(),
                    if global { "global" } else { "local" },
                    depth.min(3),
                    order
                ));
            }
            Op::ReadAll | Op::Read(_) => {
                let which: Vec<Target> = match *op {
                    Op::Read(t) => vec![t],
                    _ => targets.to_vec(),
                };
                for t in which {
                    if !has(t) {
                        continue;
                    }
                    let va = a.cur[&t];
                    let vb = b.cur(t);
                    if va != vb && disagree.is_none() {
                        disagree = Some(format!(
                            "models disagree on {}: declarative {} vs eqtb {}",
                            t.label(),
                            va,
                            vb
                        ));
                    }
                    if let Some(rt) = read_text(t) {
                        let id = reads.len();
                        text.push_str(&format!("[r{id}:{rt}]"));
                        let bb = &b;
                        reads.push(Expect {
                            id,
                            target: t,
                            text: expected_text(t, vb, &|x| bb.cur(x)),
                            depth,
                        });
                    }
                }
                if matches!(op, Op::ReadAll) {
                    text.push_str("\\vprobe ");
                    let c = |n: u8| {
                        let t = Target { kind: Kind::Count, n };
                        if has(t) {
                            b.cur(t)
                        } else {
                            0
                        }
                    };
                    let ft = Target { kind: Kind::Font, n: 0 };
                    let fxt = Target { kind: Kind::FontDef, n: 0 };
                    probes.push(ProbeExpect {
                        depth,
                        fx: if has(fxt) { b.cur(fxt) } else { 4 },
                        font: if has(ft) { b.cur(ft) } else { 0 },
                        counts: [c(1), c(2), c(3)],
                    });
                }
            }
        }
    }
    Built {
        text,
        reads,
        probes,
        models_disagree: disagree,
        classes,
        max_depth,
        trigger_gdef_neg,
    }
}

/// Parse `[rK:text]` records out of the VM's output.
fn parse_reads(out: &str) -> Result<Vec<(usize, String)>, String> {
    let mut v = vec![];
    let mut rest = out;
    while let Some(pos) = rest.find("[r") {
        let after = &rest[pos + 2..];
        let colon = after.find(':').ok_or("record without ':'")?;
        let id: usize = after[..colon]
            .parse()
            .map_err(|_| format!("bad record id {:?}", &after[..colon]))?;
        let close = after.find(']').ok_or("record without ']'")?;
        v.push((id, after[colon + 1..close].to_string()));
        rest = &after[close + 1..];
    }
    Ok(v)
}

struct Observed {
    outcome: vstate::Outcome,
    out: String,
    events: Vec<Event>,
    probes: Vec<serde_json::Value>,
    final_snap: vstate::texlang::vm::VerifSnapshot,
}

/// Compare what the VM did with what a model run expects. `None` = agreement.
fn compare(built: &Built, o: &Observed) -> Option<(String, serde_json::Value)> {
    if let Some(title) = o.outcome.err_title() {
        return Some((
            format!("unexpected-error:{title}"),
            json!({"error": format!("{:?}", o.outcome)}),
        ));
    }
    let got = match parse_reads(&o.out) {
        Ok(g) => g,
        Err(e) => return Some(("malformed-output".into(), json!({"parse": e}))),
    };
    if got.len() != built.reads.len() {
        return Some((
            "read-count-mismatch".into(),
            json!({"expected": built.reads.len(), "got": got.len()}),
        ));
    }
    for (e, (gid, gtext)) in built.reads.iter().zip(got.iter()) {
        if e.id != *gid {
            return Some((
                "read-order-mismatch".into(),
                json!({"expected_id": e.id, "got_id": gid}),
            ));
        }
        if &e.text != gtext {
            return Some((
                format!("wrong-value:{}", e.target.class()),
                json!({
                    "read": e.id, "target": e.target.label(), "depth": e.depth,
                    "expected": e.text, "got": gtext
                }),
            ));
        }
    }
    // probes: font, registers read straight from state, H2 lockstep
    if o.probes.len() != built.probes.len() {
        return Some((
            "probe-count-mismatch".into(),
            json!({"expected": built.probes.len(), "got": o.probes.len()}),
        ));
    }
    for (i, (e, g)) in built.probes.iter().zip(o.probes.iter()).enumerate() {
        if g["font"].as_i64() != Some(e.font) {
            return Some((
                "wrong-value:Font".into(),
                json!({"probe": i, "depth": e.depth, "expected_font": e.font, "got": g}),
            ));
        }
        if g["fx"].as_i64() != Some(e.fx) {
            return Some((
                "wrong-value:FontDef".into(),
                json!({"probe": i, "depth": e.depth, "expected_font_id_of_fx": e.fx, "got": g}),
            ));
        }
        let gc: Vec<i64> = g["counts"]
            .as_array()
            .map(|a| a.iter().map(|x| x.as_i64().unwrap_or(-1)).collect())
            .unwrap_or_default();
        let want: Vec<i64> = e.counts.to_vec();
        if gc != want {
            return Some((
                "wrong-state:Count".into(),
                json!({"probe": i, "depth": e.depth, "expected": want, "got": gc}),
            ));
        }
        for comp in [
            "commands_groups",
            "active_char_groups",
            "save_stack_len",
            "font_stack_len",
        ] {
            if g[comp].as_u64() != Some(e.depth as u64) {
                return Some((
                    format!("lockstep:{comp}"),
                    json!({"probe": i, "model_depth": e.depth, "got": g}),
                ));
            }
        }
        if g["exec_stack_len"].as_u64() != Some(1) {
            // \vprobe itself is the one executing command
            return Some(("lockstep:exec_stack_len".into(), json!({"probe": i, "got": g})));
        }
    }
    let f = &o.final_snap;
    if f.commands_groups != 0
        || f.active_char_groups != 0
        || f.save_stack_len != 0
        || f.font_stack_len != 0
        || f.exec_stack_len != 0
        || f.shutdown_pending
    {
        return Some((
            "leftover-after-run".into(),
            json!({"snapshot": format!("{f:?}")}),
        ));
    }
    None
}

fn check_program(ops: &[Op], targets: &[Target], obs: &mut Obs, what: &str) {
    let built = build(ops, targets, Deviation::default());
    if let Some(d) = &built.models_disagree {
        obs.inconclusive(format!("reference models disagree: {d}"));
        return;
    }
    let opts = VmOptions::default();
    let text = built.text.clone();
    let r = vcore::catch(move || {
        let mut vm = vstate::new_vm(&opts);
        vm.state.mon.probe_fn = Some(probe_fn);
        let outcome = vstate::run(&mut vm, "c01.tex", &text);
        let out = vstate::take_out(&mut vm);
        let events = vstate::take_events(&mut vm);
        let probes = std::mem::take(&mut vm.state.mon.probes);
        let final_snap = vm.verif_snapshot();
        Observed {
            outcome,
            out,
            events,
            probes,
            final_snap,
        }
    });
    let o = match r {
        Ok(x) => x,
        Err(p) => {
            obs.repo_panic(&p, json!({"program": built.text, "what": what}));
            return;
        }
    };
    obs.count("programs_run");
    obs.add("group_closes", ops.iter().filter(|o| **o == Op::End).count() as u64);
    obs.add(&format!("programs_max_depth_{}", built.max_depth.min(8)), 1);
    for c in &built.classes {
        obs.count(c);
    }
    if let Some((sig, mismatch)) = compare(&built, &o) {
        // Attribute to a listed finding only if its trigger holds AND its deviation model
        // predicts the observation exactly.
        if built.trigger_gdef_neg {
            let dev = Deviation {
                gdef_ignores_negative_globaldefs: true,
            };
            let built_dev = build(ops, targets, dev);
            if built_dev.models_disagree.is_none() {
                match compare(&built_dev, &o) {
                    None => {
                        obs.known(
                            "C01-gdef-ignores-negative-globaldefs",
                            json!({"program": built.text, "output": o.out, "true_model_mismatch": mismatch}),
                        );
                        return;
                    }
                    Some((sig_dev, mismatch_dev)) => {
                        // Neither model explains the run. Report the mismatch that remains
                        // once the listed deviation is accounted for (it explains more of the
                        // run when it fails later than the true model does).
                        let pos = |m: &serde_json::Value| {
                            m["read"].as_u64().unwrap_or(u64::MAX)
                        };
                        if pos(&mismatch_dev) >= pos(&mismatch) {
                            obs.violation(
                                sig_dev,
                                json!({"program": built.text, "what": what, "output": o.out,
                                       "mismatch": mismatch_dev,
                                       "note": "compared against the deviation model of C01-gdef-ignores-negative-globaldefs, whose trigger is present",
                                       "true_model_mismatch": mismatch}),
                            );
                            return;
                        }
                    }
                }
            }
        }
        obs.violation(
            sig,
            json!({"program": built.text, "what": what, "output": o.out, "mismatch": mismatch}),
        );
        return;
    }
    obs.add("reads_checked", built.reads.len() as u64);
    obs.add("probes_checked", built.probes.len() as u64);
    let font_events = o
        .events
        .iter()
        .filter(|e| matches!(e, Event::EnableFont(_)))
        .count();
    obs.add("enable_font_events", font_events as u64);
    obs.nontrivial(&built.text);
    if obs.wants_sample() {
        obs.sample(json!({
            "what": what, "program": built.text, "output": o.out,
            "reads": built.reads.len(), "probes": built.probes.len()
        }));
    }
}

impl Monitor for M {
    fn id(&self) -> &'static str {
        "C01"
    }
    fn rule(&self) -> String {
        "single-line TeX programs over {, }, local/\\global/\\gdef/\\let/\\advance assignments (fresh value per \
         assignment) to 23 tracked targets (3 \\count, 2 \\dimen, 2 \\skip, 2 \\toks, macros \\ma \\mb ~ !, \\countdef \
         aliases \\ca |, \\chardef \\cb ?, \\catcode of Q Z, \\endlinechar, \\globaldefs, current font); every target is \
         read back in-language after every } and at random points, plus \\vprobe state snapshots. enum-*: all op \
         sequences up to the tier's length over 6 symbols for a fixed target pair; random: 10-80 ops at depth <= 8. \
         A case is non-trivial if the program ran and all its reads were compared; distinct = distinct program text."
            .into()
    }
    fn assumptions(&self) -> Vec<String> {
        vec![
            "reference = TeX82 §268-283 (eq_define/geq_define/eq_save/unsave) and, independently, the declarative rule in the property statement; a case where the two disagree is INCONCLUSIVE".into(),
            "\\global\\chardef is rejected by texcraft by design; \\chardef is made global through \\globaldefs only".into(),
            "numbers are terminated by \\relax; programs are one line so \\endlinechar changes only affect the end of the line".into(),
            "font identity observed through VM::current_font() at \\vprobe; H2 snapshot (guarded hook) gives stack sizes only".into(),
        ]
    }
    fn phases(&self, tier: Tier) -> Vec<Phase> {
        let n = enum_count(enum_len(tier));
        let mut v = vec![
            Phase::new("known", 8).batch(1),
        ];
        const NAMES: [&str; 6] = ["enum-0", "enum-1", "enum-2", "enum-3", "enum-4", "enum-5"];
        for name in NAMES.iter() {
            v.push(
                Phase::new(name, n)
                    .batch(512)
                    .exhaustive("all sequences up to the tier's length over { {, }, local T1, global T1, local T2, global T2 } for this target pair, read-all after every op"),
            );
        }
        v.push(Phase::new("random", tier.pick(40_000, 3_000_000)).batch(128));
        v
    }
    fn floors(&self, tier: Tier) -> Vec<(&'static str, u64)> {
        let _ = tier;
        vec![
            ("programs_run", 50_000),
            ("group_closes", 50_000),
            ("reads_checked", 1_000_000),
            ("assign:Count:global:depth2:local-then-global", 50),
            ("assign:Count:local:depth2:global-then-local", 50),
            ("assign:Mac-active:global:depth2:local-then-global", 50),
            ("assign:Mac-active:local:depth1:first-local", 50),
            ("assign:Font:global:depth2:local-then-global", 20),
            ("assign:CatCode:global:depth2:local-then-global", 20),
            ("programs_max_depth_8", 100),
        ]
    }
    fn calibrate(&self, obs: &mut Obs) {
        // The two models must agree on TeXbook-style facts.
        let t = Target { kind: Kind::Count, n: 1 };
        let mut b = ModelB::new(&[t]);
        b.begin();
        b.begin();
        b.assign(t, 2, false);
        b.assign(t, 3, true);
        b.end();
        b.end();
        if b.cur(t) != 3 {
            obs.inconclusive("model B: {{local; global}} must leave the global value");
        }
        let mut a = ModelA::new(&[t]);
        a.begin();
        a.assign(t, 5, true);
        a.assign(t, 6, false);
        a.end();
        if a.cur[&t] != 5 {
            obs.inconclusive("model A: {global; local} must leave the global value");
        }
        obs.count("calibration_checks");
    }
    fn run_case(&self, phase: &str, idx: u64, rng: &mut Rng, obs: &mut Obs) {
        let targets = all_targets();
        if phase == "known" {
            // fixed reproducers of the two defects the property text announces
            let c1 = Target { kind: Kind::Count, n: 1 };
            let tilde = Target { kind: Kind::Mac, n: 2 };
            let progs: Vec<Vec<Op>> = vec![
                vec![
                    Op::Begin,
                    Op::Begin,
                    Op::Assign { t: c1, v: 2, prefix_global: false, how: How::Set },
                    Op::Assign { t: c1, v: 3, prefix_global: true, how: How::Set },
                    Op::End,
                    Op::ReadAll,
                    Op::End,
                    Op::ReadAll,
                ],
                vec![
                    Op::Begin,
                    Op::Assign { t: tilde, v: 7, prefix_global: false, how: How::Set },
                    Op::End,
                    Op::ReadAll,
                ],
                // open finding C01-gdef-ignores-negative-globaldefs
                vec![
                    Op::Assign {
                        t: Target { kind: Kind::GlobalDefs, n: 0 },
                        v: -1,
                        prefix_global: false,
                        how: How::Set,
                    },
                    Op::Begin,
                    Op::Assign {
                        t: Target { kind: Kind::Mac, n: 0 },
                        v: 2,
                        prefix_global: false,
                        how: How::Gdef,
                    },
                    Op::End,
                    Op::ReadAll,
                ],
            ];
            if let Some(p) = progs.get(idx as usize) {
                check_program(p, &targets, obs, "fixed reproducer");
            }
            return;
        }
        if let Some(k) = phase.strip_prefix("enum-") {
            let k: usize = k.parse().unwrap_or(0);
            let pair = ENUM_PAIRS[k];
            // the GlobalDefs target is not in the pair => scope = prefix
            let tset = vec![pair.0, pair.1, Target { kind: Kind::Count, n: 1 }, Target { kind: Kind::Count, n: 2 }, Target { kind: Kind::Count, n: 3 }];
            let mut tset2 = vec![];
            for t in tset {
                if !tset2.contains(&t) {
                    tset2.push(t);
                }
            }
            match decode_enum(idx, enum_len(obs.tier), pair) {
                Some(ops) => check_program(&ops, &tset2, obs, phase),
                None => obs.skip("unbalanced-close"),
            }
            return;
        }
        let ops = gen_random_program(rng, &targets);
        check_program(&ops, &targets, obs, "random");
    }
}
