fn main() {
    vcore::run_main(&c01::MONITOR)
}
