//! Workload generators for C16: operand pools at the width boundaries, single operations,
//! operation sequences (kept inside the 32-bit coordinate range with the help of the model
//! tracker), and hostile byte strings.

use crate::to_tiny;
use dvi::{Op, Var};
use vcore::Rng;
use vmodels::dvipos::{Reg, Tracker};

pub const VARS: [Var; 4] = [Var::W, Var::X, Var::Y, Var::Z];

/// 0, ±1..3 and ±2^k + {-2..2} for k = 7, 15, 23, 31: every place where the signed operand
/// changes width (1, 2, 3, 4 bytes), both signs, and both ends of i32.
pub fn signed_boundaries() -> Vec<i32> {
    let mut v: Vec<i64> = vec![0, 1, -1, 2, -2, 3, -3];
    for k in [7u32, 15, 23, 31] {
        for s in [1i64, -1] {
            for d in -2i64..=2 {
                v.push(s * (1i64 << k) + d);
            }
        }
    }
    let mut v: Vec<i32> = v
        .into_iter()
        .filter(|x| *x >= i32::MIN as i64 && *x <= i32::MAX as i64)
        .map(|x| x as i32)
        .collect();
    v.sort_unstable();
    v.dedup();
    v
}

/// Unsigned operand boundaries: 1/2/3/4-byte forms, the `set_char_127/128` and `fnt_num_63/64`
/// short forms, both ends of u32.
pub fn unsigned_boundaries() -> Vec<u32> {
    let mut v: Vec<i64> = vec![];
    for base in [0i64, 64, 128, 256, 1 << 16, 1 << 24, 1 << 32] {
        for d in -2i64..=2 {
            v.push(base + d);
        }
    }
    v.push(52); // fnt_num_52 has opcode 223, the post_post filler byte
    let mut v: Vec<u32> = v
        .into_iter()
        .filter(|x| *x >= 0 && *x <= u32::MAX as i64)
        .map(|x| x as u32)
        .collect();
    v.sort_unstable();
    v.dedup();
    v
}

/// A valid UTF-8 string of exactly `len` bytes. `style`: 0 ASCII, 1 two-byte, 2 three-byte,
/// 3 four-byte scalars (padded with ASCII), 4 control characters.
pub fn string_of_len(len: usize, style: usize) -> String {
    let unit: char = match style {
        0 => 'a',
        1 => 'é',
        2 => '€',
        3 => '𝄞',
        _ => '\u{0}',
    };
    let mut s = String::new();
    while s.len() + unit.len_utf8() <= len {
        s.push(unit);
    }
    let pads = ['z', '\u{7f}', ' ', '\n'];
    let mut i = 0;
    while s.len() < len {
        s.push(pads[i % pads.len()]);
        i += 1;
    }
    debug_assert_eq!(s.len(), len);
    s
}

pub fn bytes_of_len(len: usize, style: usize) -> Vec<u8> {
    match style {
        0 => vec![0u8; len],
        1 => vec![223u8; len],
        2 => vec![255u8; len],
        _ => (0..len).map(|i| (i * 7 + 3) as u8).collect(),
    }
}

fn bop_with(field: usize, x: i32) -> Op {
    let mut p = [11, -22, 33, -44, 55, -66, 77, -88, 99, -110];
    let mut prev = -1;
    if field < 10 {
        p[field] = x;
    } else {
        prev = x;
    }
    Op::BeginPage {
        parameters: p,
        previous_begin_page: prev,
    }
}

fn fontdef(number: u32, checksum: u32, at_size: u32, design_size: u32, area: String, name: String) -> Op {
    Op::DefineFont {
        number,
        checksum,
        at_size,
        design_size,
        area,
        name,
    }
}

/// Every operation kind with every operand at every boundary value (others held at distinct
/// fixed values). This is the finite sub-space the `boundary` phase enumerates completely.
pub fn boundary_ops() -> Vec<Op> {
    let s = signed_boundaries();
    let u = unsigned_boundaries();
    let mut v: Vec<Op> = vec![Op::NoOp, Op::EndPage, Op::Push, Op::Pop];
    for var in VARS {
        v.push(Op::Move(var));
    }
    for &x in &s {
        v.push(Op::Right(x));
        v.push(Op::Down(x));
        for var in VARS {
            v.push(Op::SetVar(var, x));
        }
        for move_h in [true, false] {
            v.push(Op::TypesetRule {
                height: x,
                width: 7,
                move_h,
            });
            v.push(Op::TypesetRule {
                height: -7,
                width: x,
                move_h,
            });
            v.push(Op::TypesetRule {
                height: x,
                width: x,
                move_h,
            });
        }
        for field in 0..11 {
            v.push(bop_with(field, x));
        }
        v.push(Op::BeginPostamble {
            final_begin_page: x,
            unit_numerator: 1,
            unit_denominator: 2,
            magnification: 3,
            largest_height: 4,
            largest_width: 5,
            max_stack_depth: 6,
            num_pages: 7,
        });
        v.push(Op::EndPostamble {
            postamble: x,
            dvi_format: 2,
            num_223_bytes: 4,
        });
    }
    for &x in &u {
        for move_h in [true, false] {
            v.push(Op::TypesetChar { char: x, move_h });
        }
        v.push(Op::EnableFont(x));
        v.push(fontdef(x, 1, 2, 3, "ar".into(), "nm".into()));
        v.push(fontdef(1, x, 2, 3, "".into(), "nm".into()));
        v.push(fontdef(1, 2, x, 3, "ar".into(), "".into()));
        v.push(fontdef(1, 2, 3, x, "".into(), "".into()));
        for field in 0..3 {
            let mut f = [25400000u32, 473628672, 1000];
            f[field] = x;
            v.push(Op::Preamble {
                dvi_format: 2,
                unit_numerator: f[0],
                unit_denominator: f[1],
                magnification: f[2],
                comment: " TeX output".into(),
            });
        }
        for field in 0..5 {
            let mut f = [1u32, 2, 3, 4, 5];
            f[field] = x;
            v.push(Op::BeginPostamble {
                final_begin_page: 42,
                unit_numerator: f[0],
                unit_denominator: f[1],
                magnification: f[2],
                largest_height: f[3],
                largest_width: f[4],
                max_stack_depth: 6,
                num_pages: 7,
            });
        }
    }
    let lens = [0usize, 1, 2, 127, 128, 254, 255];
    for style in 0..5 {
        for &la in &lens {
            for &ln in &lens {
                v.push(fontdef(
                    300,
                    0xDEADBEEF,
                    655360,
                    655360,
                    string_of_len(la, style),
                    string_of_len(ln, (style + 1) % 5),
                ));
            }
            v.push(Op::Preamble {
                dvi_format: 2,
                unit_numerator: 25400000,
                unit_denominator: 473628672,
                magnification: 1000,
                comment: string_of_len(la, style),
            });
        }
    }
    for fmt in [0u8, 1, 2, 3, 127, 128, 222, 223, 254, 255] {
        v.push(Op::Preamble {
            dvi_format: fmt,
            unit_numerator: 1,
            unit_denominator: 2,
            magnification: 3,
            comment: "x".into(),
        });
        v.push(Op::EndPostamble {
            postamble: 223,
            dvi_format: fmt,
            num_223_bytes: 4,
        });
    }
    for x in [0u16, 1, 2, 127, 128, 255, 256, 32767, 32768, 65534, 65535] {
        for field in 0..2 {
            let mut f = [6u16, 7];
            f[field] = x;
            v.push(Op::BeginPostamble {
                final_begin_page: 42,
                unit_numerator: 1,
                unit_denominator: 2,
                magnification: 3,
                largest_height: 4,
                largest_width: 5,
                max_stack_depth: f[0],
                num_pages: f[1],
            });
        }
    }
    for n in [0usize, 1, 2, 3, 4, 5, 6, 7, 8, 222, 223, 255, 256, 1000] {
        v.push(Op::EndPostamble {
            postamble: -1,
            dvi_format: 2,
            num_223_bytes: n,
        });
    }
    for len in [0usize, 1, 2, 127, 128, 254, 255, 256, 257, 65534, 65535, 65536, 65537] {
        for style in 0..4 {
            v.push(Op::Extension(bytes_of_len(len, style)));
        }
    }
    // the 3-byte / 4-byte length boundary of xxx (16 MiB payloads, once each)
    v.push(Op::Extension(bytes_of_len((1 << 24) - 1, 3)));
    v.push(Op::Extension(bytes_of_len(1 << 24, 3)));
    v
}

/// Canonical byte encoding of a command with opcode `op` (operands chosen so that the
/// serialiser would pick the same opcode again). Used by the `opcodes` phase to reach every
/// one of the 250 defined opcodes from the byte side.
pub fn canonical_bytes(op: u8) -> Vec<u8> {
    let operand = |n: usize, signed: bool| -> Vec<u8> {
        // smallest magnitude that needs exactly n bytes
        match (n, signed) {
            (1, false) => vec![200],
            (2, false) => vec![1, 2],
            (3, false) => vec![1, 2, 3],
            (4, false) => vec![1, 2, 3, 4],
            (1, true) => vec![0x85],             // -123
            (2, true) => vec![0x80, 0x00],       // -32768
            (3, true) => vec![0x80, 0x00, 0x00], // -2^23
            (4, true) => vec![0x80, 0, 0, 0],    // -2^31
            _ => unreachable!(),
        }
    };
    let mut b = vec![op];
    match op {
        0..=127 | 138 | 140..=142 | 147 | 152 | 161 | 166 | 171..=234 => {}
        128..=131 => b.extend(operand((op - 127) as usize, false)),
        133..=136 => b.extend(operand((op - 132) as usize, false)),
        132 | 137 => b.extend([0, 0, 1, 0, 0xff, 0xff, 0xff, 0xfe]),
        139 => {
            for i in 0..11u8 {
                b.extend([i, 0x80, 0, i]);
            }
        }
        143..=146 => b.extend(operand((op - 142) as usize, true)),
        148..=151 => b.extend(operand((op - 147) as usize, true)),
        153..=156 => b.extend(operand((op - 152) as usize, true)),
        157..=160 => b.extend(operand((op - 156) as usize, true)),
        162..=165 => b.extend(operand((op - 161) as usize, true)),
        167..=170 => b.extend(operand((op - 166) as usize, true)),
        235..=238 => b.extend(operand((op - 234) as usize, false)),
        239 => b.extend([3, b'a', 223, 255]),
        240 => {
            b.extend([1, 0]);
            b.extend(bytes_of_len(256, 3));
        }
        241 => {
            b.extend([1, 0, 0]);
            b.extend(bytes_of_len(65536, 3));
        }
        242 => {
            b.extend([1, 0, 0, 0]);
            b.extend(bytes_of_len(1 << 24, 3));
        }
        243..=246 => {
            b.extend(operand((op - 242) as usize, false));
            b.extend([1, 2, 3, 4, 0, 10, 0, 0, 0, 10, 0, 0, 2, 5]);
            b.extend(b"cmcmr10");
        }
        247 => {
            b.extend([2, 1, 0x83, 0x92, 0xc0, 0x1c, 0x3b, 0, 0, 0, 0, 3, 0xe8, 3]);
            b.extend(b"TeX");
        }
        248 => b.extend((0..28).map(|i| i as u8)),
        249 => b.extend([2, 0, 0, 1, 0, 223, 223, 223, 223]),
        250..=255 => {}
    }
    b
}

// ------------------------------------------------------------------------------------------
// random values

pub fn hostile_i32(rng: &mut Rng) -> i32 {
    match rng.below(10) {
        0..=5 => {
            let k = *rng.pick(&[7u32, 15, 23, 31]);
            let s = if rng.coin() { 1i64 } else { -1 };
            let d = rng.range_i64(-2, 2);
            (s * (1i64 << k) + d).clamp(i32::MIN as i64, i32::MAX as i64) as i32
        }
        6 => rng.range_i32(-3, 3),
        7 => rng.range_i32(-70000, 70000),
        8 => {
            // uniform within a random width
            let bits = rng.range_i64(1, 31) as u32;
            let m = 1i64 << bits;
            rng.range_i64(-m, m - 1) as i32
        }
        _ => rng.next_u32() as i32,
    }
}

pub fn hostile_u32(rng: &mut Rng) -> u32 {
    match rng.below(10) {
        0..=4 => {
            let base = *rng.pick(&[0i64, 64, 128, 256, 1 << 16, 1 << 24, 1 << 32]);
            (base + rng.range_i64(-2, 2)).clamp(0, u32::MAX as i64) as u32
        }
        5 => 52,
        6 => rng.below(128) as u32,
        7 => rng.below(70000) as u32,
        _ => rng.next_u32(),
    }
}

/// Random valid UTF-8 of at most 255 bytes, lengths biased to 0/1/254/255.
pub fn hostile_string(rng: &mut Rng) -> String {
    let target = match rng.below(10) {
        0 => 0,
        1 => 1,
        2 => 254,
        3 | 4 => 255,
        5 => rng.range_usize(120, 136),
        _ => rng.range_usize(0, 24),
    };
    let mut s = String::new();
    let mut tries = 0;
    while s.len() < target && tries < 2000 {
        tries += 1;
        let c = match rng.below(8) {
            0..=3 => (b'!' + rng.below(94) as u8) as char,
            4 => *rng.pick(&['\0', '\n', '\u{7f}', ' ', '\u{1b}']),
            5 => char::from_u32(0x80 + rng.below(0x700) as u32).unwrap_or('é'),
            6 => *rng.pick(&['€', '\u{ffff}', '\u{fffd}', '\u{800}', '\u{d7ff}', '\u{e000}']),
            _ => *rng.pick(&['𝄞', '\u{10000}', '\u{10ffff}']),
        };
        if s.len() + c.len_utf8() <= target {
            s.push(c);
        }
    }
    s
}

pub fn hostile_bytes(rng: &mut Rng) -> Vec<u8> {
    let len = match rng.below(16) {
        0 => 0,
        1 => 1,
        2 => 255,
        3 => 256,
        4 => 257,
        5 => 65535,
        6 => 65536,
        _ => rng.range_usize(0, 40),
    };
    let style = rng.below(5);
    (0..len)
        .map(|i| match style {
            0 => 223,
            1 => 255,
            2 => (i % 251) as u8,
            _ => rng.next_u32() as u8,
        })
        .collect()
}

fn pick_var(rng: &mut Rng) -> Var {
    VARS[rng.usize_below(4)]
}

fn reg_of(v: Var) -> Reg {
    match v {
        Var::W => Reg::W,
        Var::X => Reg::X,
        Var::Y => Reg::Y,
        Var::Z => Reg::Z,
    }
}

/// Operations that do not touch coordinates (free of the i32 guard).
pub fn inert_op(rng: &mut Rng) -> Op {
    match rng.below(10) {
        0..=3 => Op::Extension(hostile_bytes(rng)),
        4 | 5 => Op::DefineFont {
            number: hostile_u32(rng),
            checksum: hostile_u32(rng),
            at_size: hostile_u32(rng),
            design_size: hostile_u32(rng),
            area: hostile_string(rng),
            name: hostile_string(rng),
        },
        6 => Op::Preamble {
            dvi_format: *rng.pick(&[2u8, 2, 3, 0, 223, 255]),
            unit_numerator: hostile_u32(rng),
            unit_denominator: hostile_u32(rng),
            magnification: hostile_u32(rng),
            comment: hostile_string(rng),
        },
        7 => Op::BeginPostamble {
            final_begin_page: hostile_i32(rng),
            unit_numerator: hostile_u32(rng),
            unit_denominator: hostile_u32(rng),
            magnification: hostile_u32(rng),
            largest_height: hostile_u32(rng),
            largest_width: hostile_u32(rng),
            max_stack_depth: hostile_u32(rng) as u16,
            num_pages: hostile_u32(rng) as u16,
        },
        8 => Op::EndPostamble {
            postamble: hostile_i32(rng),
            dvi_format: *rng.pick(&[2u8, 2, 3, 0, 223, 255]),
            num_223_bytes: match rng.below(8) {
                0 => 0,
                1 => rng.range_usize(0, 3),
                2 => rng.range_usize(200, 300),
                _ => rng.range_usize(4, 7),
            },
        },
        _ => Op::NoOp,
    }
}

pub fn begin_page(rng: &mut Rng) -> Op {
    let mut p = [0i32; 10];
    for x in p.iter_mut() {
        if rng.chance(1, 3) {
            *x = hostile_i32(rng);
        }
    }
    Op::BeginPage {
        parameters: p,
        previous_begin_page: hostile_i32(rng),
    }
}

#[derive(Clone, Copy, Debug, PartialEq, Eq)]
pub enum Profile {
    /// A well-formed document: preamble, pages with balanced push/pop, postamble.
    Document,
    /// Any operation anywhere: pops on an empty stack, `bop` inside a page with pushes open...
    Messy,
    /// Mostly moves, variables, push/pop, page starts and typeset material.
    Motion,
}

/// Sequence builder that keeps the integer parts of h and v (and therefore everything
/// `dvi::Values` adds up in an `i32`) inside the 32-bit range: wrap-around is unspecified by the
/// property, so the generator never asks for it (DESIGN §6 C16 G).
pub struct SeqGen<'a> {
    pub rng: &'a mut Rng,
    pub t: Tracker,
    pub ops: Vec<Op>,
    /// number of moves whose first candidate had to be replaced to stay in range
    pub clamped: u32,
    /// number of moves that land exactly on an i32 limit
    pub limit_hits: u32,
}

impl<'a> SeqGen<'a> {
    pub fn new(rng: &'a mut Rng) -> Self {
        SeqGen {
            rng,
            t: Tracker::new(),
            ops: vec![],
            clamped: 0,
            limit_hits: 0,
        }
    }

    pub fn push(&mut self, op: Op) {
        self.t.step(&to_tiny(&op));
        self.ops.push(op);
    }

    fn fits(cur: i64, d: i64) -> bool {
        let x = cur + d;
        x >= i32::MIN as i64 && x <= i32::MAX as i64
    }

    /// A displacement for a coordinate currently at `cur` that keeps it in range.
    fn delta(&mut self, cur: i64) -> i32 {
        if self.rng.chance(1, 40) {
            // land exactly on a limit (or as close as one 32-bit operand allows)
            let target = if self.rng.coin() { i32::MAX as i64 } else { i32::MIN as i64 };
            let d = (target - cur).clamp(i32::MIN as i64, i32::MAX as i64);
            if Self::fits(cur, d) {
                if cur + d == target {
                    self.limit_hits += 1;
                }
                return d as i32;
            }
        }
        let d = hostile_i32(self.rng) as i64;
        if Self::fits(cur, d) {
            return d as i32;
        }
        self.clamped += 1;
        if d != i32::MIN as i64 && Self::fits(cur, -d) {
            return (-d) as i32;
        }
        // step back toward the origin
        let m = self.rng.range_i64(0, 1 << 20);
        let d = if cur > 0 { -m } else { m };
        d as i32
    }

    pub fn right(&mut self) {
        let d = self.delta(self.t.h().int);
        self.push(Op::Right(d));
    }

    pub fn down(&mut self) {
        let d = self.delta(self.t.v());
        self.push(Op::Down(d));
    }

    pub fn set_var(&mut self) {
        let var = pick_var(self.rng);
        let cur = match var {
            Var::W | Var::X => self.t.h().int,
            Var::Y | Var::Z => self.t.v(),
        };
        // small non-zero values are the typical use (repeated identical moves)
        let d = if self.rng.chance(1, 3) {
            let d = self.rng.range_i64(-300, 300);
            if Self::fits(cur, d) {
                d as i32
            } else {
                self.delta(cur)
            }
        } else {
            self.delta(cur)
        };
        self.push(Op::SetVar(var, d));
    }

    pub fn move_var(&mut self) {
        let var = pick_var(self.rng);
        let cur = match var {
            Var::W | Var::X => self.t.h().int,
            Var::Y | Var::Z => self.t.v(),
        };
        let d = self.t.reg(reg_of(var));
        if Self::fits(cur, d) {
            self.push(Op::Move(var));
        } else {
            self.clamped += 1;
            let d = self.delta(cur);
            self.push(Op::SetVar(var, d));
        }
    }

    pub fn rule(&mut self) {
        let move_h = self.rng.coin();
        let width = if move_h {
            self.delta(self.t.h().int)
        } else {
            hostile_i32(self.rng)
        };
        let height = hostile_i32(self.rng);
        self.push(Op::TypesetRule {
            height,
            width,
            move_h,
        });
    }

    pub fn character(&mut self) {
        let char = if self.rng.chance(3, 4) {
            self.rng.below(6) as u32 + 65
        } else {
            hostile_u32(self.rng)
        };
        let move_h = self.rng.chance(2, 3);
        self.push(Op::TypesetChar { char, move_h });
    }

    pub fn font(&mut self) {
        let f = if self.rng.chance(2, 3) {
            self.rng.below(4) as u32
        } else {
            hostile_u32(self.rng)
        };
        self.push(Op::EnableFont(f));
    }

    /// One operation of the page body with the weights of a profile.
    pub fn body_op(&mut self, profile: Profile, allow_pop_on_empty: bool) {
        let w: [u32; 12] = match profile {
            //                  chr rule rgt dwn set mov push pop fnt nop inert bop
            Profile::Document => [30, 6, 12, 8, 8, 10, 6, 6, 4, 1, 2, 0],
            Profile::Messy => [12, 5, 6, 6, 8, 8, 7, 9, 4, 2, 8, 3],
            Profile::Motion => [18, 6, 6, 6, 14, 18, 9, 9, 3, 0, 0, 2],
        };
        match self.rng.weighted(&w) {
            0 => self.character(),
            1 => self.rule(),
            2 => self.right(),
            3 => self.down(),
            4 => self.set_var(),
            5 => self.move_var(),
            6 => self.push(Op::Push),
            7 => {
                if self.t.depth() > 0 || allow_pop_on_empty {
                    self.push(Op::Pop)
                } else {
                    self.character()
                }
            }
            8 => self.font(),
            9 => self.push(Op::NoOp),
            10 => {
                let op = inert_op(self.rng);
                let is_post_post = matches!(op, Op::EndPostamble { .. });
                self.push(op);
                // the one place where the byte format is ambiguous: post_post followed by the
                // one-byte command whose opcode equals the 223 filler (fnt_num_52)
                if is_post_post && self.rng.chance(1, 3) {
                    for _ in 0..self.rng.range_usize(1, 3) {
                        self.push(Op::EnableFont(52));
                    }
                }
            }
            _ => {
                let op = begin_page(self.rng);
                self.push(op);
            }
        }
    }
}

/// A sequence of 1..=max_len operations.
pub fn gen_sequence(rng: &mut Rng, profile: Profile, max_len: usize) -> (Vec<Op>, u32, u32) {
    let len = match rng.below(6) {
        0 => rng.range_usize(1, 6),
        1 => rng.range_usize(max_len.saturating_sub(20).max(1), max_len),
        _ => rng.range_usize(1, max_len),
    };
    let mut g = SeqGen::new(rng);
    match profile {
        Profile::Document => {
            g.push(Op::Preamble {
                dvi_format: 2,
                unit_numerator: 25400000,
                unit_denominator: 473628672,
                magnification: 1000,
                comment: " TeX output 2026.09.25:2300".into(),
            });
            let nfonts = g.rng.range_usize(0, 3);
            for f in 0..nfonts {
                let checksum = g.rng.next_u32();
                g.push(Op::DefineFont {
                    number: f as u32,
                    checksum,
                    at_size: 655360,
                    design_size: 655360,
                    area: String::new(),
                    name: format!("cmr{}", 5 + f),
                });
            }
            while g.ops.len() + 3 < len {
                let bop = begin_page(g.rng);
                g.push(bop);
                let body = g.rng.range_usize(0, 40);
                for _ in 0..body {
                    if g.ops.len() + 3 + g.t.depth() >= len {
                        break;
                    }
                    g.body_op(Profile::Document, false);
                }
                // balanced: close what is open
                while g.t.depth() > 0 {
                    g.push(Op::Pop);
                }
                g.push(Op::EndPage);
            }
            let (fbp, lh, lw) = (g.rng.range_i32(-1, 100000), g.rng.next_u32() >> 4, g.rng.next_u32() >> 4);
            let (depth, pages) = (g.t.stats.max_depth as u16, g.t.stats.pages as u16);
            g.push(Op::BeginPostamble {
                final_begin_page: fbp,
                unit_numerator: 25400000,
                unit_denominator: 473628672,
                magnification: 1000,
                largest_height: lh,
                largest_width: lw,
                max_stack_depth: depth,
                num_pages: pages,
            });
            let n223 = g.rng.range_usize(4, 7);
            let pp = g.rng.range_i32(0, 100000);
            g.push(Op::EndPostamble {
                postamble: pp,
                dvi_format: 2,
                num_223_bytes: n223,
            });
        }
        Profile::Messy | Profile::Motion => {
            while g.ops.len() < len {
                g.body_op(profile, true);
            }
        }
    }
    let (c, l) = (g.clamped, g.limit_hits);
    let mut ops = g.ops;
    ops.truncate(200.max(max_len));
    (ops, c, l)
}

// ------------------------------------------------------------------------------------------
// hostile byte strings

pub fn noise(rng: &mut Rng) -> Vec<u8> {
    let len = match rng.below(8) {
        0 => rng.range_usize(0, 3),
        1 => rng.range_usize(200, 600),
        _ => rng.range_usize(0, 64),
    };
    let style = rng.below(4);
    let mut v = Vec::with_capacity(len);
    while v.len() < len {
        match style {
            0 => v.push(rng.next_u32() as u8),
            1 => {
                // opcode-aware: a plausible opcode followed by a few operand bytes
                v.push(128 + rng.below(128) as u8);
                for _ in 0..rng.below(6) {
                    v.push(rng.next_u32() as u8);
                }
            }
            2 => v.push(*rng.pick(&[0u8, 1, 127, 128, 138, 139, 223, 239, 242, 243, 246, 247, 248, 249, 250, 255])),
            _ => {
                // length-prefixed commands with lying lengths
                let op = *rng.pick(&[239u8, 240, 241, 242, 243, 244, 245, 246, 247]);
                v.push(op);
                for _ in 0..rng.range_usize(0, 18) {
                    v.push(*rng.pick(&[0u8, 1, 2, 255, 200, 16]));
                }
            }
        }
    }
    v
}

pub fn mutate(rng: &mut Rng, base: &[u8], other: &[u8]) -> Vec<u8> {
    let mut v = base.to_vec();
    let n = rng.range_usize(1, 4);
    for _ in 0..n {
        match rng.below(9) {
            0 if !v.is_empty() => {
                let i = rng.usize_below(v.len());
                v[i] ^= 1 << rng.below(8);
            }
            1 if !v.is_empty() => {
                let i = rng.usize_below(v.len());
                v[i] = rng.next_u32() as u8;
            }
            2 if !v.is_empty() => {
                let i = rng.usize_below(v.len());
                v[i] = *rng.pick(&[0u8, 255, 223, 249, 250, 139, 247, 243, 239, 240, 241, 242, 128, 131, 146]);
            }
            3 if !v.is_empty() => {
                let i = rng.usize_below(v.len());
                let j = (i + rng.range_usize(1, 8)).min(v.len());
                v.drain(i..j);
            }
            4 => {
                let i = rng.usize_below(v.len() + 1);
                let k = rng.range_usize(1, 6);
                for _ in 0..k {
                    v.insert(i, rng.next_u32() as u8);
                }
            }
            5 if !v.is_empty() => {
                let i = rng.usize_below(v.len());
                let j = (i + rng.range_usize(1, 12)).min(v.len());
                let chunk: Vec<u8> = v[i..j].to_vec();
                let at = rng.usize_below(v.len() + 1);
                for (k, b) in chunk.into_iter().enumerate() {
                    v.insert(at + k, b);
                }
            }
            6 if !v.is_empty() => {
                let i = rng.usize_below(v.len());
                v.truncate(i);
            }
            7 => {
                // splice: head of this one, tail of the other
                let i = rng.usize_below(v.len() + 1);
                let j = rng.usize_below(other.len() + 1);
                v.truncate(i);
                v.extend_from_slice(&other[j..]);
            }
            _ => {
                // cut in the middle of the last command
                if v.len() > 1 {
                    let k = rng.range_usize(1, v.len().min(6));
                    v.truncate(v.len() - k);
                }
            }
        }
    }
    v
}
