//! Monitor for property C16 (see /verif/DESIGN.md §6): DVI encoding round-trips and consumes
//! every byte; deserialising arbitrary bytes never panics; `VarRemover` leaves the page position
//! and font of every typeset character and rule, and every other operation, unchanged.
//!
//! Oracles (all observe executions of the real `dvi` crate):
//!  * round trip `ops -> dvi::serialize -> Op::deserialize loop / dvi::Deserializer -> ops'`,
//!    `ops' == ops` under our own field-by-field comparison, both readers agree, every byte is
//!    consumed, and the byte string splits into commands exactly as the independent framing
//!    model (`vmodels::dvipos::frame`, lengths by opcode from TeX §585-§591) says;
//!  * crash oracle + framing model on random and mutated bytes: the reader returns exactly the
//!    commands the framing model finds and ends `Ok`, `Truncated(op)` or `InvalidOpCode(op)` exactly
//!    where and why the model says; whatever it returned round-trips again;
//!  * `VarRemover`: the independent register machine `vmodels::dvipos::Tracker` replays input
//!    and output; every placed character/rule must have the same page, h (integer + multiset of
//!    unmeasured widths), v and font; the operations other than moves are unchanged; no
//!    `Move`/`SetVar` remains. Also through the `dvitools normalize` pipeline
//!    (bytes -> Deserializer -> VarRemover -> serialize).

mod gen;

use dvi::transforms::VarRemover;
use dvi::{Deserializer, InvalidDviData, Op, Var};
use gen::Profile;
use std::sync::OnceLock;
use vcore::*;
use vmodels::dvipos::{self, FrameEnd, Placed, Reg, TOp, Tracker};

pub struct M;
pub static MONITOR: M = M;

const KF_POSTPOST: &str = "C16-post-post-absorbs-fnt-num-52";

fn reg(v: Var) -> Reg {
    match v {
        Var::W => Reg::W,
        Var::X => Reg::X,
        Var::Y => Reg::Y,
        Var::Z => Reg::Z,
    }
}

/// dvi::Op -> the model's tiny operation.
pub fn to_tiny(op: &Op) -> TOp {
    match op {
        Op::TypesetChar { char, move_h: true } => TOp::SetChar(*char),
        Op::TypesetChar { char, move_h: false } => TOp::PutChar(*char),
        Op::TypesetRule {
            height,
            width,
            move_h: true,
        } => TOp::SetRule {
            height: *height,
            width: *width,
        },
        Op::TypesetRule {
            height,
            width,
            move_h: false,
        } => TOp::PutRule {
            height: *height,
            width: *width,
        },
        Op::NoOp => TOp::Nop,
        Op::BeginPage { .. } => TOp::Bop,
        Op::EndPage => TOp::Eop,
        Op::Push => TOp::Push,
        Op::Pop => TOp::Pop,
        Op::Right(d) => TOp::Right(*d),
        Op::Move(v) => TOp::Move(reg(*v)),
        Op::SetVar(v, d) => TOp::SetReg(reg(*v), *d),
        Op::Down(d) => TOp::Down(*d),
        Op::EnableFont(f) => TOp::Fnt(*f),
        Op::Extension(_)
        | Op::DefineFont { .. }
        | Op::Preamble { .. }
        | Op::BeginPostamble { .. }
        | Op::EndPostamble { .. } => TOp::Inert,
    }
}

/// Field-by-field equality, written out so that the verdict does not depend on the crate's own
/// `PartialEq`.
fn same_op(a: &Op, b: &Op) -> bool {
    use Op::*;
    match (a, b) {
        (
            TypesetChar { char: c1, move_h: m1 },
            TypesetChar { char: c2, move_h: m2 },
        ) => c1 == c2 && m1 == m2,
        (
            TypesetRule {
                height: h1,
                width: w1,
                move_h: m1,
            },
            TypesetRule {
                height: h2,
                width: w2,
                move_h: m2,
            },
        ) => h1 == h2 && w1 == w2 && m1 == m2,
        (NoOp, NoOp) | (EndPage, EndPage) | (Push, Push) | (Pop, Pop) => true,
        (
            BeginPage {
                parameters: p1,
                previous_begin_page: q1,
            },
            BeginPage {
                parameters: p2,
                previous_begin_page: q2,
            },
        ) => p1 == p2 && q1 == q2,
        (Right(x), Right(y)) | (Down(x), Down(y)) => x == y,
        (Move(v1), Move(v2)) => *v1 as u8 == *v2 as u8,
        (SetVar(v1, x), SetVar(v2, y)) => *v1 as u8 == *v2 as u8 && x == y,
        (EnableFont(x), EnableFont(y)) => x == y,
        (Extension(x), Extension(y)) => x == y,
        (
            DefineFont {
                number: n1,
                checksum: c1,
                at_size: a1,
                design_size: d1,
                area: ar1,
                name: nm1,
            },
            DefineFont {
                number: n2,
                checksum: c2,
                at_size: a2,
                design_size: d2,
                area: ar2,
                name: nm2,
            },
        ) => n1 == n2 && c1 == c2 && a1 == a2 && d1 == d2 && ar1 == ar2 && nm1 == nm2,
        (
            Preamble {
                dvi_format: f1,
                unit_numerator: n1,
                unit_denominator: d1,
                magnification: m1,
                comment: c1,
            },
            Preamble {
                dvi_format: f2,
                unit_numerator: n2,
                unit_denominator: d2,
                magnification: m2,
                comment: c2,
            },
        ) => f1 == f2 && n1 == n2 && d1 == d2 && m1 == m2 && c1 == c2,
        (
            BeginPostamble {
                final_begin_page: p1,
                unit_numerator: n1,
                unit_denominator: d1,
                magnification: m1,
                largest_height: h1,
                largest_width: w1,
                max_stack_depth: s1,
                num_pages: t1,
            },
            BeginPostamble {
                final_begin_page: p2,
                unit_numerator: n2,
                unit_denominator: d2,
                magnification: m2,
                largest_height: h2,
                largest_width: w2,
                max_stack_depth: s2,
                num_pages: t2,
            },
        ) => p1 == p2 && n1 == n2 && d1 == d2 && m1 == m2 && h1 == h2 && w1 == w2 && s1 == s2 && t1 == t2,
        (
            EndPostamble {
                postamble: p1,
                dvi_format: f1,
                num_223_bytes: n1,
            },
            EndPostamble {
                postamble: p2,
                dvi_format: f2,
                num_223_bytes: n2,
            },
        ) => p1 == p2 && f1 == f2 && n1 == n2,
        _ => false,
    }
}

fn same_ops(a: &[Op], b: &[Op]) -> bool {
    a.len() == b.len() && a.iter().zip(b).all(|(x, y)| same_op(x, y))
}

fn first_difference(a: &[Op], b: &[Op]) -> Option<usize> {
    let n = a.len().min(b.len());
    for i in 0..n {
        if !same_op(&a[i], &b[i]) {
            return Some(i);
        }
    }
    if a.len() != b.len() {
        Some(n)
    } else {
        None
    }
}

fn short(op: &Op) -> String {
    if let Op::Extension(v) = op {
        if v.len() > 64 {
            return format!("Extension(len={}, head={:?}...)", v.len(), &v[..32]);
        }
    }
    let mut s = format!("{op:?}");
    if s.len() > 300 {
        let mut cut = 300;
        while !s.is_char_boundary(cut) {
            cut -= 1;
        }
        s.truncate(cut);
        s.push_str("...");
    }
    s
}

fn show_ops(ops: &[Op]) -> Value {
    let v: Vec<String> = ops.iter().take(220).map(short).collect();
    json!(v)
}

fn show_bytes(b: &[u8]) -> Value {
    if b.len() <= 600 {
        json!(b)
    } else {
        json!({"len": b.len(), "head": &b[..300], "tail": &b[b.len() - 100..]})
    }
}

/// The one known deviation of the round trip: `post_post` owns every following byte 223, and 223
/// is also the one-byte command `fnt_num_52`. What the reader returns for such a stream today:
fn merge_post_post(ops: &[Op]) -> (Vec<Op>, bool) {
    let mut out: Vec<Op> = vec![];
    let mut triggered = false;
    let mut absorbing = false;
    for op in ops {
        if absorbing {
            if let Op::EnableFont(52) = op {
                if let Some(Op::EndPostamble { num_223_bytes, .. }) = out.last_mut() {
                    *num_223_bytes += 1;
                    triggered = true;
                    continue;
                }
            }
        }
        absorbing = matches!(op, Op::EndPostamble { .. });
        out.push(op.clone());
    }
    (out, triggered)
}

fn strings_fit(ops: &[Op]) -> bool {
    ops.iter().all(|op| match op {
        Op::DefineFont { area, name, .. } => area.len() <= 255 && name.len() <= 255,
        Op::Preamble { comment, .. } => comment.len() <= 255,
        _ => true,
    })
}

struct Decoded {
    ops: Vec<Op>,
    /// bytes consumed by each command
    lens: Vec<usize>,
    end: Result<(), InvalidDviData>,
    residual: usize,
}

/// Read `bytes` with the step API (`Op::deserialize`) and with the iterator (`Deserializer`) and
/// insist that they agree. `None` = a panic or a disagreement was reported.
fn decode(bytes: &[u8], obs: &mut Obs, ctx: &Value) -> Option<Decoded> {
    let mut ops = vec![];
    let mut lens = vec![];
    let mut rest: &[u8] = bytes;
    let end;
    loop {
        match catch(|| Op::deserialize(rest)) {
            Err(p) => {
                obs.repo_panic(&p, json!({"what": "Op::deserialize panicked", "bytes": show_bytes(bytes), "offset": bytes.len() - rest.len(), "context": ctx}));
                return None;
            }
            Ok(Ok(Some((op, tail)))) => {
                if tail.len() >= rest.len() || !rest.ends_with(tail) {
                    obs.violation(
                        "deserialize:no-progress-or-foreign-tail",
                        json!({"bytes": show_bytes(bytes), "offset": bytes.len() - rest.len(), "context": ctx}),
                    );
                    return None;
                }
                lens.push(rest.len() - tail.len());
                ops.push(op);
                rest = tail;
            }
            Ok(Ok(None)) => {
                end = Ok(());
                break;
            }
            Ok(Err(e)) => {
                end = Err(e);
                break;
            }
        }
    }
    let residual = rest.len();
    // the iterator API must tell the same story
    let it = catch(|| {
        let mut result = Ok(());
        let got: Vec<Op> = Deserializer::new(bytes, &mut result).collect();
        (got, result)
    });
    match it {
        Err(p) => {
            obs.repo_panic(&p, json!({"what": "dvi::Deserializer panicked", "bytes": show_bytes(bytes), "context": ctx}));
            return None;
        }
        Ok((got, result)) => {
            if !same_ops(&got, &ops) || result != end {
                obs.violation(
                    "deserialize:iterator-and-step-api-disagree",
                    json!({"bytes": show_bytes(bytes), "step_api": show_ops(&ops), "iterator": show_ops(&got),
                           "step_end": format!("{end:?}"), "iterator_end": format!("{result:?}"), "context": ctx}),
                );
                return None;
            }
        }
    }
    Some(Decoded {
        ops,
        lens,
        end,
        residual,
    })
}

/// Compare what the reader did with the independent framing model.
fn check_framing(bytes: &[u8], d: &Decoded, obs: &mut Obs, ctx: &Value) -> bool {
    let (frames, fend) = dvipos::frame(bytes);
    let model_lens: Vec<usize> = frames.iter().map(|f| f.len).collect();
    let end_ok = match (&d.end, fend) {
        (Ok(()), FrameEnd::Complete) => d.residual == 0,
        (Err(InvalidDviData::Truncated(op)), FrameEnd::Truncated { opcode, at }) => {
            *op == opcode && bytes.len() - d.residual == at
        }
        (Err(InvalidDviData::InvalidOpCode(op)), FrameEnd::Invalid { opcode, at }) => {
            *op == opcode && bytes.len() - d.residual == at
        }
        _ => false,
    };
    if model_lens != d.lens || !end_ok {
        let k = d
            .lens
            .iter()
            .zip(&model_lens)
            .position(|(a, b)| a != b)
            .unwrap_or(d.lens.len().min(model_lens.len()));
        obs.violation(
            format!(
                "deserialize:framing-differs-from-dvi-standard end={}",
                match &d.end {
                    Ok(()) => "ok",
                    Err(InvalidDviData::Truncated(_)) => "truncated",
                    Err(InvalidDviData::InvalidOpCode(_)) => "invalid-opcode",
                }
            ),
            json!({"bytes": show_bytes(bytes), "reader_command_lengths": d.lens.iter().take(300).collect::<Vec<_>>(),
                   "model_command_lengths": model_lens.iter().take(300).collect::<Vec<_>>(), "first_difference_at_command": k,
                   "reader_end": format!("{:?}", d.end), "reader_residual_bytes": d.residual,
                   "model_end": format!("{fend:?}"), "context": ctx}),
        );
        return false;
    }
    true
}

#[derive(Default)]
struct RtOutcome {
    ok: bool,
    known: bool,
    bytes: Vec<u8>,
}

/// ops -> bytes -> ops. Reports violations / known finding; returns the bytes.
fn check_round_trip(ops: &[Op], obs: &mut Obs, ctx: &Value) -> RtOutcome {
    let mut out = RtOutcome::default();
    let bytes = match catch(|| dvi::serialize(ops.to_vec())) {
        Ok(b) => b,
        Err(p) => {
            obs.repo_panic(&p, json!({"what": "dvi::serialize panicked", "ops": show_ops(ops), "context": ctx}));
            return out;
        }
    };
    // Op::serialize appends to a caller's buffer: same bytes, nothing before them touched
    {
        let mut buf = vec![0xAAu8, 0x55];
        let r = catch(|| {
            for op in ops {
                op.serialize(&mut buf);
            }
        });
        if r.is_ok() && (buf[..2] != [0xAA, 0x55] || buf[2..] != bytes[..]) {
            obs.violation(
                "serialize:op-serialize-differs-from-dvi-serialize",
                json!({"ops": show_ops(ops), "context": ctx}),
            );
            return out;
        }
    }
    obs.add("rt_bytes_serialised", bytes.len() as u64);
    let Some(d) = decode(&bytes, obs, ctx) else {
        return out;
    };
    if let Err(e) = &d.end {
        obs.violation(
            format!("roundtrip:own-serialisation-rejected {}", match e {
                InvalidDviData::Truncated(_) => "truncated",
                InvalidDviData::InvalidOpCode(_) => "invalid-opcode",
            }),
            json!({"ops": show_ops(ops), "bytes": show_bytes(&bytes), "error": format!("{e:?}"),
                   "decoded_before_error": d.ops.len(), "unconsumed_bytes": d.residual, "context": ctx}),
        );
        return out;
    }
    if d.residual != 0 {
        obs.violation(
            "roundtrip:bytes-left-unconsumed",
            json!({"ops": show_ops(ops), "bytes": show_bytes(&bytes), "unconsumed_bytes": d.residual, "context": ctx}),
        );
        return out;
    }
    if !check_framing(&bytes, &d, obs, ctx) {
        return out;
    }
    out.bytes = bytes;
    if same_ops(&d.ops, ops) {
        obs.add("rt_ops_round_tripped", ops.len() as u64);
        out.ok = true;
        return out;
    }
    // not equal: the one known deviation, or a violation
    let (merged, triggered) = merge_post_post(ops);
    if triggered && same_ops(&d.ops, &merged) {
        obs.known(
            KF_POSTPOST,
            json!({"ops": show_ops(ops), "bytes": show_bytes(&out.bytes), "decoded": show_ops(&d.ops),
                   "deviation_model": "every fnt_num_52 (one byte, 223) directly after post_post is read as one more 223 filler byte",
                   "context": ctx}),
        );
        out.known = true;
        return out;
    }
    let k = first_difference(ops, &d.ops).unwrap_or(0);
    let kind = |o: Option<&Op>| -> String {
        match o {
            None => "<end>".into(),
            Some(o) => {
                let s = format!("{o:?}");
                s.split(|c: char| !c.is_alphanumeric()).next().unwrap_or("").to_string()
            }
        }
    };
    obs.violation(
        format!("roundtrip:decoded-ops-differ sent={} got={}", kind(ops.get(k)), kind(d.ops.get(k))),
        json!({"first_difference_at_op": k, "sent": ops.get(k).map(short), "got": d.ops.get(k).map(short),
               "ops": show_ops(ops), "bytes": show_bytes(&out.bytes), "decoded": show_ops(&d.ops),
               "post_post_trigger_present": triggered, "context": ctx}),
    );
    out
}

fn is_motion(op: &Op) -> bool {
    matches!(op, Op::Right(_) | Op::Down(_) | Op::Move(_) | Op::SetVar(_, _))
}

fn placed_json(p: &Placed) -> Value {
    json!({"kind": format!("{:?}", p.kind), "page": p.page, "h_int": p.h.int,
           "h_unmeasured_widths": p.h.sym.iter().take(40).map(|(c, f)| json!([c, f])).collect::<Vec<_>>(),
           "v": p.v, "font": p.font, "op_index": p.op_index})
}

/// Width assignment used for the concrete cross-check of the symbolic comparison.
fn concrete_width(salt: u64) -> impl Fn(u32, Option<u32>) -> i64 {
    move |c, f| {
        let h = stable_hash(&(salt, c, f));
        (h % 2_000_001) as i64 - 1_000_000
    }
}

/// Compare two streams through the independent tracker. Returns false if a violation was
/// reported. `what` names the transformation for signatures.
fn check_same_document(input: &[Op], output: &[Op], what: &str, obs: &mut Obs, ctx: &Value) -> bool {
    // no Move / SetVar may remain
    if let Some(k) = output
        .iter()
        .position(|op| matches!(op, Op::Move(_) | Op::SetVar(_, _)))
    {
        obs.violation(
            format!("{what}:variable-op-remains"),
            json!({"input": show_ops(input), "output": show_ops(output), "output_index": k, "context": ctx}),
        );
        return false;
    }
    // every operation other than the moves is unchanged, in order
    let a: Vec<&Op> = input.iter().filter(|o| !is_motion(o)).collect();
    let b: Vec<&Op> = output.iter().filter(|o| !is_motion(o)).collect();
    let same = a.len() == b.len() && a.iter().zip(&b).all(|(x, y)| same_op(x, y));
    if !same {
        let k = a
            .iter()
            .zip(&b)
            .position(|(x, y)| !same_op(x, y))
            .unwrap_or(a.len().min(b.len()));
        obs.violation(
            format!("{what}:other-operation-changed"),
            json!({"input": show_ops(input), "output": show_ops(output),
                   "first_difference_among_non_move_ops": k,
                   "input_op": a.get(k).map(|o| short(o)), "output_op": b.get(k).map(|o| short(o)), "context": ctx}),
        );
        return false;
    }
    let tin: Vec<TOp> = input.iter().map(to_tiny).collect();
    let tout: Vec<TOp> = output.iter().map(to_tiny).collect();
    let (pin, trk_in) = Tracker::run(&tin);
    let (pout, _) = Tracker::run(&tout);
    if pin.len() != pout.len() {
        // cannot happen when the non-move ops are equal; defensive
        obs.inconclusive("tracker produced different numbers of placed elements for equal typeset ops");
        return false;
    }
    let width = concrete_width(obs.idx() ^ 0x9e37);
    for (x, y) in pin.iter().zip(&pout) {
        let same_sym = x.kind == y.kind && x.page == y.page && x.h == y.h && x.v == y.v;
        let same_font = x.font == y.font;
        if !same_sym || !same_font {
            let sig = if !same_font {
                format!("{what}:font-of-typeset-element-changed")
            } else if x.h != y.h && x.v != y.v {
                format!("{what}:position-changed h+v")
            } else if x.h != y.h {
                format!("{what}:position-changed h")
            } else if x.v != y.v {
                format!("{what}:position-changed v")
            } else {
                format!("{what}:typeset-element-changed")
            };
            obs.violation(
                sig,
                json!({"input": show_ops(input), "output": show_ops(output),
                       "in_input": placed_json(x), "in_output": placed_json(y), "context": ctx}),
            );
            return false;
        }
        // second formulation: evaluate both under a concrete width assignment
        if x.h.concrete(&width) != y.h.concrete(&width) {
            obs.inconclusive("symbolic h equal but concrete h differs (model bug)");
            return false;
        }
    }
    obs.add("vr_placed_elements_compared", pin.len() as u64);
    obs.add(
        "vr_placed_with_unmeasured_widths_in_h",
        pin.iter().filter(|p| !p.h.sym.is_empty()).count() as u64,
    );
    obs.add("vr_placed_on_page_2_or_later", pin.iter().filter(|p| p.page >= 2).count() as u64);
    let s = &trk_in.stats;
    obs.add("vr_variable_ops", s.reg_ops as u64);
    obs.add("vr_moves_by_nonzero_variable", s.moves_nonzero as u64);
    obs.add("vr_pops_restoring_a_different_variable_value", s.pops_restoring_regs as u64);
    obs.add("vr_pops_on_empty_stack", s.pops_on_empty as u64);
    obs.add("vr_bops_discarding_open_pushes", s.bops_discarding_stack as u64);
    obs.add("vr_bops_resetting_nonzero_variables", s.bops_resetting_regs as u64);
    obs.add("vr_coordinates_within_2_of_i32_limit", s.near_i32_limit as u64);
    if s.max_depth >= 3 {
        obs.count("vr_cases_stack_depth_ge_3");
    }
    if output.len() == input.len() {
        obs.count("vr_output_same_length_as_input");
    }
    true
}

fn model_in_range(ops: &[Op]) -> bool {
    let t: Vec<TOp> = ops.iter().map(to_tiny).collect();
    let (_, trk) = Tracker::run(&t);
    !trk.stats.left_i32
}

/// VarRemover applied directly to the operations.
fn check_var_remover(ops: &[Op], obs: &mut Obs, ctx: &Value) -> Option<Vec<Op>> {
    if !model_in_range(ops) {
        obs.skip("coordinates-leave-i32");
        return None;
    }
    let out = match catch(|| VarRemover::new(ops.to_vec()).collect::<Vec<Op>>()) {
        Ok(o) => o,
        Err(p) => {
            obs.repo_panic(&p, json!({"what": "VarRemover panicked", "ops": show_ops(ops), "context": ctx}));
            return None;
        }
    };
    obs.count("vr_streams_checked");
    if check_same_document(ops, &out, "varremover", obs, ctx) {
        Some(out)
    } else {
        None
    }
}

/// The `dvitools normalize` pipeline, with library calls only.
fn check_pipeline(ops: &[Op], bytes: &[u8], direct: &[Op], obs: &mut Obs, ctx: &Value) {
    let r = catch(|| {
        let mut result = Ok(());
        let out = {
            let mut i1 = Deserializer::new(bytes, &mut result);
            let i2 = VarRemover::new(&mut i1);
            dvi::serialize(i2)
        };
        (out, result)
    });
    let (out_bytes, result) = match r {
        Ok(x) => x,
        Err(p) => {
            obs.repo_panic(&p, json!({"what": "normalize pipeline panicked", "ops": show_ops(ops), "context": ctx}));
            return;
        }
    };
    if result.is_err() {
        obs.violation(
            "pipeline:own-serialisation-rejected",
            json!({"ops": show_ops(ops), "error": format!("{result:?}"), "context": ctx}),
        );
        return;
    }
    let Some(d) = decode(&out_bytes, obs, ctx) else {
        return;
    };
    if d.end.is_err() || d.residual != 0 {
        obs.violation(
            "pipeline:normalised-bytes-not-readable",
            json!({"ops": show_ops(ops), "normalised_bytes": show_bytes(&out_bytes), "end": format!("{:?}", d.end), "context": ctx}),
        );
        return;
    }
    obs.count("pipeline_runs");
    // must be the same document as the input (tracker) and the same ops as the direct transform
    if !check_same_document(ops, &d.ops, "pipeline", obs, ctx) {
        return;
    }
    if !same_ops(&d.ops, direct) {
        obs.violation(
            "pipeline:differs-from-direct-varremover",
            json!({"ops": show_ops(ops), "direct": show_ops(direct), "through_bytes": show_ops(&d.ops), "context": ctx}),
        );
    }
}

/// Arbitrary bytes through the reader: totality, framing against the independent model, the iterator and step APIs
/// agreeing, and whatever was decoded round-tripping again. Returns the decoded operations when they did.
fn check_bytes(bytes: &[u8], how: &str, obs: &mut Obs) -> Option<Vec<Op>> {
    let ctx = json!({"phase": "bytes", "how": how});
    let mut rt_ok = false;
    obs.add("bytes_total_fed", bytes.len() as u64);
    let Some(d) = decode(bytes, obs, &ctx) else {
        return None;
    };
    obs.count(match &d.end {
        Ok(()) => "bytes_end_ok",
        Err(InvalidDviData::Truncated(_)) => "bytes_end_truncated",
        Err(InvalidDviData::InvalidOpCode(_)) => "bytes_end_invalid_opcode",
    });
    obs.add("bytes_ops_decoded", d.ops.len() as u64);
    if !check_framing(bytes, &d, obs, &ctx) {
        return None;
    }
    // Display of the documented errors must work too
    if let Err(e) = &d.end {
        if let Err(p) = catch(|| format!("{e}")) {
            obs.repo_panic(&p, json!({"what": "Display of InvalidDviData panicked"}));
        }
    }
    // whatever the reader returned is a sequence of operations: it must round-trip, provided
    // its strings are inside the quantifier (lossy UTF-8 decoding can grow them past 255 bytes)
    if !d.ops.is_empty() {
        if strings_fit(&d.ops) {
            let r = check_round_trip(&d.ops, obs, &ctx);
            if r.ok {
                obs.count("bytes_decoded_ops_round_tripped_again");
                rt_ok = true;
            }
        } else {
            obs.skip("decoded-string-longer-than-255-bytes");
        }
    }
    if !d.ops.is_empty() || d.end.is_err() {
        obs.nontrivial(bytes);
    }
    if obs.wants_sample() {
        obs.sample(json!({"how": how, "bytes": show_bytes(bytes), "decoded": show_ops(&d.ops[..d.ops.len().min(12)]),
                          "n_decoded": d.ops.len(), "end": format!("{:?}", d.end), "unconsumed": d.residual}));
    }
    if rt_ok {
        Some(d.ops)
    } else {
        None
    }
}

/// Entry point of the libFuzzer target `c16_dvi_bytes` (harness/vfuzz): the bytes phase's oracle on a fuzzer-chosen
/// input, then - when the decoded operations round-trip - the VarRemover oracle and the normalize pipeline on them.
pub fn fuzz_one(data: &[u8], obs: &mut Obs) {
    let Some(ops) = check_bytes(data, "fuzz", obs) else {
        return;
    };
    let ctx = json!({"phase": "fuzz"});
    if let Some(direct) = check_var_remover(&ops, obs, &ctx) {
        if let Ok(bytes) = catch(|| dvi::serialize(ops.clone())) {
            check_pipeline(&ops, &bytes, &direct, obs, &ctx);
        }
    }
}

/// Seed corpus for the libFuzzer target: every boundary operation alone, and generated sequences of the three profiles.
pub fn fuzz_seeds() -> vcore::fuzzglue::Seeds {
    let mut inputs = vec![];
    for op in boundary_table().iter() {
        if let Ok(b) = catch(|| dvi::serialize(vec![op.clone()])) {
            inputs.push(b);
        }
    }
    for k in 0..300u64 {
        let mut rng = Rng::new(0xC16 + k);
        let profile = match k % 3 {
            0 => Profile::Document,
            1 => Profile::Messy,
            _ => Profile::Motion,
        };
        let (ops, _, _) = gen::gen_sequence(&mut rng, profile, 60);
        if let Ok(b) = catch(|| dvi::serialize(ops)) {
            if b.len() <= 4096 {
                inputs.push(b);
            }
        }
    }
    vcore::fuzzglue::Seeds { inputs, dictionary: vec![] }
}

fn boundary_table() -> &'static Vec<Op> {
    static T: OnceLock<Vec<Op>> = OnceLock::new();
    T.get_or_init(gen::boundary_ops)
}

fn variant_name(op: &Op) -> &'static str {
    match op {
        Op::TypesetChar { move_h: true, .. } => "set_char",
        Op::TypesetChar { move_h: false, .. } => "put_char",
        Op::TypesetRule { move_h: true, .. } => "set_rule",
        Op::TypesetRule { move_h: false, .. } => "put_rule",
        Op::NoOp => "nop",
        Op::BeginPage { .. } => "bop",
        Op::EndPage => "eop",
        Op::Push => "push",
        Op::Pop => "pop",
        Op::Right(_) => "right",
        Op::Move(_) => "move_var",
        Op::SetVar(_, _) => "set_var",
        Op::Down(_) => "down",
        Op::EnableFont(_) => "fnt",
        Op::Extension(_) => "xxx",
        Op::DefineFont { .. } => "fnt_def",
        Op::Preamble { .. } => "pre",
        Op::BeginPostamble { .. } => "post",
        Op::EndPostamble { .. } => "post_post",
    }
}

impl M {
    fn case_boundary(&self, idx: u64, obs: &mut Obs) {
        let table = boundary_table();
        let op = &table[idx as usize];
        let ctx = json!({"phase": "boundary", "op": short(op)});
        // alone
        let r = check_round_trip(std::slice::from_ref(op), obs, &ctx);
        // and between neighbours (a following command must start exactly after it)
        let ctx_ops = vec![Op::Push, op.clone(), Op::TypesetChar { char: 65, move_h: true }, op.clone(), Op::NoOp];
        let r2 = check_round_trip(&ctx_ops, obs, &ctx);
        if r.ok && r2.ok {
            obs.count("boundary_ops_round_tripped");
            obs.count(&format!("boundary_kind:{}", variant_name(op)));
            if let Some(b) = r.bytes.first() {
                // which operand width the serialiser chose
                let (frames, _) = dvipos::frame(&r.bytes);
                if frames.len() == 1 {
                    obs.count(&format!("boundary_encoded_len:{}", frames[0].len.min(10)));
                }
                let _ = b;
            }
        }
        obs.nontrivial_by_construction(1);
        if obs.wants_sample() {
            obs.sample(json!({"op": short(op), "bytes": show_bytes(&r.bytes), "round_tripped": r.ok}));
        }
    }

    fn case_opcode(&self, idx: u64, obs: &mut Obs) {
        let opcode = idx as u8;
        let bytes = gen::canonical_bytes(opcode);
        let ctx = json!({"phase": "opcodes", "opcode": opcode});
        let Some(d) = decode(&bytes, obs, &ctx) else {
            return;
        };
        if !check_framing(&bytes, &d, obs, &ctx) {
            return;
        }
        obs.nontrivial_by_construction(1);
        if opcode >= 250 {
            // undefined opcodes: the documented error, nothing else
            if d.end == Err(InvalidDviData::InvalidOpCode(opcode)) && d.ops.is_empty() {
                obs.count("opcodes_undefined_rejected");
            }
            return;
        }
        if d.end.is_err() || d.ops.len() != 1 {
            obs.violation(
                "opcodes:canonical-command-not-read-as-one-op",
                json!({"opcode": opcode, "bytes": show_bytes(&bytes), "end": format!("{:?}", d.end), "ops": show_ops(&d.ops)}),
            );
            return;
        }
        // the op reached from this opcode must round-trip (ops -> bytes -> ops)
        let r = check_round_trip(&d.ops, obs, &ctx);
        if r.ok {
            obs.count("opcodes_defined_reached_and_round_tripped");
            if r.bytes == bytes {
                obs.count("opcodes_reencoded_to_identical_bytes");
            }
        }
        // every proper prefix is a truncation of this command: documented error, no panic
        let step = (bytes.len() / 64).max(1);
        let mut cut = 1;
        while cut < bytes.len() {
            let pre = &bytes[..cut];
            if let Some(dp) = decode(pre, obs, &ctx) {
                if check_framing(pre, &dp, obs, &ctx) {
                    if let Err(InvalidDviData::Truncated(o)) = dp.end {
                        if o == opcode {
                            obs.count("opcodes_truncations_reported_as_truncated");
                        }
                    }
                }
            }
            cut += if cut < 64 { 1 } else { step };
        }
        if obs.wants_sample() {
            obs.sample(json!({"opcode": opcode, "bytes": show_bytes(&bytes), "op": d.ops.first().map(short)}));
        }
    }

    fn case_seq(&self, rng: &mut Rng, obs: &mut Obs) {
        let profile = match rng.below(10) {
            0..=2 => Profile::Document,
            3..=5 => Profile::Messy,
            _ => Profile::Motion,
        };
        let (ops, clamped, limit_hits) = gen::gen_sequence(rng, profile, 200);
        obs.add("seq_ops_generated", ops.len() as u64);
        obs.add("seq_moves_redirected_to_stay_in_i32", clamped as u64);
        obs.add("seq_moves_landing_exactly_on_i32_limit", limit_hits as u64);
        obs.count(match profile {
            Profile::Document => "seq_profile_document",
            Profile::Messy => "seq_profile_messy",
            Profile::Motion => "seq_profile_motion",
        });
        let ctx = json!({"phase": "seq", "profile": format!("{profile:?}")});
        let rt = check_round_trip(&ops, obs, &ctx);
        let direct = check_var_remover(&ops, obs, &ctx);
        if let (true, Some(direct)) = (rt.ok, &direct) {
            if rng.chance(1, 3) {
                check_pipeline(&ops, &rt.bytes, direct, obs, &ctx);
            }
        }
        // idempotence of the transform is implied by the property (output has no variables)
        if let Some(direct) = &direct {
            if rng.chance(1, 8) {
                if let Ok(again) = catch(|| VarRemover::new(direct.clone()).collect::<Vec<Op>>()) {
                    if !same_ops(&again, direct) {
                        obs.violation(
                            "varremover:changes-a-stream-without-variables",
                            json!({"input": show_ops(direct), "output": show_ops(&again)}),
                        );
                    }
                }
            }
        }
        let has_var = ops.iter().any(|o| matches!(o, Op::Move(_) | Op::SetVar(_, _)));
        let has_typeset = ops
            .iter()
            .any(|o| matches!(o, Op::TypesetChar { .. } | Op::TypesetRule { .. }));
        if has_var && has_typeset {
            obs.count("seq_cases_with_variables_and_typeset_material");
        }
        let tiny: Vec<TOp> = ops.iter().map(to_tiny).collect();
        obs.nontrivial(&tiny);
        if obs.wants_sample() {
            let (placed, _) = Tracker::run(&tiny);
            obs.sample(json!({
                "profile": format!("{profile:?}"), "ops": show_ops(&ops[..ops.len().min(30)]), "n_ops": ops.len(),
                "bytes": rt.bytes.len(), "round_tripped": rt.ok, "known_deviation": rt.known,
                "varremover_output_head": direct.as_ref().map(|d| show_ops(&d[..d.len().min(30)])),
                "placed_elements_head": placed.iter().take(5).map(placed_json).collect::<Vec<_>>(),
            }));
        }
    }

    fn case_bytes(&self, rng: &mut Rng, obs: &mut Obs) {
        let (bytes, how) = if rng.chance(1, 4) {
            (gen::noise(rng), "noise")
        } else {
            let p = if rng.coin() { Profile::Document } else { Profile::Messy };
            let (a, _, _) = gen::gen_sequence(rng, p, 40);
            let (b, _, _) = gen::gen_sequence(rng, Profile::Messy, 12);
            let sa = catch(|| dvi::serialize(a)).unwrap_or_default();
            let sb = catch(|| dvi::serialize(b)).unwrap_or_default();
            (gen::mutate(rng, &sa, &sb), "mutated-serialisation")
        };
        check_bytes(&bytes, how, obs);
    }

    fn case_known(&self, idx: u64, obs: &mut Obs) {
        // one fixed reproducer per listed finding, so that the finding stays visible in every run
        // while it exists (and silently passes once it is gone)
        match idx {
            0 => {
                let ops = vec![
                    Op::EndPostamble {
                        postamble: 100,
                        dvi_format: 2,
                        num_223_bytes: 4,
                    },
                    Op::EnableFont(52),
                ];
                let ctx = json!({"phase": "known", "reproducer": KF_POSTPOST});
                let r = check_round_trip(&ops, obs, &ctx);
                obs.count(if r.known {
                    "known_reproducer_deviates"
                } else {
                    "known_reproducer_conforms"
                });
            }
            _ => {}
        }
        obs.nontrivial_by_construction(1);
    }
}

impl Monitor for M {
    fn id(&self) -> &'static str {
        "C16"
    }

    fn rule(&self) -> String {
        "boundary: every dvi::Op kind with every operand at 0, ±1..3, ±2^k+{-2..2} (k=7,15,23,31) resp. the unsigned \
         1/2/3/4-byte limits, strings of 0/1/2/127/128/254/255 bytes in 1..4-byte UTF-8 scalars, xxx payloads up to 2^24 \
         bytes; each alone and between neighbours (distinct by construction). opcodes: each of the 256 first bytes with a \
         canonical operand, plus every truncation of it. seq: 1..200 generated ops in three profiles (well-formed document / \
         anything anywhere incl. pop on empty stack and bop with open pushes / move-heavy), integer coordinates kept inside \
         i32 by simulating the model tracker while generating; non-trivial = distinct tiny-op sequence. bytes: noise and \
         1-4 byte-level mutations (flip, overwrite, delete, insert, duplicate, truncate, splice) of valid serialisations; \
         non-trivial = at least one command decoded or an error reported, distinct by byte string."
            .into()
    }

    fn assumptions(&self) -> Vec<String> {
        vec![
            "Strings in generated ops are at most 255 bytes (the quantifier); longer strings are truncated by the serialiser and are not probed.".into(),
            "VarRemover sequences keep the integer parts of h, v inside i32 at every step (wrap-around is unspecified; the code panics on overflow in checked builds).".into(),
            "pop on an empty stack leaves all registers unchanged (DVItype §83 behaviour; the DVI standard leaves it undefined).".into(),
            "Positions are compared at typeset characters and rules only, as the property states; the register state at other commands is not compared.".into(),
            "Operations other than Right/Down/Move/SetVar must come out of VarRemover unchanged and in order; how moves are re-expressed (one Right/Down per variable op, or any other equivalent list of moves) is left free.".into(),
            "The framing model follows the repository's reading that post_post owns every directly following byte 223.".into(),
            "The field order inside post_post (format byte before the pointer, TeX §590 has the pointer first) is not part of this property and is not checked.".into(),
        ]
    }

    fn phases(&self, tier: Tier) -> Vec<Phase> {
        vec![
            Phase::new("known", 1).batch(1).exhaustive("the fixed reproducer of the listed finding"),
            Phase::new("opcodes", 256)
                .batch(4)
                .exhaustive("all 256 values of the first byte of a command, with canonical operands and every truncation"),
            Phase::new("boundary", boundary_table().len() as u64)
                .batch(8)
                .exhaustive("every op kind x every operand at every width boundary value (see rule)"),
            Phase::new("seq", tier.pick(300_000, 20_000_000)).batch(256),
            Phase::new("bytes", tier.pick(500_000, 30_000_000)).batch(512),
        ]
    }

    fn floors(&self, tier: Tier) -> Vec<(&'static str, u64)> {
        let k = tier.pick(1, 50);
        vec![
            ("opcodes_defined_reached_and_round_tripped", 250),
            ("opcodes_undefined_rejected", 6),
            ("opcodes_truncations_reported_as_truncated", 500),
            ("boundary_ops_round_tripped", 1500),
            ("boundary_kind:set_var", 100),
            ("boundary_kind:fnt_def", 100),
            ("boundary_kind:xxx", 50),
            ("rt_ops_round_tripped", 5_000_000 * k),
            ("vr_streams_checked", 150_000 * k),
            ("vr_placed_elements_compared", 2_000_000 * k),
            ("vr_placed_with_unmeasured_widths_in_h", 500_000 * k),
            ("vr_placed_on_page_2_or_later", 100_000 * k),
            ("vr_variable_ops", 1_000_000 * k),
            ("vr_moves_by_nonzero_variable", 200_000 * k),
            ("vr_pops_restoring_a_different_variable_value", 50_000 * k),
            ("vr_pops_on_empty_stack", 20_000 * k),
            ("vr_bops_discarding_open_pushes", 10_000 * k),
            ("vr_bops_resetting_nonzero_variables", 20_000 * k),
            ("vr_coordinates_within_2_of_i32_limit", 10_000 * k),
            ("vr_cases_stack_depth_ge_3", 20_000 * k),
            ("seq_moves_landing_exactly_on_i32_limit", 5_000 * k),
            ("pipeline_runs", 30_000 * k),
            ("bytes_end_ok", 10_000 * k),
            ("bytes_end_truncated", 50_000 * k),
            ("bytes_end_invalid_opcode", 20_000 * k),
            ("bytes_ops_decoded", 1_000_000 * k),
            ("bytes_decoded_ops_round_tripped_again", 100_000 * k),
        ]
    }

    fn calibrate(&self, obs: &mut Obs) {
        calibrate(obs);
    }

    fn run_case(&self, phase: &str, idx: u64, rng: &mut Rng, obs: &mut Obs) {
        match phase {
            "known" => self.case_known(idx, obs),
            "opcodes" => self.case_opcode(idx, obs),
            "boundary" => self.case_boundary(idx, obs),
            "seq" => self.case_seq(rng, obs),
            "bytes" => self.case_bytes(rng, obs),
            other => obs.inconclusive(format!("unknown phase {other}")),
        }
    }

    fn stack_bytes(&self) -> usize {
        256 << 20
    }
}

// ------------------------------------------------------------------------------------------
// Calibration of the two models against ground truth found in the repository:
// the `values_tests!` table in crates/dvi/src/lib.rs (expected h, v, w, x, y, z, f after short
// op lists), the `serde_tests!` byte tables and doc examples (command framing), and the two
// documented VarRemover examples in crates/dvi/src/transforms.rs.

fn calibrate(obs: &mut Obs) {
    use TOp::*;
    struct Want {
        h: i64,
        n_sym: usize,
        v: i64,
        r: [i64; 4],
        f: Option<u32>,
    }
    let w0 = || Want {
        h: 0,
        n_sym: 0,
        v: 0,
        r: [0; 4],
        f: None,
    };
    // (name in values_tests!, ops, expectation)
    let table: Vec<(&str, Vec<TOp>, Want)> = vec![
        ("noop", vec![Nop], w0()),
        ("extension", vec![Inert], w0()),
        ("enable_font_1", vec![Fnt(3), Fnt(3)], Want { f: Some(3), ..w0() }),
        ("enable_font_2", vec![Fnt(3), Push, Fnt(5), Pop], Want { f: Some(5), ..w0() }),
        ("var_w_1", vec![SetReg(Reg::W, 5), SetReg(Reg::W, 5)], Want { h: 10, r: [5, 0, 0, 0], ..w0() }),
        ("var_w_2", vec![SetReg(Reg::W, 5), Push, SetReg(Reg::W, 3), Pop], Want { h: 5, r: [5, 0, 0, 0], ..w0() }),
        ("var_w_3", vec![SetReg(Reg::W, 5), Push, SetReg(Reg::W, 5), Pop], Want { h: 5, r: [5, 0, 0, 0], ..w0() }),
        ("var_w_4", vec![SetReg(Reg::W, 5), SetReg(Reg::W, 0), SetReg(Reg::W, 0)], Want { h: 5, ..w0() }),
        ("var_w_5", vec![SetReg(Reg::W, 5), Move(Reg::W)], Want { h: 10, r: [5, 0, 0, 0], ..w0() }),
        ("var_w_6", vec![SetReg(Reg::W, 0), Move(Reg::W)], w0()),
        ("var_x", vec![SetReg(Reg::X, 5), SetReg(Reg::X, 5), Move(Reg::X)], Want { h: 15, r: [0, 5, 0, 0], ..w0() }),
        ("var_y", vec![SetReg(Reg::Y, 5), SetReg(Reg::Y, 5), Move(Reg::Y)], Want { v: 15, r: [0, 0, 5, 0], ..w0() }),
        ("var_z", vec![SetReg(Reg::Z, 5), SetReg(Reg::Z, 5), Move(Reg::Z)], Want { v: 15, r: [0, 0, 0, 5], ..w0() }),
        ("right_1", vec![Right(5)], Want { h: 5, ..w0() }),
        ("right_2", vec![Right(0)], w0()),
        ("down_1", vec![Down(5)], Want { v: 5, ..w0() }),
        ("rule_1", vec![SetRule { height: 2, width: 3 }], Want { h: 3, ..w0() }),
        ("rule_2", vec![SetRule { height: 2, width: 0 }], w0()),
        ("rule_3", vec![PutRule { height: 2, width: 3 }], w0()),
        (
            "begin_page_1",
            vec![SetReg(Reg::W, 1), SetReg(Reg::X, 2), SetReg(Reg::Y, 3), SetReg(Reg::Z, 4), Bop],
            w0(),
        ),
        ("end_page", vec![Eop], w0()),
        ("typeset_char_1", vec![SetChar(1)], Want { n_sym: 1, ..w0() }),
        ("typeset_char_2", vec![PutChar(1)], w0()),
        ("typeset_char_3", vec![Push, SetChar(1), Pop], w0()),
        // Values::h doc example
        ("values_h_doc", vec![Right(1), Fnt(2), SetChar(68), SetChar(86), SetChar(73)], Want { h: 1, n_sym: 3, f: Some(2), ..w0() }),
        // Values doc example
        ("values_doc", vec![SetReg(Reg::Y, 3), Push, SetReg(Reg::Y, 5), Pop], Want { v: 3, r: [0, 0, 3, 0], ..w0() }),
    ];
    for (name, ops, want) in &table {
        let (_, t) = Tracker::run(ops);
        let got_r = [t.reg(Reg::W), t.reg(Reg::X), t.reg(Reg::Y), t.reg(Reg::Z)];
        // the repo's Values never forgets the font at bop and starts with f = 0; where the table
        // says f: 0 without any fnt command we expect "undefined"
        let ok = t.h().int == want.h
            && t.h().sym.len() == want.n_sym
            && t.v() == want.v
            && got_r == want.r
            && t.font() == want.f;
        if ok {
            obs.count("calibration_tracker_rows_ok");
        } else {
            obs.inconclusive(format!("tracker disagrees with dvi values_tests row {name}"));
        }
    }
    // VarRemover documentation examples: the documented output is the same document as the input
    let ex_in = vec![
        SetReg(Reg::X, 3),
        Push,
        SetReg(Reg::X, 5),
        PutChar(1),
        Move(Reg::X),
        PutChar(2),
        Pop,
        Move(Reg::X),
        PutChar(3),
    ];
    let ex_out = vec![
        Right(3),
        Push,
        Right(5),
        PutChar(1),
        Right(5),
        PutChar(2),
        Pop,
        Right(3),
        PutChar(3),
    ];
    let (a, _) = Tracker::run(&ex_in);
    let (b, _) = Tracker::run(&ex_out);
    let same = a.len() == b.len() && a.iter().zip(&b).all(|(x, y)| x.h == y.h && x.v == y.v && x.font == y.font);
    let hs: Vec<i64> = a.iter().map(|p| p.h.int).collect();
    if same && hs == vec![8, 13, 6] {
        obs.count("calibration_tracker_rows_ok");
    } else {
        obs.inconclusive("tracker disagrees with the VarRemover documentation example");
    }
    let (a, _) = Tracker::run(&[SetReg(Reg::X, 3), Move(Reg::X), PutChar(68)]);
    if a.len() == 1 && a[0].h.int == 6 && a[0].v == 0 {
        obs.count("calibration_tracker_rows_ok");
    } else {
        obs.inconclusive("tracker disagrees with the transforms module documentation example (6,0)");
    }

    // framing: (bytes from serde_tests! / doc examples, expected number of commands, expected end)
    let frames: Vec<(Vec<u8>, usize, FrameEnd)> = vec![
        (vec![0], 1, FrameEnd::Complete),
        (vec![127], 1, FrameEnd::Complete),
        (vec![128, 255], 1, FrameEnd::Complete),
        (vec![129, 255, 255], 1, FrameEnd::Complete),
        (vec![130, 1, 2, 3], 1, FrameEnd::Complete),
        (vec![131, 1, 2, 3, 4], 1, FrameEnd::Complete),
        (vec![132, 0, 0, 0, 1, 0, 0, 0, 2], 1, FrameEnd::Complete),
        (vec![133, 1], 1, FrameEnd::Complete),
        (vec![136, 1, 2, 3, 4], 1, FrameEnd::Complete),
        (vec![137, 0, 0, 0, 1, 0, 0, 0, 2], 1, FrameEnd::Complete),
        (vec![138], 1, FrameEnd::Complete),
        ({ let mut b = vec![139]; b.extend([0u8; 44]); b }, 1, FrameEnd::Complete),
        (vec![140, 141, 142], 3, FrameEnd::Complete),
        (vec![143, 1], 1, FrameEnd::Complete),
        (vec![144, 1, 0], 1, FrameEnd::Complete),
        (vec![145, 1, 0, 0], 1, FrameEnd::Complete),
        (vec![146, 1, 0, 0, 0], 1, FrameEnd::Complete),
        (vec![147, 152, 161, 166], 4, FrameEnd::Complete),
        (vec![151, 1, 0, 0, 0, 156, 1, 0, 0, 0], 2, FrameEnd::Complete),
        (vec![160, 1, 0, 0, 0, 165, 1, 0, 0, 0, 170, 1, 0, 0, 0], 3, FrameEnd::Complete),
        (vec![171, 234], 2, FrameEnd::Complete),
        (vec![235, 64, 238, 1, 0, 0, 0], 2, FrameEnd::Complete),
        (vec![239, 3, 1, 2, 3], 1, FrameEnd::Complete),
        (vec![245, 1, 1, 1, 0, 0, 0, 2, 0, 0, 0, 3, 0, 0, 0, 4, 2, 3, 99, 109, 114, 49, 48], 1, FrameEnd::Complete),
        (vec![246, 1, 0, 0, 0, 0, 0, 0, 2, 0, 0, 0, 3, 0, 0, 0, 4, 0, 0], 1, FrameEnd::Complete),
        (vec![247, 2, 0, 0, 0, 3, 0, 0, 0, 5, 1, 2, 3, 4, 3, 65, 66, 67], 1, FrameEnd::Complete),
        (
            vec![248, 0, 0, 0, 1, 0, 0, 0, 2, 0, 0, 0, 3, 0, 0, 0, 4, 0, 0, 0, 5, 0, 0, 0, 6, 0, 7, 0, 8],
            1,
            FrameEnd::Complete,
        ),
        (vec![249, 1, 0, 0, 0, 2, 223, 223, 223, 223, 223, 223], 1, FrameEnd::Complete),
        (vec![158, 1, 0, 68, 86, 73], 4, FrameEnd::Complete),
        (vec![128, 4, 129, 1, 0], 2, FrameEnd::Complete),
        (vec![158, 1, 0, 255], 1, FrameEnd::Invalid { opcode: 255, at: 3 }),
        (vec![254], 0, FrameEnd::Invalid { opcode: 254, at: 0 }),
        (vec![129, 1], 0, FrameEnd::Truncated { opcode: 129, at: 0 }),
    ];
    for (bytes, n, end) in &frames {
        let (f, e) = dvipos::frame(bytes);
        if f.len() == *n && e == *end {
            obs.count("calibration_framing_rows_ok");
        } else {
            obs.inconclusive(format!("framing model disagrees with a dvi unit-test byte table: {bytes:?}"));
        }
    }
}
