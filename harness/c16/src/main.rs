fn main() {
    vcore::run_main(&c16::MONITOR)
}
