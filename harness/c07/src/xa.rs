//! C07 part (ii): generated token streams with chains of `\expandafter` / `\noexpand`.
//!
//! Everything is generated as model tokens (`vmodels::macrocall::Tok`) and rendered to source, so
//! that the reference expander and the two real VMs see the same token stream.

use std::collections::HashMap;
use vcore::Rng;
use vmodels::expand::{Expander, Meaning};
use vmodels::macrocall::{drop_unlexable_spaces, lex_line, parse_def, to_source, Tok};

pub fn ch(c: char) -> Tok {
    Tok::Ch(c)
}
pub fn cs(n: &str) -> Tok {
    Tok::cs(n)
}

/// A set of macro definitions shared by the model and the VMs.
pub struct MacroSet {
    /// (name, parameter text + `{body}` as tokens)
    pub defs: Vec<(String, Vec<Tok>)>,
    /// number of parameters of each macro (by name)
    pub nparams: HashMap<String, usize>,
}

pub const XA_NAMES: [&str; 2] = ["expandafter", "xb"];
pub const NX_NAMES: [&str; 2] = ["noexpand", "nx"];

impl MacroSet {
    /// Source of the preamble for the real VMs.
    pub fn preamble(&self) -> Result<String, String> {
        let mut s = String::new();
        for (name, d) in &self.defs {
            let mut line = vec![cs("def"), cs(name)];
            line.extend(d.iter().cloned());
            let src = to_source(&line).ok_or("definition cannot be rendered")?;
            if lex_line(&src) != line {
                return Err(format!("model lexer does not reproduce {src}"));
            }
            s.push_str(&src);
            s.push_str("%\n");
        }
        s.push_str("\\let\\xb\\expandafter \\let\\nx\\noexpand %\n");
        Ok(s)
    }

    /// Meanings for the reference expander.
    pub fn meanings(&self) -> Result<HashMap<String, Meaning>, String> {
        let mut m = Expander::primitives();
        m.insert("xb".into(), Meaning::ExpandAfter);
        m.insert("nx".into(), Meaning::NoExpand);
        for (name, d) in &self.defs {
            let (def, used) = parse_def(d).map_err(|e| format!("{e:?}"))?;
            if used != d.len() {
                return Err("definition ends early".into());
            }
            m.insert(name.clone(), Meaning::Macro(def));
        }
        Ok(m)
    }
}

fn def_tokens(params: &[Vec<Tok>], body: &[Tok]) -> Vec<Tok> {
    // params[i] = delimiter of parameter i+1 (empty = undelimited)
    let mut v = vec![];
    for (i, d) in params.iter().enumerate() {
        v.push(Tok::Param);
        v.push(ch(char::from(b'1' + i as u8)));
        v.extend(d.iter().cloned());
    }
    v.push(Tok::Begin);
    v.extend(body.iter().cloned());
    v.push(Tok::End);
    v
}

const NAMES: [&str; 6] = ["a", "b", "c", "d", "e", "f"];

/// Random macro set: `\a`..`\f` (a macro may only use macros defined before it: no recursion),
/// plus `\z` (prints Z; used as a delimiter).
pub fn random_macro_set(rng: &mut Rng) -> MacroSet {
    let mut defs = vec![("z".to_string(), def_tokens(&[], &[ch('Z')]))];
    let mut nparams = HashMap::new();
    nparams.insert("z".to_string(), 0);
    for (i, name) in NAMES.iter().enumerate() {
        let params: Vec<Vec<Tok>> = match rng.weighted(&[10, 6, 2, 1, 1]) {
            0 => vec![],
            1 => vec![vec![]],
            2 => vec![vec![], vec![]],
            3 => vec![vec![ch('.')]],
            _ => vec![vec![cs("z")]],
        };
        let n = params.len();
        let letter = ch(char::from(b'A' + i as u8));
        let mut body: Vec<Tok> = vec![];
        let pieces = rng.weighted(&[1, 6, 6, 3, 1]);
        for _ in 0..pieces {
            match rng.below(20) {
                0..=5 => body.push(letter.clone()),
                6..=10 if n > 0 => {
                    let k = 1 + rng.usize_below(n);
                    body.extend([Tok::Param, ch(char::from(b'0' + k as u8))]);
                }
                11..=14 if i > 0 => body.push(cs(NAMES[rng.usize_below(i)])),
                15 if i > 0 => {
                    body.push(cs(*rng.pick(&NX_NAMES)));
                    body.push(cs(NAMES[rng.usize_below(i)]));
                }
                16 | 17 if i > 1 => {
                    body.push(cs(*rng.pick(&XA_NAMES)));
                    body.push(cs(NAMES[rng.usize_below(i)]));
                    body.push(cs(NAMES[rng.usize_below(i)]));
                }
                18 => {
                    body.push(Tok::Begin);
                    body.push(letter.clone());
                    body.push(Tok::End);
                }
                _ => body.push(ch(*rng.pick(&['[', ']', '(', ')', '-', '+']))),
            }
        }
        defs.push((name.to_string(), def_tokens(&params, &body)));
        nparams.insert(name.to_string(), n);
    }
    MacroSet { defs, nparams }
}

/// The three fixed macro sets of the enumerated phase.
pub fn fixed_macro_set(variant: u64) -> MacroSet {
    let mut defs = vec![("z".to_string(), def_tokens(&[], &[ch('Z')]))];
    let mut nparams = HashMap::new();
    nparams.insert("z".to_string(), 0);
    let mut add = |name: &str, params: &[Vec<Tok>], body: &[Tok]| {
        defs.push((name.to_string(), def_tokens(params, body)));
        nparams.insert(name.to_string(), params.len());
    };
    match variant {
        0 => {
            add("a", &[], &[ch('A')]);
            add("b", &[], &[ch('B')]);
            add("c", &[], &[ch('C')]);
            add("d", &[], &[ch('D')]);
        }
        1 => {
            // the accumulators of the repository's expandafter test table (expansion.rs):
            // \def\a#1\notes#2\end{#1\notes#2a\end} ... \def\notes#1\end{#1}
            for n in ["a", "b", "c", "d"] {
                let body = vec![
                    Tok::Param,
                    ch('1'),
                    cs("notes"),
                    Tok::Param,
                    ch('2'),
                    ch(n.chars().next().unwrap()),
                    cs("end"),
                ];
                add(n, &[vec![cs("notes")], vec![cs("end")]], &body);
            }
            add("notes", &[vec![cs("end")]], &[Tok::Param, ch('1')]);
        }
        _ => {
            add("a", &[vec![]], &[ch('['), Tok::Param, ch('1'), ch(']')]);
            add("b", &[], &[ch('B')]);
            add(
                "c",
                &[vec![], vec![]],
                &[ch('('), Tok::Param, ch('2'), Tok::Param, ch('1'), ch(')')],
            );
            add("d", &[], &[cs("noexpand"), cs("b"), ch('D'), cs("b")]);
        }
    }
    MacroSet { defs, nparams }
}

/// What kinds of atoms a stream may contain.
#[derive(Clone, Copy, PartialEq, Eq)]
pub enum Flavor {
    /// macros, characters, groups, `\noexpand`, `\relax`: the reference expander applies
    MacroOnly,
    /// additionally `\the`, conditionals: differential only
    Mixed,
}

#[derive(Default, Debug)]
pub struct StreamStats {
    pub xa_tokens: u64,
    pub xa_aliases: u64,
    pub chains_by_len: [u64; 8],
    pub noexpand: u64,
    pub macros_with_params: u64,
    pub the: u64,
    pub conditionals: u64,
    pub toks_assignments: u64,
    pub truncated: bool,
}

fn chain(rng: &mut Rng, k: usize, st: &mut StreamStats) -> Vec<Tok> {
    // one name for the whole chain, or mixed names (the optimized implementation recognises a
    // chain by token value, so mixing names forces its recursive path)
    let mode = rng.below(4);
    let mut v = vec![];
    for j in 0..k {
        let name = match mode {
            0 | 1 => XA_NAMES[0],
            2 => XA_NAMES[1],
            _ => XA_NAMES[(j + rng.usize_below(2)) % 2],
        };
        if name == "xb" {
            st.xa_aliases += 1;
        }
        st.xa_tokens += 1;
        v.push(cs(name));
    }
    if k > 0 {
        st.chains_by_len[k.min(7)] += 1;
    }
    v
}

fn atom(rng: &mut Rng, set: &MacroSet, flavor: Flavor, prev_safe: bool, st: &mut StreamStats) -> Vec<Tok> {
    let r = rng.below(if flavor == Flavor::Mixed { 34 } else { 22 });
    match r {
        0..=9 => {
            let name = *rng.pick(&NAMES);
            if set.nparams.get(name).copied().unwrap_or(0) > 0 {
                st.macros_with_params += 1;
            }
            vec![cs(name)]
        }
        10..=12 => vec![ch(*rng.pick(&['x', 'y', '1', '.']))],
        13 | 14 => {
            st.noexpand += 1;
            vec![cs(*rng.pick(&NX_NAMES))]
        }
        15 | 16 => {
            let inner = atom(rng, set, Flavor::MacroOnly, true, st);
            let mut v = vec![Tok::Begin, ch('g')];
            v.extend(inner);
            v.push(Tok::End);
            v
        }
        17 => vec![cs("z")],
        18 => vec![cs("relax")],
        19 => vec![Tok::Space],
        20 | 21 => vec![ch(*rng.pick(&['u', 'v']))],
        22..=24 => {
            // \the<register> : only where no macro in front of it can tear it apart
            if !prev_safe {
                return vec![ch('w')];
            }
            st.the += 1;
            if rng.coin() {
                vec![cs("the"), cs("count"), ch(*rng.pick(&['1', '2'])), Tok::Space]
            } else {
                vec![cs("the"), cs("toks"), ch('0'), Tok::Space]
            }
        }
        30..=33 => {
            // token-list register traffic right in front of an \expandafter chain: the old value of an overwritten (or
            // group-restored) register is handed back to the VM's pool of scratch buffers, which the optimised
            // \expandafter draws from - and expects to be empty
            if !prev_safe {
                return vec![ch('w')];
            }
            st.toks_assignments += 1;
            let value = |rng: &mut Rng| -> Vec<Tok> {
                let mut v = vec![cs("toks"), ch('0'), ch('='), Tok::Begin];
                for _ in 0..rng.range_usize(0, 3) {
                    v.push(ch(*rng.pick(&['P', 'Q', 'R'])));
                }
                v.push(Tok::End);
                v
            };
            let mut v = vec![];
            match rng.below(3) {
                0 => {
                    v.extend(value(rng));
                    v.extend(value(rng));
                }
                1 => {
                    // restored at the end of a group
                    v.extend(value(rng));
                    v.push(Tok::Begin);
                    v.extend(value(rng));
                    v.push(Tok::End);
                }
                _ => v.extend(value(rng)),
            }
            v
        }
        _ => {
            st.conditionals += 1;
            let t = vec![cs(*rng.pick(&NAMES))];
            let e = vec![ch('n')];
            let mut v: Vec<Tok> = match rng.below(5) {
                0 => vec![cs("iftrue")],
                1 => vec![cs("iffalse")],
                2 => vec![cs("ifnum"), ch('1'), ch('<'), ch('2'), Tok::Space],
                3 => vec![cs("ifodd"), ch('2'), Tok::Space],
                _ => vec![cs("ifcase"), ch('1'), Tok::Space, ch('k'), cs("or")],
            };
            v.extend(t);
            if rng.chance(2, 3) {
                v.push(cs("else"));
                v.extend(e);
            }
            v.push(cs("fi"));
            v
        }
    }
}

/// A random stream: atoms, each preceded by a chain of 0..7 `\expandafter` tokens.
pub fn random_stream(rng: &mut Rng, set: &MacroSet, flavor: Flavor, st: &mut StreamStats) -> Vec<Tok> {
    let n = 2 + rng.usize_below(7);
    let mut v: Vec<Tok> = vec![];
    // how many of the preceding atoms could still grab tokens as arguments
    let mut unsafe_for = 0usize;
    for _ in 0..n {
        let k = [0usize, 1, 2, 3, 4, 5, 6, 7][rng.weighted(&[10, 6, 2, 6, 1, 1, 1, 3])];
        v.extend(chain(rng, k, st));
        let a = atom(rng, set, flavor, unsafe_for == 0, st);
        let grabs = match a.first() {
            Some(Tok::Cs(n)) if a.len() == 1 => match set.nparams.get(n.as_str()) {
                Some(0) => 1, // its expansion may end in a macro with parameters
                Some(p) => *p + 1,
                None => 1, // \noexpand, \relax ...
            },
            _ => 0,
        };
        unsafe_for = unsafe_for.saturating_sub(1).max(grabs);
        v.extend(a);
    }
    // tail: material for arguments and both delimiters
    if rng.chance(1, 25) {
        st.truncated = true; // end of input inside a command: compared by error title
    } else {
        v.extend([ch('.'), cs("z"), ch(';'), ch(';'), ch(';')]);
    }
    drop_unlexable_spaces(&v, true)
}

/// The enumerated stream `\xa^k1 \a \xa^k2 \b \xa^k3 \c \xa^k4 \d` + tail.
pub fn enum_stream(k: [usize; 4], alias_mode: u64, variant: u64, st: &mut StreamStats) -> Vec<Tok> {
    let mut v = vec![];
    for (i, name) in ["a", "b", "c", "d"].iter().enumerate() {
        for j in 0..k[i] {
            let n = match alias_mode {
                0 => "expandafter",
                _ => {
                    if (i + j) % 2 == 0 {
                        "xb"
                    } else {
                        "expandafter"
                    }
                }
            };
            if n == "xb" {
                st.xa_aliases += 1;
            }
            st.xa_tokens += 1;
            v.push(cs(n));
        }
        if k[i] > 0 {
            st.chains_by_len[k[i].min(7)] += 1;
        }
        v.push(cs(name));
    }
    if variant == 1 {
        v.extend([cs("notes"), cs("end")]);
    } else {
        v.extend([ch('x'), ch('y'), ch('.'), cs("z"), ch(';')]);
    }
    v
}

/// Long single chains: `(\xa f)^n \xa \a \b` + tail. The optimised implementation walks such a
/// chain iteratively with a buffer; any bound or off-by-one in that walk only shows on chains
/// much longer than the 0..7 of the other phases.
pub const LONG_CHAIN_LENGTHS: [usize; 16] =
    [8, 15, 16, 17, 31, 32, 33, 34, 63, 64, 65, 100, 255, 256, 257, 600];

pub fn long_chain_stream(n: usize, alias_mode: u64, filler: u64, st: &mut StreamStats) -> Vec<Tok> {
    let mut v = vec![];
    for j in 0..n {
        let name = if alias_mode == 1 && j % 3 == 1 { "xb" } else { "expandafter" };
        if name == "xb" {
            st.xa_aliases += 1;
        }
        st.xa_tokens += 1;
        v.push(cs(name));
        v.push(match filler {
            0 => ch('x'),
            1 => cs("c"),
            _ => {
                if j % 2 == 0 {
                    ch('y')
                } else {
                    cs("d")
                }
            }
        });
    }
    st.xa_tokens += 1;
    v.push(cs("expandafter"));
    v.push(cs("a"));
    v.push(cs("b"));
    st.chains_by_len[7] += 1;
    v.extend([ch('x'), ch('y'), ch('.'), cs("z"), ch(';')]);
    v
}
