//! C07 part (i): generated conditional trees, evaluated directly by the generator.
//!
//! A program is a list of `Item`s. `eval` is the oracle: it descends only into the branch TeX
//! selects (§498-§510: `\ifnum` §503, `\ifodd` §504 `odd(cur_val)`, `\ifcase` §509 "case out of
//! range selects \else", `\or`/`\else`/`\fi` §510). Text in branches that no rule selects is
//! *dead*: it may contain anything (unbalanced braces, nested conditionals spelled with the
//! primitives or with `\let`-aliases, `\def`-ined look-alikes, undefined control sequences) as long
//! as its conditional tokens are well nested, because TeX's `pass_text` (§494) only counts
//! `if_test` / `fi_or_else` *meanings*.

use std::cmp::Ordering;
use vcore::Rng;

/// How `\ifodd` decides.
#[derive(Clone, Copy, PartialEq, Eq, Debug)]
pub enum OddRule {
    /// TeX §504: Pascal `odd(n)`, true for -3
    Tex,
    /// deviation model for finding C07-ifodd-negative-odd: Rust `n % 2 == 1`, false for every
    /// negative number
    RustRemainder,
}

#[derive(Clone, Debug)]
pub enum Kind {
    True,
    False,
    Num(i32, Ordering, i32),
    Odd(i32),
    Case(i32),
}

#[derive(Clone, Debug)]
pub enum Item {
    /// unique marker text; printed iff live
    Mark(String),
    /// `{ ... }` around live items
    Group(Vec<Item>),
    /// a `\def`-ined macro whose name looks like a conditional token; prints `text` iff live
    Look { name: String, text: String },
    /// executed without output when live (`\relax`, `\let`/`\def` between trees)
    Silent(String),
    Cond(Box<Cond>),
    /// raw source that must never be executed
    Junk(String),
}

#[derive(Clone, Debug)]
pub struct Cond {
    pub kind: Kind,
    /// the opening token and its operands, as source
    pub opener: String,
    /// `\ifcase`: the cases 0..k-1; every other kind: the single "then" branch
    pub branches: Vec<Vec<Item>>,
    pub else_: Option<Vec<Item>>,
    /// spelling of the k-1 `\or` tokens, of `\else` and of `\fi`
    pub ors: Vec<String>,
    pub else_src: String,
    pub fi_src: String,
}

#[derive(Clone, Copy, PartialEq, Eq, Debug)]
pub enum Sel {
    Branch(usize),
    Else,
    Nothing,
}

pub fn is_odd(n: i32, rule: OddRule) -> bool {
    match rule {
        OddRule::Tex => n & 1 == 1, // two's complement: exactly Pascal's odd()
        OddRule::RustRemainder => n % 2 == 1,
    }
}

impl Cond {
    pub fn select(&self, rule: OddRule) -> Sel {
        let truth = match &self.kind {
            Kind::Case(n) => {
                return if *n >= 0 && (*n as usize) < self.branches.len() {
                    Sel::Branch(*n as usize)
                } else if self.else_.is_some() {
                    Sel::Else
                } else {
                    Sel::Nothing
                };
            }
            Kind::True => true,
            Kind::False => false,
            Kind::Num(a, o, b) => a.cmp(b) == *o,
            Kind::Odd(n) => is_odd(*n, rule),
        };
        if truth {
            Sel::Branch(0)
        } else if self.else_.is_some() {
            Sel::Else
        } else {
            Sel::Nothing
        }
    }
}

/// The oracle. Returns false if dead text would be executed (a generator bug, never a verdict).
pub fn eval(items: &[Item], rule: OddRule, out: &mut String) -> bool {
    for it in items {
        match it {
            Item::Mark(s) => out.push_str(s),
            Item::Group(v) => {
                if !eval(v, rule, out) {
                    return false;
                }
            }
            Item::Look { text, .. } => out.push_str(text),
            Item::Silent(_) => {}
            Item::Junk(_) => return false,
            Item::Cond(c) => {
                let b = match c.select(rule) {
                    Sel::Branch(i) => Some(&c.branches[i]),
                    Sel::Else => c.else_.as_ref(),
                    Sel::Nothing => None,
                };
                if let Some(b) = b {
                    if !eval(b, rule, out) {
                        return false;
                    }
                }
            }
        }
    }
    true
}

pub fn render(items: &[Item], out: &mut String) {
    for it in items {
        match it {
            Item::Mark(s) | Item::Silent(s) | Item::Junk(s) => out.push_str(s),
            Item::Group(v) => {
                out.push('{');
                render(v, out);
                out.push('}');
            }
            Item::Look { name, .. } => {
                out.push_str(name);
                out.push(' ');
            }
            Item::Cond(c) => {
                out.push_str(&c.opener);
                for (i, b) in c.branches.iter().enumerate() {
                    if i > 0 {
                        out.push_str(&c.ors[i - 1]);
                    }
                    render(b, out);
                }
                if let Some(e) = &c.else_ {
                    out.push_str(&c.else_src);
                    render(e, out);
                }
                out.push_str(&c.fi_src);
            }
        }
    }
}

/// What a generated program exercised (fed into the observation counters).
#[derive(Default, Debug, Clone)]
pub struct Stats {
    pub live_conds: [u64; 5],
    pub dead_conds: u64,
    pub max_live_depth: u32,
    pub max_depth: u32,
    pub aliases_live: u64,
    pub aliases_dead: u64,
    pub mutable_names_as_cond: u64,
    pub lookalikes_dead: u64,
    pub lookalikes_live: u64,
    pub dead_unbalanced_braces: u64,
    /// skipped text containing nested conditionals, by the loop that has to skip it:
    /// 0 = then-branch of a false \if (false_case), 1 = cases before the selected one
    /// (if_case_primitive_fn), 2 = \else part after a taken branch (else_primitive_fn),
    /// 3 = remaining cases after the selected one (or_primitive_fn)
    pub skip_loop_nested: [u64; 4],
    pub skip_loop: [u64; 4],
    pub ifodd_negative_odd_live: u64,
    pub ifodd_negative_even_live: u64,
    pub ifnum_boundary_live: u64,
    pub ifcase_out_of_range_live: u64,
    pub ifcase_negative_live: u64,
    pub register_operands_live: u64,
    pub redefinitions: u64,
    pub markers_live: u64,
    pub markers_dead: u64,
}

fn has_nested(items: &[Item]) -> bool {
    items.iter().any(|i| match i {
        Item::Cond(_) => true,
        Item::Group(v) => has_nested(v),
        _ => false,
    })
}

fn dead_stats(items: &[Item], depth: u32, st: &mut Stats) {
    for it in items {
        match it {
            Item::Mark(_) => st.markers_dead += 1,
            Item::Look { .. } => st.lookalikes_dead += 1,
            Item::Junk(s) => {
                if s == "{" || s == "}" {
                    st.dead_unbalanced_braces += 1
                }
            }
            Item::Group(v) => dead_stats(v, depth, st),
            Item::Cond(c) => {
                st.dead_conds += 1;
                st.max_depth = st.max_depth.max(depth + 1);
                if is_alias(&c.opener) || is_alias(&c.fi_src) {
                    st.aliases_dead += 1;
                }
                for b in &c.branches {
                    dead_stats(b, depth + 1, st);
                }
                if let Some(e) = &c.else_ {
                    dead_stats(e, depth + 1, st);
                }
            }
            Item::Silent(_) => {}
        }
    }
}

fn is_alias(src: &str) -> bool {
    src.starts_with("\\A") || src.starts_with("\\M") || src.starts_with(['~', '!', '|', '?', '&'])
}

/// Walk the tree the way TeX would under `rule` and count what is exercised.
pub fn live_stats(items: &[Item], rule: OddRule, depth: u32, st: &mut Stats) {
    for it in items {
        match it {
            Item::Mark(_) => st.markers_live += 1,
            Item::Look { .. } => st.lookalikes_live += 1,
            Item::Group(v) => live_stats(v, rule, depth, st),
            Item::Silent(s) => {
                if s.starts_with("\\let") || s.starts_with("\\def") {
                    st.redefinitions += 1;
                }
            }
            Item::Junk(_) => {}
            Item::Cond(c) => {
                let d = depth + 1;
                st.max_live_depth = st.max_live_depth.max(d);
                st.max_depth = st.max_depth.max(d);
                let k = match &c.kind {
                    Kind::True => 0,
                    Kind::False => 1,
                    Kind::Num(a, _, b) => {
                        if a.unsigned_abs() >= 0x3fff_ffff || b.unsigned_abs() >= 0x3fff_ffff {
                            st.ifnum_boundary_live += 1;
                        }
                        2
                    }
                    Kind::Odd(n) => {
                        if *n < 0 && n & 1 == 1 {
                            st.ifodd_negative_odd_live += 1;
                        }
                        if *n < 0 && n & 1 == 0 {
                            st.ifodd_negative_even_live += 1;
                        }
                        3
                    }
                    Kind::Case(n) => {
                        if *n < 0 {
                            st.ifcase_negative_live += 1;
                        } else if *n as usize >= c.branches.len() {
                            st.ifcase_out_of_range_live += 1;
                        }
                        4
                    }
                };
                st.live_conds[k] += 1;
                if c.opener.contains("\\count") {
                    st.register_operands_live += 1;
                }
                if is_alias(&c.opener) || is_alias(&c.fi_src) || is_alias(&c.else_src) {
                    st.aliases_live += 1;
                }
                if c.opener.starts_with("\\M") || c.fi_src.starts_with("\\M") {
                    st.mutable_names_as_cond += 1;
                }
                let sel = c.select(rule);
                let is_case = matches!(c.kind, Kind::Case(_));
                for (i, b) in c.branches.iter().enumerate() {
                    if sel == Sel::Branch(i) {
                        live_stats(b, rule, d, st);
                    } else {
                        // which loop skips this branch?
                        let l = if !is_case {
                            0
                        } else {
                            match sel {
                                Sel::Branch(s) if i > s => 3,
                                _ => 1,
                            }
                        };
                        st.skip_loop[l] += 1;
                        if has_nested(b) {
                            st.skip_loop_nested[l] += 1;
                        }
                        dead_stats(b, d, st);
                    }
                }
                if let Some(e) = &c.else_ {
                    if sel == Sel::Else {
                        live_stats(e, rule, d, st);
                    } else {
                        let l = match sel {
                            Sel::Branch(_) if is_case => 3,
                            Sel::Branch(_) => 2,
                            _ => 1,
                        };
                        st.skip_loop[l] += 1;
                        if has_nested(e) {
                            st.skip_loop_nested[l] += 1;
                        }
                        dead_stats(e, d, st);
                    }
                }
            }
        }
    }
}

// ------------------------------------------------------------------------------------------------
// generation
// ------------------------------------------------------------------------------------------------

/// `\count1`..`\count9` are set to these values in the preamble.
pub const REGISTERS: [i32; 9] = [
    -3,
    -1,
    0,
    1,
    2,
    2147483647,
    -2147483647,
    1073741824,
    -1073741823,
];

pub const BOUNDARY: [i32; 30] = [
    0,
    1,
    2,
    3,
    4,
    5,
    7,
    -1,
    -2,
    -3,
    -4,
    -5,
    -7,
    255,
    256,
    -255,
    -256,
    32767,
    -32768,
    65535,
    -65537,
    1073741823,
    1073741824,
    -1073741823,
    -1073741824,
    2147483646,
    2147483647,
    -2147483646,
    -2147483647,
    -2147483645,
];

pub fn preamble() -> String {
    let mut s = String::new();
    s.push_str("\\let\\Ait\\iftrue \\let\\Aif\\iffalse \\let\\Ain\\ifnum \\let\\Aio\\ifodd \\let\\Aic\\ifcase \\let\\Aor\\or \\let\\Ael\\else \\let\\Afi\\fi %\n");
    // the same through ACTIVE CHARACTERS: \let~=\fi copies the tagged command into the
    // active-character table, a different table from the one control sequences live in
    s.push_str("\\catcode`\\~=13 \\catcode`\\!=13 \\catcode`\\|=13 \\catcode`\\?=13 \\catcode`\\&=13 \\let~\\fi \\let!\\else \\let|\\or \\let?\\iftrue \\let&\\iffalse %\n");
    s.push_str("\\def\\iffoo{Lif;}\\def\\fifoo{Lfi;}\\def\\elsefoo{Lel;}\\def\\orfoo{Lor;}\\def\\Ma{Pa;}\\def\\Mb{Pb;}%\n");
    for (i, v) in REGISTERS.iter().enumerate() {
        s.push_str(&format!("\\count{}={}\\relax ", i + 1, v));
    }
    s.push_str("%\n");
    s
}

#[derive(Clone, Copy, PartialEq, Eq, Debug)]
enum Role {
    IfTrue,
    IfFalse,
    IfNum,
    IfOdd,
    IfCase,
    Or,
    Else,
    Fi,
    Macro,
}

impl Role {
    fn active(self) -> Option<&'static str> {
        match self {
            Role::Fi => Some("~"),
            Role::Else => Some("!"),
            Role::Or => Some("|"),
            Role::IfTrue => Some("?"),
            Role::IfFalse => Some("&"),
            _ => None,
        }
    }
    fn primitive(self) -> &'static str {
        match self {
            Role::IfTrue => "\\iftrue ",
            Role::IfFalse => "\\iffalse ",
            Role::IfNum => "\\ifnum ",
            Role::IfOdd => "\\ifodd ",
            Role::IfCase => "\\ifcase ",
            Role::Or => "\\or ",
            Role::Else => "\\else ",
            Role::Fi => "\\fi ",
            Role::Macro => "",
        }
    }
    fn alias(self) -> &'static str {
        match self {
            Role::IfTrue => "\\Ait ",
            Role::IfFalse => "\\Aif ",
            Role::IfNum => "\\Ain ",
            Role::IfOdd => "\\Aio ",
            Role::IfCase => "\\Aic ",
            Role::Or => "\\Aor ",
            Role::Else => "\\Ael ",
            Role::Fi => "\\Afi ",
            Role::Macro => "",
        }
    }
}

pub struct Gen<'a> {
    pub rng: &'a mut Rng,
    next_mark: u32,
    pub max_depth: u32,
    budget: i32,
    /// current meaning of the redefinable names `\Ma`, `\Mb` (+ text version if a macro)
    mutable: [(Role, u32); 2],
}

const MUTABLE_NAMES: [&str; 2] = ["\\Ma", "\\Mb"];
const LOOKALIKES: [(&str, &str); 4] = [
    ("\\iffoo", "Lif;"),
    ("\\fifoo", "Lfi;"),
    ("\\elsefoo", "Lel;"),
    ("\\orfoo", "Lor;"),
];
const DEAD_JUNK: [&str; 12] = [
    "{",
    "}",
    "{",
    "}",
    "\\undefinedfoo ",
    "\\noexpand ",
    "\\expandafter ",
    "#",
    "\\def ",
    "\\relax ",
    "\\ifundefinedlookalike ",
    "\\count ",
];

impl<'a> Gen<'a> {
    pub fn new(rng: &'a mut Rng, max_depth: u32, budget: i32) -> Gen<'a> {
        Gen {
            rng,
            next_mark: 0,
            max_depth,
            budget,
            mutable: [(Role::Macro, 0), (Role::Macro, 0)],
        }
    }

    fn mark(&mut self) -> Item {
        self.next_mark += 1;
        Item::Mark(format!("m{};", self.next_mark))
    }

    fn mutable_text(which: usize, version: u32) -> String {
        if version == 0 {
            ["Pa;", "Pb;"][which].to_string()
        } else {
            format!("{}{};", ["Pa", "Pb"][which], version)
        }
    }

    fn spell(&mut self, role: Role) -> String {
        let mut options: Vec<String> = vec![
            role.primitive().to_string(),
            role.primitive().to_string(),
            role.alias().to_string(),
        ];
        if let Some(a) = role.active() {
            options.push(a.to_string());
        }
        for (i, (r, _)) in self.mutable.iter().enumerate() {
            if *r == role {
                options.push(format!("{} ", MUTABLE_NAMES[i]));
                options.push(format!("{} ", MUTABLE_NAMES[i]));
            }
        }
        self.rng.pick(&options).clone()
    }

    fn look(&mut self) -> Item {
        let mut options: Vec<(String, String)> = LOOKALIKES
            .iter()
            .map(|(n, t)| (n.to_string(), t.to_string()))
            .collect();
        for (i, (r, v)) in self.mutable.iter().enumerate() {
            if *r == Role::Macro {
                options.push((MUTABLE_NAMES[i].to_string(), Self::mutable_text(i, *v)));
            }
        }
        let (name, text) = self.rng.pick(&options).clone();
        Item::Look { name, text }
    }

    /// Redefine one of the mutable names (executed at top level between two trees).
    pub fn redefinition(&mut self) -> Item {
        let which = self.rng.usize_below(2);
        let role = *self.rng.pick(&[
            Role::IfTrue,
            Role::IfFalse,
            Role::Fi,
            Role::Fi,
            Role::Else,
            Role::Or,
            Role::IfCase,
            Role::IfOdd,
            Role::Macro,
            Role::Macro,
        ]);
        let name = MUTABLE_NAMES[which];
        if role == Role::Macro {
            self.next_mark += 1;
            let v = self.next_mark;
            self.mutable[which] = (Role::Macro, v);
            Item::Silent(format!("\\def{}{{{}}}", name, Self::mutable_text(which, v)))
        } else {
            self.mutable[which] = (role, 0);
            // \let through the primitive or through the static alias: same meaning
            let src = if self.rng.coin() {
                role.primitive()
            } else {
                role.alias()
            };
            let eq = if self.rng.coin() { "=" } else { "" };
            Item::Silent(format!("\\let{}{}{}", name, eq, src))
        }
    }

    pub fn value(&mut self) -> i32 {
        match self.rng.below(10) {
            0..=5 => *self.rng.pick(&BOUNDARY),
            6 => *self.rng.pick(&REGISTERS),
            7 => self.rng.range_i32(-20, 20),
            _ => {
                let v = self.rng.next_u32() as i32;
                if v == i32::MIN {
                    i32::MAX
                } else {
                    v
                }
            }
        }
    }

    /// Source text of the number `v` WITHOUT terminator.
    pub fn number_src(&mut self, v: i32) -> (String, bool) {
        // register forms
        if self.rng.chance(2, 5) {
            if let Some(i) = REGISTERS.iter().position(|r| *r == v) {
                return (format!("\\count{} ", i + 1), true);
            }
            if let Some(i) = REGISTERS.iter().position(|r| r.checked_neg() == Some(v)) {
                return (format!("-\\count{} ", i + 1), true);
            }
        }
        let mag = v.unsigned_abs();
        let body = match self.rng.below(6) {
            0 => format!("\"{:X}", mag),
            1 => format!("'{:o}", mag),
            _ => format!("{}", mag),
        };
        let signs = if v < 0 {
            *self.rng.pick(&["-", "-", "-", "---", "- "])
        } else {
            *self.rng.pick(&["", "", "", "--", "+", "-+-"])
        };
        (format!("{signs}{body}"), false)
    }

    fn terminator(&mut self, is_register: bool) -> &'static str {
        if is_register {
            // an internal integer needs no terminator
            *self.rng.pick(&["", "", "\\relax "])
        } else {
            *self.rng.pick(&["\\relax ", "\\relax ", " "])
        }
    }

    fn opener(&mut self, live: bool) -> (Kind, String, usize) {
        // returns kind, opener source, number of branches
        let bare = !live && self.rng.chance(1, 4); // dead conditionals may lack their operands
        match self.rng.weighted(&[2, 2, 4, 4, 4]) {
            0 => (Kind::True, self.spell(Role::IfTrue), 1),
            1 => (Kind::False, self.spell(Role::IfFalse), 1),
            2 => {
                let a = self.value();
                let b = match self.rng.below(6) {
                    0 | 1 => a,
                    2 => a.saturating_add(1),
                    3 => a.saturating_sub(1).max(-i32::MAX),
                    _ => self.value(),
                };
                let o = *self.rng.pick(&[Ordering::Less, Ordering::Equal, Ordering::Greater]);
                let mut s = self.spell(Role::IfNum);
                if !bare {
                    let (sa, _) = self.number_src(a);
                    let (sb, rb) = self.number_src(b);
                    s.push_str(&sa);
                    if self.rng.chance(1, 5) && !sa.ends_with(' ') {
                        s.push(' ');
                    }
                    s.push(match o {
                        Ordering::Less => '<',
                        Ordering::Equal => '=',
                        Ordering::Greater => '>',
                    });
                    if self.rng.chance(1, 6) {
                        s.push(' ');
                    }
                    s.push_str(&sb);
                    s.push_str(self.terminator(rb));
                }
                (Kind::Num(a, o, b), s, 1)
            }
            3 => {
                let n = self.value();
                let mut s = self.spell(Role::IfOdd);
                if !bare {
                    let (sn, r) = self.number_src(n);
                    s.push_str(&sn);
                    s.push_str(self.terminator(r));
                }
                (Kind::Odd(n), s, 1)
            }
            _ => {
                let k = 1 + self.rng.weighted(&[2, 3, 3, 2]);
                let n = match self.rng.below(12) {
                    0 => -1,
                    1 => *self.rng.pick(&[-7, -2147483647, 2147483647, 100, 255]),
                    2 => k as i32,
                    3 => k as i32 + 1,
                    _ => self.rng.range_i32(0, k as i32 - 1),
                };
                let mut s = self.spell(Role::IfCase);
                if !bare {
                    let (sn, r) = self.number_src(n);
                    s.push_str(&sn);
                    s.push_str(self.terminator(r));
                }
                (Kind::Case(n), s, k)
            }
        }
    }

    pub fn cond(&mut self, depth: u32, live: bool) -> Cond {
        let (kind, opener, k) = self.opener(live);
        let with_else = self.rng.chance(13, 20);
        let mut c = Cond {
            kind,
            opener,
            branches: vec![],
            else_: if with_else { Some(vec![]) } else { None },
            ors: (1..k).map(|_| self.spell(Role::Or)).collect(),
            else_src: self.spell(Role::Else),
            fi_src: self.spell(Role::Fi),
        };
        // a placeholder for every branch so that select() works before the bodies exist
        c.branches = vec![vec![]; k];
        let sel_t = c.select(OddRule::Tex);
        let sel_d = c.select(OddRule::RustRemainder);
        for i in 0..k {
            let l = live && (sel_t == Sel::Branch(i) || sel_d == Sel::Branch(i));
            c.branches[i] = self.items(depth, l, false);
        }
        if with_else {
            let l = live && (sel_t == Sel::Else || sel_d == Sel::Else);
            c.else_ = Some(self.items(depth, l, false));
        }
        c
    }

    /// A branch body. `depth` = number of conditionals around it.
    pub fn items(&mut self, depth: u32, live: bool, must_cond: bool) -> Vec<Item> {
        let mut v = vec![];
        if self.rng.chance(9, 10) {
            v.push(self.mark());
        }
        let n = self.rng.below(if live { 4 } else { 5 }) as usize;
        let mut have_cond = false;
        for j in 0..n.max(usize::from(must_cond)) {
            self.budget -= 1;
            let r = self.rng.below(100);
            let force = must_cond && !have_cond && j + 1 >= n.max(1);
            if force || (r < 45 && depth < self.max_depth && self.budget > 0) {
                let c = self.cond(depth + 1, live);
                v.push(Item::Cond(Box::new(c)));
                have_cond = true;
                continue;
            }
            if live {
                match r {
                    0..=79 => v.push(self.mark()),
                    80..=87 => v.push(self.look()),
                    88..=93 => v.push(Item::Silent("\\relax ".into())),
                    _ => {
                        let inner = self.items(depth, true, false);
                        v.push(Item::Group(inner));
                    }
                }
            } else {
                match r {
                    0..=59 => v.push(self.mark()),
                    60..=71 => v.push(self.look()),
                    _ => v.push(Item::Junk(self.rng.pick(&DEAD_JUNK).to_string())),
                }
            }
        }
        v
    }
}

/// Plain conditional with fixed spelling (for the enumerated phase and calibration).
pub fn plain(kind: Kind, opener: String, branches: Vec<Vec<Item>>, else_: Option<Vec<Item>>) -> Item {
    let k = branches.len();
    Item::Cond(Box::new(Cond {
        kind,
        opener,
        branches,
        else_,
        ors: (1..k).map(|_| "\\or ".to_string()).collect(),
        else_src: "\\else ".into(),
        fi_src: "\\fi ".into(),
    }))
}
