//! Monitor for property C07: conditionals deliver only the selected branch; `\expandafter` acts on
//! one token (optimised and simple implementations indistinguishable); `\noexpand` suppresses
//! exactly one expansion. (design: /verif/DESIGN.md §6 C07; notes: ../NOTES.md)
//!
//! Phases
//!   cond-enum  exhaustive boundary table: every `\ifodd n`, `\ifnum a R b`, `\ifcase n` over
//!              boundary operands in several spellings, one program per chunk
//!   cond-tree  random conditional trees of depth 0..6 with unique markers, dead text full of
//!              unbalanced braces / nested conditionals / aliases / look-alikes, evaluated directly
//!              by the generator; afterwards a lone `\fi` must raise exactly one error
//!   xa-enum    `\xa^k1\a\xa^k2\b\xa^k3\c\xa^k4\d` for all k1..k3 in 0..7, k4 in 0..1, three macro
//!              sets, with and without `\let` aliases: simple VM = optimized VM = reference expander
//!   xa-macro   random streams over macros/`\noexpand`/groups: differential + reference expander
//!   xa-mixed   random streams with `\the`, conditionals too: differential only

pub mod cond;
pub mod xa;

use cond::{Gen, Item, Kind, OddRule, Stats};
use std::cmp::Ordering;
use vcore::*;
use vmodels::expand::{delivered_text_until_unmatched, Delivered, ExpandError, Expander, Meaning, NoexpandRule};
use vmodels::macrocall::{lex_line, to_source, Tok, TrimRule};
use vstate::{Event, Outcome, VmOptions};
use xa::{Flavor, MacroSet, StreamStats};

pub struct M;
pub static MONITOR: M = M;

const FINDING_IFODD: &str = "C07-ifodd-negative-odd";
const FINDING_NOEXPAND: &str = "C07-noexpand-marker-lost-under-expandafter";
const FI_ERROR: &str = "unexpected `fi` command";

// ------------------------------------------------------------------------------------------------
// conditionals
// ------------------------------------------------------------------------------------------------

struct CondRun {
    outcome: Outcome,
    out: String,
    events: Vec<Event>,
    fi_outcome: Outcome,
    fi_out: String,
    fi_events: Vec<Event>,
}

fn run_cond_program(src: &str) -> Result<CondRun, PanicInfo> {
    catch(|| {
        let mut vm = vstate::new_vm(&VmOptions::default());
        let outcome = vstate::run(&mut vm, "prog.tex", src);
        let out = vstate::take_out(&mut vm);
        let events = vstate::take_events(&mut vm);
        // the branch stack must be empty now: a lone \fi is an error, exactly one
        let fi_outcome = vstate::run(&mut vm, "fi.tex", "\\scrollmode\\fi Z%");
        let fi_out = vstate::take_out(&mut vm);
        let fi_events = vstate::take_events(&mut vm);
        CondRun {
            outcome,
            out,
            events,
            fi_outcome,
            fi_out,
            fi_events,
        }
    })
}

fn record_stats(st: &Stats, obs: &mut Obs) {
    const KINDS: [&str; 5] = ["iftrue", "iffalse", "ifnum", "ifodd", "ifcase"];
    for (i, k) in KINDS.iter().enumerate() {
        obs.add(&format!("cond:live:{k}"), st.live_conds[i]);
    }
    obs.add("cond:dead-conditionals", st.dead_conds);
    obs.add(&format!("cond:max-live-depth={}", st.max_live_depth), 1);
    if st.max_depth >= 5 {
        obs.count("cond:programs-with-depth>=5");
    }
    obs.add("cond:aliases-live", st.aliases_live);
    obs.add("cond:aliases-dead", st.aliases_dead);
    obs.add("cond:redefinable-name-used-as-conditional", st.mutable_names_as_cond);
    obs.add("cond:lookalikes-dead", st.lookalikes_dead);
    obs.add("cond:lookalikes-live", st.lookalikes_live);
    obs.add("cond:dead-unbalanced-braces", st.dead_unbalanced_braces);
    const LOOPS: [&str; 4] = ["false_case", "if_case", "else", "or"];
    for (i, l) in LOOPS.iter().enumerate() {
        obs.add(&format!("cond:skipped-by:{l}"), st.skip_loop[i]);
        obs.add(&format!("cond:skipped-by:{l}:with-nested-conditionals"), st.skip_loop_nested[i]);
    }
    obs.add("cond:ifodd-negative-odd-live", st.ifodd_negative_odd_live);
    obs.add("cond:ifodd-negative-even-live", st.ifodd_negative_even_live);
    obs.add("cond:ifnum-boundary-live", st.ifnum_boundary_live);
    obs.add("cond:ifcase-out-of-range-live", st.ifcase_out_of_range_live);
    obs.add("cond:ifcase-negative-live", st.ifcase_negative_live);
    obs.add("cond:register-operands-live", st.register_operands_live);
    obs.add("cond:redefinitions-between-trees", st.redefinitions);
    obs.add("cond:markers-live", st.markers_live);
    obs.add("cond:markers-dead", st.markers_dead);
}

/// Run a program made of `items` and decide.
fn check_cond_program(items: &[Item], class: &str, obs: &mut Obs) {
    let mut body = String::new();
    cond::render(items, &mut body);
    let src = format!("{}{}%", cond::preamble(), body);
    let mut want = String::new();
    if !cond::eval(items, OddRule::Tex, &mut want) {
        obs.inconclusive("generator put dead text on TeX's path");
        return;
    }
    let mut st = Stats::default();
    cond::live_stats(items, OddRule::Tex, 0, &mut st);

    let run = match run_cond_program(&src) {
        Ok(r) => r,
        Err(p) => {
            obs.repo_panic(&p, json!({"source": src}));
            return;
        }
    };
    obs.count("cond:programs");
    obs.count(&format!("cond:programs:{class}"));
    record_stats(&st, obs);
    obs.nontrivial(&src);
    if obs.wants_sample() {
        obs.sample(json!({"source": body, "expected_out": want, "observed_out": run.out,
            "lone_fi": {"out": run.fi_out, "events": format!("{:?}", run.fi_events)}}));
    }

    let detail = |dev: Option<&str>| {
        json!({
            "source": src, "tex_out": want, "deviation_model_out": dev,
            "observed": {"outcome": format!("{:?}", run.outcome), "out": run.out, "events": format!("{:?}", run.events)},
            "lone_fi": {"outcome": format!("{:?}", run.fi_outcome), "out": run.fi_out, "events": format!("{:?}", run.fi_events)},
        })
    };
    let fi_ok = run.fi_outcome.is_ok()
        && run.fi_out == "Z"
        && run.fi_events == vec![Event::Recovered(FI_ERROR.to_string())];
    let clean = run.outcome.is_ok() && run.events.is_empty();
    if clean && run.out == want {
        if fi_ok {
            obs.count("cond:lone-fi-raised-exactly-one-error");
        } else {
            obs.violation("C07:branch-stack-not-empty-after-program", detail(None));
        }
        return;
    }
    // known finding: \ifodd on a negative odd number
    if st.ifodd_negative_odd_live > 0 {
        let mut dev = String::new();
        if cond::eval(items, OddRule::RustRemainder, &mut dev) && clean && run.out == dev && fi_ok {
            obs.known(FINDING_IFODD, detail(Some(&dev)));
            return;
        }
    }
    let what = if !run.outcome.is_ok() {
        "error-in-well-nested-conditionals"
    } else if !run.events.is_empty() {
        "recovered-error-in-well-nested-conditionals"
    } else if run.out.len() > want.len() {
        "tokens-of-unselected-branch-delivered"
    } else {
        "selected-branch-not-delivered-exactly"
    };
    obs.violation(format!("C07:{what}"), detail(None));
}

// --- enumerated boundary table -----------------------------------------------------------------

const ODD_VALUES: [i32; 44] = [
    0, 1, 2, 3, 4, 5, 6, 7, -1, -2, -3, -4, -5, -6, -7, 255, -255, 256, -256, 32767, -32767, 32768,
    -32768, 65535, -65535, 65536, -65536, 1073741823, -1073741823, 1073741824, -1073741824,
    2147483645, -2147483645, 2147483646, -2147483646, 2147483647, -2147483647, 99, -99, 100, -100,
    12345, -12345, -54321,
];
const NUM_VALUES: [i32; 13] = [
    0,
    1,
    -1,
    2,
    -2,
    3,
    -3,
    1073741824,
    -1073741824,
    2147483646,
    -2147483646,
    2147483647,
    -2147483647,
];
const CASE_VALUES: [i32; 11] = [-2147483647, -2, -1, 0, 1, 2, 3, 4, 5, 6, 2147483647];

fn literal(v: i32, form: u64) -> String {
    let sign = if v < 0 { "-" } else { "" };
    let mag = v.unsigned_abs();
    match form {
        0 => format!("{sign}{mag}\\relax "),
        1 => format!("{sign}\"{mag:X}\\relax "),
        2 => format!("{sign}'{mag:o} "),
        _ => {
            // through a register: \count20 is loaded just before the conditional
            format!("{sign}\\count20 ")
        }
    }
}

fn load_register(v: i32, form: u64, items: &mut Vec<Item>) {
    if form == 3 {
        items.push(Item::Silent(format!("\\count20={}\\relax ", v.unsigned_abs())));
    }
}

const ENUM_ODD: u64 = 44 * 4 * 2;
const ENUM_NUM: u64 = 13 * 13 * 3 * 2;
const ENUM_CASE: u64 = 11 * 5 * 2;
const ENUM_TOTAL: u64 = ENUM_ODD + ENUM_NUM + ENUM_CASE;
const ENUM_CHUNK: u64 = 16;

fn enum_cond_item(j: u64, items: &mut Vec<Item>) {
    let mark = |s: &str| vec![Item::Mark(format!("{s}{j};"))];
    if j < ENUM_ODD {
        let v = ODD_VALUES[(j % 44) as usize];
        let form = (j / 44) % 4;
        let alias = j / (44 * 4) == 1;
        load_register(v, form, items);
        let kw = if alias { "\\Aio " } else { "\\ifodd " };
        items.push(cond::plain(
            Kind::Odd(v),
            format!("{kw}{}", literal(v, form)),
            vec![mark("t")],
            Some(mark("e")),
        ));
        return;
    }
    let j2 = j - ENUM_ODD;
    if j2 < ENUM_NUM {
        let a = NUM_VALUES[(j2 % 13) as usize];
        let b = NUM_VALUES[((j2 / 13) % 13) as usize];
        let o = [Ordering::Less, Ordering::Equal, Ordering::Greater][((j2 / 169) % 3) as usize];
        let form = j2 / (169 * 3); // 0: decimal literals, 1: left operand through a register
        let rel = match o {
            Ordering::Less => '<',
            Ordering::Equal => '=',
            Ordering::Greater => '>',
        };
        let left = if form == 1 {
            load_register(a, 3, items);
            literal(a, 3)
        } else {
            format!("{a}")
        };
        items.push(cond::plain(
            Kind::Num(a, o, b),
            format!("\\ifnum {left}{rel}{b}\\relax "),
            vec![mark("t")],
            Some(mark("e")),
        ));
        return;
    }
    let j3 = j2 - ENUM_NUM;
    let n = CASE_VALUES[(j3 % 11) as usize];
    let k = 1 + ((j3 / 11) % 5) as usize;
    let with_else = j3 / 55 == 1;
    let branches: Vec<Vec<Item>> = (0..k).map(|i| vec![Item::Mark(format!("c{j}.{i};"))]).collect();
    items.push(cond::plain(
        Kind::Case(n),
        format!("\\ifcase {n}\\relax "),
        branches,
        if with_else { Some(mark("e")) } else { None },
    ));
}

// ------------------------------------------------------------------------------------------------
// \expandafter / \noexpand
// ------------------------------------------------------------------------------------------------

#[derive(Debug, Clone, PartialEq, Eq)]
struct XaRun {
    error: Option<String>,
    out: String,
    events: Vec<Event>,
}

/// Run the same streams in a VM with the given `\expandafter`; stops after the first error.
fn run_streams(simple: bool, preamble: &str, streams: &[String]) -> Result<Vec<XaRun>, PanicInfo> {
    catch(|| {
        let opts = VmOptions {
            simple_expandafter: simple,
            record_macros: true,
            ..Default::default()
        };
        let mut vm = vstate::new_vm(&opts);
        let mut runs = vec![];
        let o = vstate::run(&mut vm, "preamble.tex", preamble);
        let out = vstate::take_out(&mut vm);
        let events = vstate::take_events(&mut vm);
        let failed = !o.is_ok();
        runs.push(XaRun {
            error: o.err_title().map(|s| s.to_string()),
            out,
            events,
        });
        if failed {
            return runs;
        }
        for s in streams {
            let o = vstate::run(&mut vm, "stream.tex", s);
            let out = vstate::take_out(&mut vm);
            let events = vstate::take_events(&mut vm);
            let failed = !o.is_ok();
            runs.push(XaRun {
                error: o.err_title().map(|s| s.to_string()),
                out,
                events,
            });
            if failed {
                break;
            }
        }
        runs
    })
}

struct Reference {
    /// text delivered to the main loop (up to an unmatched `}`, if any); None if an undefined
    /// control sequence was delivered (outside the modelled domain)
    out: Option<String>,
    /// a `}` arrived at group depth 0: the real VM stops there ("there is no group to end");
    /// `out` and `events` are what happened before
    unmatched_brace: bool,
    events: Vec<Event>,
    /// why the run stopped early, if it did (then `out`/`events` are what happened before)
    stopped: Option<ExpandError>,
    marker_mattered: u64,
    max_xa_depth: u32,
    expandafters: u64,
    noexpands: u64,
}

fn reference(
    meanings: &std::collections::HashMap<String, Meaning>,
    stream: &[Tok],
    rule: NoexpandRule,
    trim: TrimRule,
) -> Reference {
    let mut e = Expander::new(meanings.clone(), rule);
    e.trim = trim;
    e.budget = 20_000;
    e.push_input(stream);
    let stopped = e.run().err();
    let undefined = e.delivered.iter().any(|d| matches!(d, Delivered::Tok(Tok::Cs(_))));
    let (text, unmatched) = delivered_text_until_unmatched(&e.delivered);
    let n_events = match unmatched {
        Some(i) => e.delivered_after_events[i],
        None => e.events.len(),
    };
    Reference {
        out: if undefined { None } else { Some(text) },
        unmatched_brace: unmatched.is_some(),
        events: e.events[..n_events]
            .iter()
            .map(|m| Event::Macro {
                name: m.name.clone(),
                args: m.args.clone(),
                expansion: m.expansion.clone(),
            })
            .collect(),
        stopped,
        marker_mattered: e.marker_mattered,
        max_xa_depth: e.max_xa_depth,
        expandafters: e.expandafters,
        noexpands: e.noexpands,
    }
}

impl Reference {
    /// Does the observed run equal this prediction? A model run that left its domain because the
    /// input ended inside a command predicts "everything up to there, then an end-of-input error".
    fn matches(&self, run: &XaRun) -> bool {
        let Some(out) = &self.out else { return false };
        if *out != run.out || self.events != run.events {
            return false;
        }
        if self.unmatched_brace {
            return run.error.as_deref() == Some("there is no group to end");
        }
        match (&self.stopped, &run.error) {
            (None, None) => true,
            (Some(ExpandError::OutOfDomain(why)), Some(title)) => {
                (why.contains("runaway") || why.contains("end of input"))
                    && title.starts_with("Unexpected end of input")
            }
            _ => false,
        }
    }

    /// For deviation models only: the model run left the domain in which TeX's behaviour is
    /// defined without error recovery (e.g. a macro is about to take `}` as an undelimited
    /// argument, "Argument of \\c has an extra }" in TeX, silently accepted by texcraft). The
    /// prediction then covers everything *up to* that point: output and macro expansions must
    /// start with the predicted ones.
    fn matches_until_it_leaves_the_domain(&self, run: &XaRun) -> bool {
        let Some(out) = &self.out else { return false };
        match &self.stopped {
            Some(ExpandError::OutOfDomain(why)) if !(why.contains("runaway") || why.contains("end of input")) => {
                !self.unmatched_brace && run.out.starts_with(out.as_str()) && run.events.starts_with(&self.events)
            }
            _ => false,
        }
    }
}

/// One case of the expandafter phases: a macro set, several streams, two VMs (+ reference).
fn check_streams(set: &MacroSet, extra_preamble: &str, streams: &[Vec<Tok>], with_reference: bool, class: &str, obs: &mut Obs) {
    let preamble = match set.preamble() {
        Ok(p) => format!("{p}{extra_preamble}"),
        Err(e) => {
            obs.inconclusive(e);
            return;
        }
    };
    let mut srcs = vec![];
    for s in streams {
        match to_source(s) {
            Some(x) if lex_line(&x) == *s => srcs.push(format!("{x}%")),
            _ => {
                obs.inconclusive("stream cannot be rendered");
                return;
            }
        }
    }
    let simple = run_streams(true, &preamble, &srcs);
    let optimized = run_streams(false, &preamble, &srcs);
    let (simple, optimized) = match (simple, optimized) {
        (Ok(a), Ok(b)) => (a, b),
        (Err(a), Err(b)) => {
            if a.signature() == b.signature() {
                // e.g. \the applied to a non-variable (todo!() in the.rs): a totality matter
                // (property C09), identical in both implementations
                obs.skip("both-implementations-panicked-identically");
                if a.budget {
                    obs.count("identical-panic:step-budget");
                } else {
                    let sig: String = a.signature().chars().take(150).collect();
                    obs.count(&format!("identical-panic:{sig}"));
                }
            } else {
                obs.repo_panic(&a, json!({"preamble": preamble, "streams": srcs, "other_panic": b.signature()}));
            }
            return;
        }
        (Err(p), Ok(_)) | (Ok(_), Err(p)) => {
            let mut d = json!({"preamble": preamble, "streams": srcs});
            d["note"] = json!("only one of the two \\expandafter implementations panicked");
            obs.repo_panic(&p, d);
            obs.violation("C07:expandafter-implementations-differ:panic", json!({"preamble": preamble, "streams": srcs, "panic": p.signature()}));
            return;
        }
    };
    obs.count(&format!("xa:cases:{class}"));
    if simple[0].error.is_some() || !simple[0].out.is_empty() {
        obs.violation(
            "C07:preamble-not-silent",
            json!({"preamble": preamble, "run": format!("{:?}", simple[0])}),
        );
        return;
    }
    // ---- differential: simple vs optimized ------------------------------------------------
    if simple != optimized {
        let i = simple
            .iter()
            .zip(optimized.iter())
            .position(|(a, b)| a != b)
            .unwrap_or(simple.len().min(optimized.len()));
        let what = match (simple.get(i), optimized.get(i)) {
            (Some(a), Some(b)) if a.error != b.error => "error",
            (Some(a), Some(b)) if a.out != b.out => "output",
            (Some(_), Some(_)) => "macro-expansion-events",
            _ => "length",
        };
        obs.violation(
            format!("C07:expandafter-implementations-differ:{what}"),
            json!({"preamble": preamble, "stream": srcs.get(i.saturating_sub(1)),
                   "simple": format!("{:?}", simple.get(i)), "optimized": format!("{:?}", optimized.get(i))}),
        );
        return;
    }
    // ---- per stream evidence + reference ----------------------------------------------------
    let meanings = if with_reference {
        match set.meanings() {
            Ok(m) => Some(m),
            Err(e) => {
                obs.inconclusive(e);
                return;
            }
        }
    } else {
        None
    };
    for (i, run) in optimized.iter().enumerate().skip(1) {
        let stream = &streams[i - 1];
        obs.count("xa:streams-compared");
        obs.count(&format!("xa:streams-compared:{class}"));
        obs.add("xa:macro-events-compared", run.events.len() as u64);
        if run.error.is_some() {
            obs.count("xa:streams-ending-in-identical-error");
        }
        obs.nontrivial(&(&preamble, &srcs[i - 1]));
        if obs.wants_sample() {
            obs.sample(json!({"preamble": preamble, "stream": srcs[i - 1], "out": run.out,
                "error": run.error, "events": format!("{:?}", run.events)}));
        }
        let Some(meanings) = &meanings else { continue };
        let tex = reference(meanings, stream, NoexpandRule::Tex, TrimRule::Tex);
        match &tex.stopped {
            Some(ExpandError::Budget) => {
                // e.g. \def\f#1{#1#1}\f\f : does not terminate in TeX either
                obs.skip("reference-expander:step-budget(non-terminating-stream)");
                continue;
            }
            Some(ExpandError::OutOfDomain(_)) => {
                obs.skip("reference-expander:out-of-domain(runaway/eof)");
                continue;
            }
            None => {}
        }
        if tex.unmatched_brace {
            obs.skip("reference-expander:out-of-domain(unmatched-brace/undefined)");
            continue;
        }
        let Some(tex_out) = &tex.out else {
            obs.skip("reference-expander:out-of-domain(unmatched-brace/undefined)");
            continue;
        };
        obs.count("xa:streams-compared-with-reference");
        obs.add("xa:reference:expandafter-executed", tex.expandafters);
        obs.add("xa:reference:noexpand-executed", tex.noexpands);
        obs.add(&format!("xa:reference:max-expandafter-nesting={}", tex.max_xa_depth.min(8)), 1);
        if tex_out.contains('\\') {
            obs.count("xa:suppressed-token-reached-main-loop");
        }
        if tex.matches(run) {
            continue;
        }
        let detail = |dev: Option<&Reference>| {
            json!({"preamble": preamble, "stream": srcs[i - 1],
                "observed(both implementations)": {"out": run.out, "error": run.error, "events": format!("{:?}", run.events)},
                "tex": {"out": tex_out, "events": format!("{:?}", tex.events)},
                "deviation_model": dev.map(|d| json!({"out": d.out, "stopped": format!("{:?}", d.stopped), "events": format!("{:?}", d.events)}))})
        };
        // Attribution to listed findings: the reference model with exactly one rule replaced
        // by what the code does today must predict the observation exactly.
        //  * C07-noexpand-marker-lost-under-expandafter (trigger: a marker created under
        //    \expandafter suppressed an expansion in the TeX run)
        //  * C02-trim-braces-first-last (property C02's finding, reached here through macro calls;
        //    trigger: the two trimming rules bind different arguments on this stream). Streams
        //    that differ from TeX only by it are outside what this property's oracle can judge
        //    while that defect is present: skipped and counted.
        let mut attributed = false;
        for (rule, trim) in [
            (NoexpandRule::MarkerLostUnderExpandafter, TrimRule::Tex),
            (NoexpandRule::Tex, TrimRule::FirstLastOfDelimited),
            (NoexpandRule::MarkerLostUnderExpandafter, TrimRule::FirstLastOfDelimited),
        ] {
            let base = if trim == TrimRule::Tex {
                None
            } else {
                Some(reference(meanings, stream, NoexpandRule::Tex, trim))
            };
            let trigger_marker = base.as_ref().unwrap_or(&tex).marker_mattered > 0;
            let trigger_trim = base
                .as_ref()
                .map(|b| b.events != tex.events || b.out != tex.out || b.stopped != tex.stopped)
                .unwrap_or(false);
            if rule == NoexpandRule::MarkerLostUnderExpandafter && !trigger_marker {
                continue;
            }
            if trim == TrimRule::FirstLastOfDelimited && !trigger_trim {
                continue;
            }
            let dev = reference(meanings, stream, rule, trim);
            let partial = dev.matches_until_it_leaves_the_domain(run);
            if partial {
                obs.count("xa:deviation-model-run-leaves-domain(prefix-matched)");
            }
            if dev.matches(run) || partial {
                if trim == TrimRule::FirstLastOfDelimited {
                    obs.skip("stream-hits-C02-trim-braces-first-last(exact-deviation-model)");
                }
                if rule == NoexpandRule::MarkerLostUnderExpandafter {
                    obs.known(FINDING_NOEXPAND, detail(Some(&dev)));
                }
                attributed = true;
                break;
            }
        }
        if attributed {
            continue;
        }
        let what = if run.error.is_some() {
            "error"
        } else if run.events != tex.events {
            "expansion-order-or-arguments"
        } else {
            "output"
        };
        obs.violation(format!("C07:differs-from-reference-expander:{what}"), detail(None));
    }
}

// ------------------------------------------------------------------------------------------------
// coverage-guided stage
// ------------------------------------------------------------------------------------------------

/// Entry point of the libFuzzer target `c07_expandafter_source` (harness/vfuzz): byte 0 selects one of the three fixed
/// macro sets, the rest is TeX source run - as up to four lines - on a VM with the optimised `\expandafter` and on a VM
/// with the simple one. Output, error and the recorded macro expansions must be identical (the differential half of
/// `check_streams`; the reference expander needs token-structured input and stays with the generated phases).
pub fn fuzz_one(data: &[u8], obs: &mut Obs) {
    let Some((sel, rest)) = data.split_first() else {
        return;
    };
    let Ok(text) = std::str::from_utf8(rest) else {
        return;
    };
    let set = xa::fixed_macro_set((*sel % 3) as u64);
    let Ok(preamble) = set.preamble() else {
        return;
    };
    let srcs: Vec<String> = text.split('\n').take(4).map(|l| l.to_string()).collect();
    let simple = run_streams(true, &preamble, &srcs);
    let optimized = run_streams(false, &preamble, &srcs);
    match (simple, optimized) {
        (Ok(a), Ok(b)) => {
            obs.count("xa:fuzz-cases");
            if a != b {
                let i = a.iter().zip(b.iter()).position(|(x, y)| x != y).unwrap_or(a.len().min(b.len()));
                let what = match (a.get(i), b.get(i)) {
                    (Some(x), Some(y)) if x.error != y.error => "error",
                    (Some(x), Some(y)) if x.out != y.out => "output",
                    (Some(_), Some(_)) => "macro-expansion-events",
                    _ => "length",
                };
                obs.violation(
                    format!("C07:expandafter-implementations-differ:{what}"),
                    json!({"preamble": preamble, "streams": srcs, "simple": format!("{:?}", a.get(i)), "optimized": format!("{:?}", b.get(i))}),
                );
            }
        }
        (Err(a), Err(b)) => {
            if a.signature() != b.signature() {
                obs.repo_panic(&a, json!({"preamble": preamble, "streams": srcs, "other_panic": b.signature()}));
            }
        }
        (Err(p), Ok(_)) | (Ok(_), Err(p)) => {
            if !p.budget {
                obs.violation(
                    "C07:expandafter-implementations-differ:panic",
                    json!({"preamble": preamble, "streams": srcs, "panic": p.signature()}),
                );
            }
        }
    }
}

/// Seed corpus (generated streams of all flavours over the three fixed macro sets) and dictionary.
pub fn fuzz_seeds() -> vcore::fuzzglue::Seeds {
    let mut inputs = vec![];
    for k in 0..600u64 {
        let mut rng = Rng::new(0xC07 + k);
        let set = xa::fixed_macro_set(k % 3);
        let mut st = StreamStats::default();
        let flavor = if k % 2 == 0 { Flavor::MacroOnly } else { Flavor::Mixed };
        let s = xa::random_stream(&mut rng, &set, flavor, &mut st);
        if let Some(src) = to_source(&s) {
            let mut v = vec![(k % 3) as u8];
            v.extend_from_slice(src.as_bytes());
            inputs.push(v);
        }
    }
    let dictionary = [
        "\\expandafter", "\\noexpand", "\\xb", "\\nx", "\\a", "\\b", "\\c", "\\d", "\\z", "\\notes", "\\end", "\\relax", "\\def", "\\let",
        "\\csname", "\\endcsname", "\\the", "\\number", "\\string", "\\iftrue", "\\iffalse", "\\else", "\\fi", "\\ifx", "\\ifnum", "{", "}", "#1", "%",
        "\\count1", "\\romannumeral", "\\uppercase", "\\edef", "\\toks0={", "\\toks0={PQ}\\toks0={R}", "\\the\\toks0 ",
    ]
    .iter()
    .map(|s| s.to_string())
    .collect();
    vcore::fuzzglue::Seeds { inputs, dictionary }
}

fn stream_stats(st: &StreamStats, obs: &mut Obs) {
    obs.add("xa:expandafter-tokens-generated", st.xa_tokens);
    obs.add("xa:expandafter-alias-tokens-generated", st.xa_aliases);
    for (k, n) in st.chains_by_len.iter().enumerate() {
        if *n > 0 {
            obs.add(&format!("xa:chains-of-length={k}"), *n);
        }
    }
    obs.add("xa:noexpand-generated", st.noexpand);
    obs.add("xa:macros-with-parameters-generated", st.macros_with_params);
    obs.add("xa:the-generated", st.the);
    obs.add("xa:conditionals-generated", st.conditionals);
    obs.add("xa:toks-register-assignments-generated", st.toks_assignments);
    if st.truncated {
        obs.count("xa:truncated-streams");
    }
}

const XA_ENUM_CASES: u64 = 3 * 2 * 2 * 512;
// (no macro inside the braces: texcraft expands macros while scanning `\toks0={...}`, a
// defect outside this property, see NOTES.md)
const MIXED_PREAMBLE: &str = "\\count1=17\\relax \\count2=-5\\relax \\toks0={Tt}%\n";

// ------------------------------------------------------------------------------------------------
// calibration tables (transcribed from the repository's unit tests)
// ------------------------------------------------------------------------------------------------

/// crates/texlang-stdlib/src/expansion.rs, `expandafter_test!` table (PREFIX ... POSTFIX) and the
/// `\noexpand` cases. `\xa` is `\expandafter` there.
const XA_PREFIX: &str = r"\def\mk#1#2{\def#1##1\notes##2\end{##1\notes##2#2\end}}\mk\a a\mk\b b\mk\c c\mk\d d\def\notes#1\end{#1}";
const XA_POSTFIX: &str = r"\notes\end";
const XA_TABLE: &[(&str, &str)] = &[
    (r"\let\other=\xa \other\noexpand\xa\xa\xa\a\b", r"\noexpand\xa ba"),
    (r"\xa\a\b", "ba"),
    (r"\xa\xa\xa\a\xa\b\c", "cba"),
    (r"\xa\xa\xa\xa\xa\xa\xa\a\xa\xa\xa\b\xa\c\d", "dcba"),
    (r"\a\b\c\d", "abcd"),
    (r"\a\b\xa\c\d", "abdc"),
    (r"\a\xa\b\c\d", "acbd"),
    (r"\a\xa\xa\xa\b\c\d", "acdb"),
    (r"\a\xa\b\xa\c\d", "adbc"),
    (r"\a\xa\xa\xa\b\xa\c\d", "adcb"),
    (r"\xa\a\b\c\d", "bacd"),
    (r"\xa\a\b\xa\c\d", "badc"),
    (r"\xa\xa\xa\a\b\c\d", "bcad"),
    (r"\xa\xa\xa\xa\xa\xa\xa\a\b\c\d", "bcda"),
    (r"\xa\xa\xa\a\b\xa\c\d", "bdac"),
    (r"\xa\xa\xa\xa\xa\xa\xa\a\b\xa\c\d", "bdca"),
    (r"\xa\a\xa\b\c\d", "cabd"),
    (r"\xa\a\xa\xa\xa\b\c\d", "cadb"),
    (r"\xa\xa\xa\a\xa\b\c\d", "cbad"),
    (r"\xa\xa\xa\xa\xa\xa\xa\a\xa\xa\xa\b\c\d", "cdba"),
    (r"\xa\xa\xa\a\xa\xa\xa\b\c\d", "cdab"),
    (r"\xa\a\xa\b\xa\c\d", "dabc"),
    (r"\xa\a\xa\xa\xa\b\xa\c\d", "dacb"),
    (r"\xa\xa\xa\a\xa\b\xa\c\d", "dbac"),
    (r"\xa\xa\xa\xa\xa\xa\xa\a\xa\b\xa\c\d", "dbca"),
    (r"\xa\xa\xa\a\xa\xa\xa\b\xa\c\d", "dcab"),
    (r"\xa\xa\xa\xa\xa\xa\xa\a\xa\xa\xa\b\xa\c\d", "dcba"),
    (r"\xa\xa\xa\a\xa\xa\b\c\d", "bdac"),
];
/// the plain cases of the same file (no PREFIX/POSTFIX)
const NOEXPAND_TABLE: &[(&str, &str)] = &[
    (r"\def\a{Hello}\noexpand\a", r"\noexpand\a"),
    (r"\def\a#1\b{Hello '#1'}\def\b{World}\a\b", "Hello ''"),
    (r"\def\a#1\b{Hello '#1'}\def\b{World}\a\b\b", "Hello ''World"),
    (r"\def\a#1\b{Hello '#1'}\def\b{World}\xa\a\b\b", "Hello 'World'"),
    (r"\def\a#1\b{Hello '#1'}\def\b{World}\xa\a\noexpand\b\b", "Hello ''World"),
    (r"\def\A{\B}\def\B{Hello}\xa\noexpand\A", r"\noexpand\B"),
];

fn calibrate_expander(obs: &mut Obs) {
    let run = |src: &str| -> Result<Vec<Tok>, String> {
        let mut m = Expander::primitives();
        m.insert("xa".into(), Meaning::ExpandAfter);
        let mut e = Expander::new(m, NoexpandRule::Tex);
        e.push_input(&lex_line(src));
        e.run().map_err(|e| format!("{e:?}"))?;
        Ok(vmodels::expand::delivered_tokens(&e.delivered))
    };
    let mut check = |lhs: String, rhs: String| {
        // the repository's expansion_equality_tests expand both sides and compare the tokens
        match (run(&lhs), run(&rhs)) {
            (Ok(a), Ok(b)) if a == b => obs.count("calibration:expander-cases-agreeing"),
            (a, b) => obs.inconclusive(format!(
                "calibration: reference expander disagrees with the repo's unit test `{lhs}`: {a:?} vs {b:?}"
            )),
        }
    };
    for (l, r) in XA_TABLE {
        check(format!("{XA_PREFIX}{l}{XA_POSTFIX}"), format!("{XA_PREFIX}{r}{XA_POSTFIX}"));
    }
    for (l, r) in NOEXPAND_TABLE {
        check(l.to_string(), r.to_string());
    }
}

/// crates/texlang-stdlib/src/conditional.rs `expansion_equality_tests`: (tree, source, output).
fn calibrate_conditionals(obs: &mut Obs) {
    let m = |s: &str| vec![Item::Mark(s.to_string())];
    let t = |k: Kind, opener: &str, b: Vec<Vec<Item>>, e: Option<Vec<Item>>| cond::plain(k, opener.to_string(), b, e);
    let num = |a: i32, o: Ordering, b: i32, rel: char| {
        t(Kind::Num(a, o, b), &format!("\\ifnum {a}{rel}{b}"), vec![m("a")], Some(m("b")))
    };
    let cases: Vec<(Vec<Item>, &str, &str)> = vec![
        (vec![t(Kind::True, "\\iftrue ", vec![m("a")], Some(m("b"))), Item::Mark("c".into())], r"\iftrue a\else b\fi c", "ac"),
        (vec![t(Kind::True, "\\iftrue ", vec![m("a")], None), Item::Mark("c".into())], r"\iftrue a\fi c", "ac"),
        (
            vec![
                t(
                    Kind::True,
                    "\\iftrue ",
                    vec![m("a")],
                    Some(vec![
                        Item::Mark("b".into()),
                        t(Kind::True, "\\iftrue ", vec![vec![]], Some(m("c"))),
                        Item::Mark("d".into()),
                    ]),
                ),
                Item::Mark("e".into()),
            ],
            r"\iftrue a\else b\iftrue \else c\fi d\fi e",
            "ae",
        ),
        (vec![t(Kind::False, "\\iffalse ", vec![m("a")], Some(m("b"))), Item::Mark("c".into())], r"\iffalse a\else b\fi c", "bc"),
        (vec![t(Kind::False, "\\iffalse ", vec![m("a")], None), Item::Mark("c".into())], r"\iffalse a\fi c", "c"),
        (
            vec![
                t(
                    Kind::False,
                    "\\iffalse ",
                    vec![vec![t(Kind::True, "\\iftrue ", vec![m("a")], Some(m("b"))), Item::Mark("c".into())]],
                    Some(m("d")),
                ),
                Item::Mark("e".into()),
            ],
            r"\iffalse \iftrue a\else b\fi c\else d\fi e",
            "de",
        ),
        (
            vec![
                t(
                    Kind::False,
                    "\\iffalse ",
                    vec![m("a")],
                    Some(vec![
                        Item::Mark("b".into()),
                        t(Kind::True, "\\iftrue ", vec![m("c")], Some(m("d"))),
                        Item::Mark("e".into()),
                    ]),
                ),
                Item::Mark("f".into()),
            ],
            r"\iffalse a\else b\iftrue c\else d\fi e\fi f",
            "bcef",
        ),
        (
            vec![
                t(
                    Kind::True,
                    "\\iftrue ",
                    vec![vec![
                        Item::Mark("a".into()),
                        t(Kind::False, "\\iffalse ", vec![m("b")], Some(m("c"))),
                        Item::Mark("d".into()),
                    ]],
                    Some(m("e")),
                ),
                Item::Mark("f".into()),
            ],
            r"\iftrue a\iffalse b\else c\fi d\else e\fi f",
            "acdf",
        ),
        (vec![num(4, Ordering::Less, 5, '<'), Item::Mark("c".into())], r"\ifnum 4<5a\else b\fi c", "ac"),
        (vec![num(5, Ordering::Less, 4, '<'), Item::Mark("c".into())], r"\ifnum 5<4a\else b\fi c", "bc"),
        (vec![num(4, Ordering::Equal, 4, '='), Item::Mark("c".into())], r"\ifnum 4=4a\else b\fi c", "ac"),
        (vec![num(5, Ordering::Equal, 4, '='), Item::Mark("c".into())], r"\ifnum 5=4a\else b\fi c", "bc"),
        (vec![num(5, Ordering::Greater, 4, '>'), Item::Mark("c".into())], r"\ifnum 5>4a\else b\fi c", "ac"),
        (vec![num(4, Ordering::Greater, 5, '>'), Item::Mark("c".into())], r"\ifnum 4>5a\else b\fi c", "bc"),
        (vec![t(Kind::Odd(3), "\\ifodd 3", vec![m("a")], Some(m("b"))), Item::Mark("c".into())], r"\ifodd 3a\else b\fi c", "ac"),
        (vec![t(Kind::Odd(4), "\\ifodd 4", vec![m("a")], Some(m("b"))), Item::Mark("c".into())], r"\ifodd 4a\else b\fi c", "bc"),
        (vec![t(Kind::Case(0), "\\ifcase 0 ", vec![m("a")], Some(m("b"))), Item::Mark("c".into())], r"\ifcase 0 a\else b\fi c", "ac"),
        (vec![t(Kind::Case(0), "\\ifcase 0 ", vec![m("a"), m("b")], Some(m("c"))), Item::Mark("d".into())], r"\ifcase 0 a\or b\else c\fi d", "ad"),
        (vec![t(Kind::Case(1), "\\ifcase 1 ", vec![m("a"), m("b")], Some(m("c"))), Item::Mark("d".into())], r"\ifcase 1 a\or b\else c\fi d", "bd"),
        (vec![t(Kind::Case(1), "\\ifcase 1 ", vec![m("a"), m("b"), m("c")], Some(m("d"))), Item::Mark("e".into())], r"\ifcase 1 a\or b\or c\else d\fi e", "be"),
        (vec![t(Kind::Case(1), "\\ifcase 1 ", vec![m("a")], Some(m("b"))), Item::Mark("c".into())], r"\ifcase 1 a\else b\fi c", "bc"),
        (vec![t(Kind::Case(2), "\\ifcase 2 ", vec![m("a"), m("b")], Some(m("c"))), Item::Mark("d".into())], r"\ifcase 2 a\or b\else c\fi d", "cd"),
        (vec![t(Kind::Case(3), "\\ifcase 3 ", vec![m("a"), m("b"), m("c")], None), Item::Mark("d".into())], r"\ifcase 3 a\or b\or c\fi d", "d"),
        (
            vec![
                t(
                    Kind::Case(1),
                    "\\ifcase 1 ",
                    vec![
                        m("a"),
                        vec![
                            Item::Mark("b".into()),
                            t(Kind::Case(1), "\\ifcase 1 ", vec![m("c"), m("d"), m("e")], Some(m("f"))),
                            Item::Mark("g".into()),
                        ],
                        m("h"),
                    ],
                    None,
                ),
                Item::Mark("i".into()),
            ],
            r"\ifcase 1 a\or b\ifcase 1 c\or d\or e\else f\fi g\or h\fi i",
            "bdgi",
        ),
    ];
    let strip = |s: &str| s.chars().filter(|c| *c != ' ').collect::<String>();
    for (items, src, want) in cases {
        let mut r = String::new();
        cond::render(&items, &mut r);
        let mut out = String::new();
        let ok = cond::eval(&items, OddRule::Tex, &mut out);
        if ok && strip(&r) == strip(src) && out == want {
            obs.count("calibration:conditional-cases-agreeing");
        } else {
            obs.inconclusive(format!(
                "calibration: conditional evaluator disagrees with the repo's unit test `{src}`: rendered `{r}`, evaluated `{out}`, listed `{want}`"
            ));
        }
    }
}

impl Monitor for M {
    fn id(&self) -> &'static str {
        "C07"
    }

    fn rule(&self) -> String {
        "cond-*: a case is one program (several conditional trees, depth 0..6, over \\iftrue/\\iffalse/\\ifnum/\\ifodd/\\ifcase \
         spelled with primitives, \\let-aliases or redefinable names; every branch carries unique markers; unselected branches \
         hold unbalanced braces, nested conditionals, aliases, \\def-ined look-alikes, undefined names) followed by a lone \\fi; \
         non-trivial = contains at least one conditional, distinct by source text. cond-enum enumerates every \\ifodd n (44 \
         boundary values x 4 spellings x primitive/alias), \\ifnum a R b (13x13 boundary values x 3 relations x 2 spellings), \
         \\ifcase n (11 values x 1..5 cases x with/without \\else). xa-*: a case is one macro set run in two VMs (simple / optimized \
         \\expandafter) on the same streams: atoms (macros with 0-2 undelimited or one delimited parameter, characters, groups, \
         \\noexpand, in xa-mixed also \\the and conditionals), each preceded by a chain of 0..7 \\expandafter tokens (primitive name, \
         \\let alias, or mixed); each stream is one evaluation, distinct by (preamble, stream). xa-enum enumerates \
         \\xa^k1\\a\\xa^k2\\b\\xa^k3\\c\\xa^k4\\d for k1..k3 in 0..7, k4 in 0..1, 3 macro sets, 2 alias modes."
            .into()
    }

    fn assumptions(&self) -> Vec<String> {
        vec![
            "Conditional oracle = direct evaluation of the generated tree (TeX §498-§510); calibrated against the expansion_equality_tests of conditional.rs.".into(),
            "Numbers are always terminated (\\relax, a space, or an internal register), signs/hex/octal forms are plain TeX §440-§444; -2^31 is not generated (not writable in TeX).".into(),
            "\\or occurs only directly inside \\ifcase (elsewhere TeX reports 'Extra \\or'); redefinitions of the redefinable names happen only at top level between trees.".into(),
            "expandafter oracle 1 = differential run of the two real implementations (output, error title, Event::Macro sequence); identical panics in both (e.g. the.rs todo!) are outside this property and skipped.".into(),
            "expandafter oracle 2 (macro-only streams) = vmodels::expand, a transcription of TeX §366-§369/§358/§380, calibrated against the expandafter/noexpand tables of expansion.rs; streams that run away, end inside a command or deliver an unmatched } are out of its domain and skipped.".into(),
        ]
    }

    fn phases(&self, tier: Tier) -> Vec<Phase> {
        vec![
            Phase::new("cond-enum", ENUM_TOTAL.div_ceil(ENUM_CHUNK)).batch(4).exhaustive(
                "every \\ifodd n (44 boundary values, decimal/hex/octal/register, primitive and \\let alias), every \\ifnum a R b over 13x13 boundary values x {<,=,>} x {literal, register}, every \\ifcase n for 11 values x 1..5 cases x with/without \\else",
            ),
            Phase::new("cond-tree", tier.pick(60_000, 1_500_000)).batch(64),
            Phase::new("xa-enum", XA_ENUM_CASES).batch(32).exhaustive(
                "\\xa^k1\\a\\xa^k2\\b\\xa^k3\\c\\xa^k4\\d for all k1,k2,k3 in 0..7, k4 in 0..1 x 3 macro sets (parameterless, the repo's accumulator macros, mixed with parameters and \\noexpand) x {only \\expandafter, alternating with a \\let alias}",
            ),
            Phase::new("xa-long", 16 * 2 * 3 * 3).batch(8).exhaustive(
                "single chains (\\xa f)^n \\xa\\a\\b for n in {8,15,16,17,31,32,33,34,63,64,65,100,255,256,257,600} x alias mode x 3 fillers x 3 macro sets",
            ),
            Phase::new("xa-macro", tier.pick(15_000, 400_000)).batch(64),
            Phase::new("xa-mixed", tier.pick(10_000, 250_000)).batch(64),
        ]
    }

    fn floors(&self, tier: Tier) -> Vec<(&'static str, u64)> {
        let s = tier.pick(1, 10);
        vec![
            ("cond:programs", 50_000 * s),
            ("cond:lone-fi-raised-exactly-one-error", 40_000 * s),
            ("cond:live:iftrue", 5_000 * s),
            ("cond:live:iffalse", 5_000 * s),
            ("cond:live:ifnum", 10_000 * s),
            ("cond:live:ifodd", 10_000 * s),
            ("cond:live:ifcase", 10_000 * s),
            ("cond:dead-conditionals", 50_000 * s),
            ("cond:programs-with-depth>=5", 2_000 * s),
            ("cond:aliases-live", 10_000 * s),
            ("cond:aliases-dead", 10_000 * s),
            ("cond:redefinable-name-used-as-conditional", 1_000 * s),
            ("cond:lookalikes-dead", 10_000 * s),
            ("cond:dead-unbalanced-braces", 10_000 * s),
            ("cond:skipped-by:false_case:with-nested-conditionals", 3_000 * s),
            ("cond:skipped-by:if_case:with-nested-conditionals", 3_000 * s),
            ("cond:skipped-by:else:with-nested-conditionals", 3_000 * s),
            ("cond:skipped-by:or:with-nested-conditionals", 3_000 * s),
            ("cond:ifodd-negative-odd-live", 2_000 * s),
            ("cond:ifodd-negative-even-live", 1_000 * s),
            ("cond:ifnum-boundary-live", 2_000 * s),
            ("cond:ifcase-out-of-range-live", 2_000 * s),
            ("cond:ifcase-negative-live", 500 * s),
            ("cond:register-operands-live", 2_000 * s),
            ("cond:redefinitions-between-trees", 5_000 * s),
            ("xa:streams-compared", 100_000 * s),
            ("xa:streams-compared:xa-enum", XA_ENUM_CASES),
            ("xa:streams-compared-with-reference", 50_000 * s),
            ("xa:macro-events-compared", 300_000 * s),
            ("xa:chains-of-length=1", 10_000 * s),
            ("xa:chains-of-length=3", 10_000 * s),
            ("xa:chains-of-length=7", 5_000 * s),
            ("xa:expandafter-alias-tokens-generated", 20_000 * s),
            ("xa:noexpand-generated", 10_000 * s),
            ("xa:macros-with-parameters-generated", 10_000 * s),
            ("xa:the-generated", 2_000 * s),
            ("xa:conditionals-generated", 2_000 * s),
            ("xa:suppressed-token-reached-main-loop", 1_000 * s),
            ("xa:streams-ending-in-identical-error", 200 * s),
        ]
    }

    fn calibrate(&self, obs: &mut Obs) {
        calibrate_expander(obs);
        calibrate_conditionals(obs);
    }

    fn run_case(&self, phase: &str, idx: u64, rng: &mut Rng, obs: &mut Obs) {
        match phase {
            "cond-enum" => {
                let mut items = vec![];
                let lo = idx * ENUM_CHUNK;
                for j in lo..(lo + ENUM_CHUNK).min(ENUM_TOTAL) {
                    enum_cond_item(j, &mut items);
                }
                check_cond_program(&items, "cond-enum", obs);
            }
            "cond-tree" => {
                let max_depth = [0u32, 1, 2, 3, 4, 5, 6][rng.weighted(&[1, 2, 3, 4, 4, 4, 6])];
                let trees = 1 + rng.usize_below(3);
                let mut g = Gen::new(rng, max_depth, 45);
                let mut items = vec![];
                for t in 0..trees {
                    if t > 0 || g.rng.chance(1, 3) {
                        if g.rng.chance(2, 3) {
                            items.push(g.redefinition());
                        }
                    }
                    items.extend(g.items(0, true, max_depth > 0));
                }
                check_cond_program(&items, "cond-tree", obs);
            }
            "xa-enum" => {
                let mut i = idx;
                let k = [(i % 8) as usize, ((i / 8) % 8) as usize, ((i / 64) % 8) as usize, ((i / 512) % 2) as usize];
                i /= 1024;
                let alias_mode = i % 2;
                let variant = i / 2;
                let set = xa::fixed_macro_set(variant);
                let mut st = StreamStats::default();
                let stream = xa::enum_stream(k, alias_mode, variant, &mut st);
                stream_stats(&st, obs);
                check_streams(&set, "", &[stream], true, "xa-enum", obs);
            }
            "xa-long" => {
                let mut i = idx;
                let n = xa::LONG_CHAIN_LENGTHS[(i % 16) as usize];
                i /= 16;
                let alias_mode = i % 2;
                i /= 2;
                let filler = i % 3;
                let variant = i / 3;
                let set = xa::fixed_macro_set(variant);
                let mut st = StreamStats::default();
                let stream = xa::long_chain_stream(n, alias_mode, filler, &mut st);
                stream_stats(&st, obs);
                obs.count("xa:long-chains");
                check_streams(&set, "", &[stream], true, "xa-long", obs);
            }
            "xa-macro" | "xa-mixed" => {
                let mixed = phase == "xa-mixed";
                let set = xa::random_macro_set(rng);
                let mut st = StreamStats::default();
                let n = 6;
                let mut streams = vec![];
                for _ in 0..n {
                    let flavor = if mixed { Flavor::Mixed } else { Flavor::MacroOnly };
                    streams.push(xa::random_stream(rng, &set, flavor, &mut st));
                    if st.truncated {
                        break; // the VM is not reused after an end-of-input error
                    }
                }
                stream_stats(&st, obs);
                let extra = if mixed {
                    if rng.chance(1, 5) {
                        format!("{MIXED_PREAMBLE}\\scrollmode %\n")
                    } else {
                        MIXED_PREAMBLE.to_string()
                    }
                } else {
                    String::new()
                };
                check_streams(&set, &extra, &streams, !mixed, phase_name(mixed), obs);
            }
            _ => obs.inconclusive(format!("unknown phase {phase}")),
        }
    }
}

fn phase_name(mixed: bool) -> &'static str {
    if mixed {
        "xa-mixed"
    } else {
        "xa-macro"
    }
}
