fn main() {
    vcore::run_main(&c07::MONITOR)
}
