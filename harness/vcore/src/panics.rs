//! Panic / crash oracle (DESIGN §3.3).
//!
//! A process-wide hook records where a panic happened; `catch` turns it into a value.
//! Three classes: our own step budget (`BudgetExceeded`, not counted), panics located in the
//! harness (a harness bug: INCONCLUSIVE) and panics located in /repo (an event for the oracle).
//! The *signature* of a repo panic is (repo-relative file, innermost repo function, message with
//! digits blanked) - never a line number, lines move under unrelated edits.

use std::cell::RefCell;
use std::collections::HashMap;
use std::panic::{self, AssertUnwindSafe};
use std::sync::{Mutex, Once};

/// Payload used by harness state types to cut off programs that do not terminate.
pub struct BudgetExceeded;

#[derive(Clone, Debug, Default, serde::Serialize, serde::Deserialize)]
pub struct PanicInfo {
    pub budget: bool,
    pub file: String,
    pub line: u32,
    pub message: String,
    /// Innermost frame whose source file is under /repo (empty if none was found).
    pub repo_function: String,
    /// Source file (repo-relative) of that frame.
    pub repo_file: String,
    /// The panic's own location is inside /verif (and no repo frame is more inner).
    pub in_harness: bool,
}

impl PanicInfo {
    pub fn in_repo(&self) -> bool {
        !self.budget && !self.in_harness && !self.repo_file.is_empty()
    }

    /// Stable identity of the panic site (see module doc).
    pub fn signature(&self) -> String {
        // The message is cut before its first variable part (a digit or a quoted value), so that
        // one site gives one signature whatever the input was.
        let mut msg = String::new();
        for c in self.message.chars() {
            if c.is_ascii_digit() || c == '\'' || c == '"' {
                break;
            }
            msg.push(c);
            if msg.len() >= 70 {
                break;
            }
        }
        format!(
            "panic@{}::{} [{}]",
            self.repo_file,
            self.repo_function,
            msg.trim_end()
        )
    }
}

thread_local! {
    static LAST: RefCell<Option<PanicInfo>> = const { RefCell::new(None) };
    static QUIET: RefCell<bool> = const { RefCell::new(true) };
}

static SITE_CACHE: Mutex<Option<HashMap<String, (String, String)>>> = Mutex::new(None);
static INSTALL: Once = Once::new();

fn strip_hash(sym: &str) -> String {
    // "a::b::c::h0123456789abcdef" -> "a::b::c"
    if let Some(pos) = sym.rfind("::h") {
        let tail = &sym[pos + 3..];
        if tail.len() == 16 && tail.chars().all(|c| c.is_ascii_hexdigit()) {
            return sym[..pos].to_string();
        }
    }
    sym.to_string()
}

fn rel_repo(path: &str) -> Option<String> {
    if let Some(rest) = path.strip_prefix("/repo/") {
        return Some(rest.to_string());
    }
    // paths may be relative to the harness workspace (../../repo/...) depending on how cargo
    // passes path dependencies
    if let Some(pos) = path.find("/repo/crates/") {
        return Some(path[pos + 6..].to_string());
    }
    None
}

/// Find the innermost frame located in /repo by formatting a captured backtrace.
fn innermost_repo_frame() -> (String, String) {
    let bt = std::backtrace::Backtrace::force_capture();
    let text = format!("{bt}");
    let mut current_sym = String::new();
    for line in text.lines() {
        let t = line.trim_start();
        if let Some(rest) = t.strip_prefix("at ") {
            // "at /repo/crates/x/src/y.rs:12:5"
            let path = rest.split(':').next().unwrap_or("");
            if let Some(rel) = rel_repo(path) {
                return (strip_hash(&current_sym), rel);
            }
        } else if let Some(pos) = t.find(": ") {
            if t[..pos].chars().all(|c| c.is_ascii_digit()) {
                current_sym = t[pos + 2..].to_string();
            }
        }
    }
    (String::new(), String::new())
}

pub fn install_hook() {
    INSTALL.call_once(|| {
        panic::set_hook(Box::new(|info| {
            if info.payload().downcast_ref::<BudgetExceeded>().is_some() {
                LAST.with(|l| {
                    *l.borrow_mut() = Some(PanicInfo {
                        budget: true,
                        ..Default::default()
                    })
                });
                return;
            }
            let message = if let Some(s) = info.payload().downcast_ref::<&str>() {
                s.to_string()
            } else if let Some(s) = info.payload().downcast_ref::<String>() {
                s.clone()
            } else {
                "<non-string panic payload>".to_string()
            };
            let (file, line, col) = match info.location() {
                Some(l) => (l.file().to_string(), l.line(), l.column()),
                None => (String::new(), 0, 0),
            };
            let key = format!("{file}:{line}:{col}");
            let cached = {
                let guard = SITE_CACHE.lock().unwrap_or_else(|e| e.into_inner());
                guard.as_ref().and_then(|m| m.get(&key).cloned())
            };
            let (repo_function, repo_file) = match cached {
                Some(v) => v,
                None => {
                    let v = innermost_repo_frame();
                    let mut guard = SITE_CACHE.lock().unwrap_or_else(|e| e.into_inner());
                    guard
                        .get_or_insert_with(HashMap::new)
                        .insert(key, v.clone());
                    v
                }
            };
            // The panic is the harness's own if its location is in /verif and the frame that
            // panicked is not inside repo code called back from... (a repo frame can only be
            // *outer* to a harness location when repo code calls a harness callback).
            // Workspace members are compiled with workspace-relative paths ("c01/src/lib.rs"),
            // path dependencies outside the workspace with absolute ones ("/repo/crates/...").
            let loc_in_repo = rel_repo(&file).is_some();
            let loc_in_lib = file.starts_with("/rustc")
                || file.contains("/.cargo/registry/")
                || file.contains("/rustlib/")
                || file.contains("/library/");
            let in_harness = !loc_in_repo && (!loc_in_lib || repo_file.is_empty());
            // A repo function inlined into the monitor leaves no frame of its own in the
            // backtrace; the panic location still names the repo file.
            let (repo_function, repo_file) = if loc_in_repo && repo_file.is_empty() {
                ("<inlined>".to_string(), rel_repo(&file).unwrap_or_default())
            } else {
                (repo_function, repo_file)
            };
            let quiet = QUIET.with(|q| *q.borrow());
            if !quiet {
                eprintln!("[panic] {file}:{line}: {message} (repo frame: {repo_function} in {repo_file})");
            }
            LAST.with(|l| {
                *l.borrow_mut() = Some(PanicInfo {
                    budget: false,
                    file,
                    line,
                    message,
                    repo_function,
                    repo_file: if in_harness { String::new() } else { repo_file },
                    in_harness,
                })
            });
        }));
    });
}

pub fn set_quiet(q: bool) {
    QUIET.with(|c| *c.borrow_mut() = q);
}

/// Run `f`; a panic becomes `Err(PanicInfo)`.
pub fn catch<R>(f: impl FnOnce() -> R) -> Result<R, PanicInfo> {
    install_hook();
    LAST.with(|l| *l.borrow_mut() = None);
    match panic::catch_unwind(AssertUnwindSafe(f)) {
        Ok(r) => Ok(r),
        Err(_) => {
            let info = LAST.with(|l| l.borrow_mut().take());
            Err(info.unwrap_or_else(|| PanicInfo {
                message: "<panic without hook record>".into(),
                in_harness: true,
                ..Default::default()
            }))
        }
    }
}

#[cfg(test)]
mod tests {
    use super::*;
    #[test]
    fn catches_and_classifies() {
        let r = catch(|| {
            let v: Vec<u32> = vec![];
            v[3]
        });
        let e = r.unwrap_err();
        assert!(!e.budget);
        assert!(e.message.contains("index out of bounds"));
        let r = catch(|| std::panic::panic_any(BudgetExceeded));
        assert!(r.unwrap_err().budget);
        assert_eq!(catch(|| 3).unwrap(), 3);
    }
    #[test]
    fn hash_strip() {
        assert_eq!(strip_hash("a::b::h0123456789abcdef"), "a::b");
        assert_eq!(strip_hash("a::b::hello"), "a::b::hello");
    }
}
