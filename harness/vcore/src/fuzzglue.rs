//! Glue between a monitor's per-input oracle and a coverage-guided fuzzer (libFuzzer targets in
//! /verif/harness/vfuzz, thorough tier only, stage script /verif/stages/fuzz.sh).
//!
//! The fuzz target hands each input to the *monitor's own oracle* (`fn(&[u8], &mut Obs)`), so the
//! deciding step is the same as in the generated workloads; the fuzzer only chooses the inputs,
//! guided by the coverage of the code under test. After each input the sink is inspected the way
//! the runner's parent does it:
//!   * a sighting attributed to a finding id (`Obs::known`) and a violation whose signature starts
//!     with a listed `signature_prefix` are swallowed iff `known_findings.json` lists the entry for
//!     this property with status "open" - exploration continues past the known defects;
//!   * anything else (an unlisted violation or panic, a sighting of an entry listed as fixed or not
//!     listed at all) writes a witness file into `$VERIF_FUZZ_FINDINGS` and aborts the process, which
//!     makes libFuzzer keep the input; the stage script turns the witness files into violations;
//!   * an inconclusive case (harness panic, model disagreement) is counted in a file and skipped.
//! The known-findings files are only read.

use crate::*;
use std::sync::OnceLock;

struct Known {
    id: String,
    open: bool,
    prefix: Option<String>,
}

fn known(property: &str) -> &'static Vec<Known> {
    static K: OnceLock<Vec<Known>> = OnceLock::new();
    K.get_or_init(|| {
        let root = std::env::var("VERIF_ROOT").unwrap_or_else(|_| "/verif".into());
        let mut files = vec![format!("{root}/known_findings.json")];
        if let Ok(rd) = std::fs::read_dir(format!("{root}/known_findings.d")) {
            for e in rd.flatten() {
                files.push(e.path().to_string_lossy().to_string());
            }
        }
        let mut out = vec![];
        for f in files {
            let Ok(t) = std::fs::read_to_string(&f) else { continue };
            let Ok(v) = serde_json::from_str::<Value>(&t) else { continue };
            for e in v["findings"].as_array().into_iter().flatten() {
                if e["property"] == property {
                    out.push(Known {
                        id: e["id"].as_str().unwrap_or("").to_string(),
                        open: e["status"] == "open",
                        prefix: e["signature_prefix"].as_str().map(|s| s.to_string()),
                    });
                }
            }
        }
        out
    })
}

fn findings_dir() -> String {
    std::env::var("VERIF_FUZZ_FINDINGS").unwrap_or_else(|_| "/tmp/verif-fuzz-findings".into())
}

fn report(property: &str, signature: &str, detail: &Value, input: &[u8]) -> ! {
    let dir = findings_dir();
    let _ = std::fs::create_dir_all(&dir);
    let h = stable_hash(signature);
    let path = format!("{dir}/finding-{h:016x}.json");
    if !std::path::Path::new(&path).exists() {
        let hex: String = input.iter().take(4096).map(|b| format!("{b:02x}")).collect();
        let body = json!({"property": property, "signature": signature, "detail": detail,
                          "input_len": input.len(), "input_hex": hex,
                          "input_lossy": String::from_utf8_lossy(&input[..input.len().min(2048)])});
        let _ = std::fs::write(&path, serde_json::to_string_pretty(&body).unwrap_or_default());
    }
    eprintln!("VERIF-FUZZ-FINDING {property} {signature}");
    std::process::abort()
}

/// (source file, message) of a panic signature `panic@<file>::<function> [<message>]`. The
/// sanitizer build names frames differently from the release build the listed signatures were taken
/// from (the innermost repo function can come out as a bare identifier), so in this mode a panic is
/// matched on file and message prefix - slightly coarser than the runner, which also compares the
/// function path; coarser only ever swallows more at a listed site, and every listed site is checked
/// with the exact signature by the monitor's generated workloads.
fn split_panic(s: &str) -> Option<(String, String)> {
    let rest = s.strip_prefix("panic@")?;
    let file = rest.split("::").next().unwrap_or("").to_string();
    let msg = rest.split_once(" [").map(|(_, m)| m.trim_end_matches(']').to_string()).unwrap_or_default();
    Some((file, msg))
}

fn prefix_matches(prefix: &str, signature: &str) -> bool {
    if signature.starts_with(prefix) {
        return true;
    }
    match (split_panic(prefix), split_panic(signature)) {
        (Some((kf, km)), Some((f, m))) => kf == f && m.starts_with(km.as_str()),
        _ => false,
    }
}

/// Seed corpus and dictionary of a target, produced by the monitor's own generators.
#[derive(Default)]
pub struct Seeds {
    pub inputs: Vec<Vec<u8>>,
    pub dictionary: Vec<String>,
}

/// If `VERIF_FUZZ_DUMP=<dir>` is set: write the target's seed corpus to `<dir>/corpus/seed-N` and its dictionary (libFuzzer
/// syntax) to `<dir>/dict.txt`, then exit. The stage script runs every target once in this mode before fuzzing.
fn dump_seeds_and_exit_if_asked(seeds: impl FnOnce() -> Seeds) {
    static DONE: OnceLock<()> = OnceLock::new();
    if DONE.get().is_some() {
        return;
    }
    let _ = DONE.set(());
    let Ok(dir) = std::env::var("VERIF_FUZZ_DUMP") else {
        return;
    };
    let s = seeds();
    let _ = std::fs::create_dir_all(format!("{dir}/corpus"));
    for (i, inp) in s.inputs.iter().enumerate() {
        let _ = std::fs::write(format!("{dir}/corpus/seed-{i:05}"), inp);
    }
    let mut dict = String::new();
    for w in &s.dictionary {
        if w.is_empty() || w.len() > 64 {
            continue;
        }
        dict.push('"');
        for b in w.bytes() {
            match b {
                b'"' => dict.push_str("\\\""),
                b'\\' => dict.push_str("\\\\"),
                0x20..=0x7e => dict.push(b as char),
                _ => dict.push_str(&format!("\\x{b:02x}")),
            }
        }
        dict.push_str("\"\n");
    }
    let _ = std::fs::write(format!("{dir}/dict.txt"), dict);
    eprintln!("VERIF-FUZZ-DUMP {} seeds, {} dictionary entries", s.inputs.len(), s.dictionary.len());
    std::process::exit(0);
}

/// Run one fuzz input through a monitor's oracle.
pub fn one(property: &'static str, input: &[u8], oracle: impl FnOnce(&[u8], &mut Obs), seeds: impl FnOnce() -> Seeds) {
    dump_seeds_and_exit_if_asked(seeds);
    let mut obs = Obs::new(Tier::Thorough, 0);
    obs.cur_phase = "fuzz".into();
    let r = catch(|| oracle(input, &mut obs));
    if let Err(p) = r {
        // the oracles catch the panics of the code under test themselves: what arrives here escaped them
        if p.in_repo() {
            obs.repo_panic(&p, json!({"what": "panic escaped the monitor's oracle"}));
        } else if !p.budget {
            obs.inconclusive(format!("harness panic at {}:{}: {}", p.file, p.line, p.message));
        }
    }
    if std::env::var("VERIF_FUZZ_TRACE").is_ok() {
        eprintln!(
            "VERIF-FUZZ-TRACE len={} counters={:?} violations={:?} known={:?}",
            input.len(),
            obs.res.counters,
            obs.res.violations.iter().map(|v| v.signature.as_str()).collect::<Vec<_>>(),
            obs.res.known.keys().collect::<Vec<_>>()
        );
    }
    let list = known(property);
    for (kid, (_, f)) in &obs.res.known {
        match list.iter().find(|k| &k.id == kid) {
            Some(k) if k.open => {}
            Some(_) => report(property, &format!("regression-of-fixed:{kid}"), &f.detail, input),
            None => report(property, &format!("unlisted-finding:{kid}"), &f.detail, input),
        }
    }
    for v in &obs.res.violations {
        let listed = list
            .iter()
            .any(|k| k.open && k.prefix.as_ref().map(|p| prefix_matches(p, &v.signature)).unwrap_or(false));
        if !listed {
            report(property, &v.signature, &v.detail, input);
        }
    }
    if !obs.res.inconclusive.is_empty() {
        let dir = findings_dir();
        let _ = std::fs::create_dir_all(&dir);
        // one file per *kind* of reason (the text before the first ':'), not per input
        let kind = obs.res.inconclusive[0].split(':').next().unwrap_or("").to_string();
        let h = stable_hash(&kind);
        let path = format!("{dir}/inconclusive-{:04x}.txt", h & 0xffff);
        if !std::path::Path::new(&path).exists() {
            let _ = std::fs::write(&path, &obs.res.inconclusive[0]);
        }
    }
}
