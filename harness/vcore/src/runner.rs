use crate::*;
use std::collections::BTreeMap;
use std::io::{Read, Seek, SeekFrom, Write};
use std::path::{Path, PathBuf};
use std::process::{Child, Command, Stdio};
use std::time::{Duration, Instant};

fn verif_root() -> PathBuf {
    PathBuf::from(std::env::var("VERIF_ROOT").unwrap_or_else(|_| "/verif".to_string()))
}

struct Args {
    tier: Tier,
    seed: u64,
    jobs: usize,
    worker: Option<usize>,
    nworkers: usize,
    out: Option<PathBuf>,
    replay: Option<PathBuf>,
    case: Option<(String, u64)>,
    skip_until: Option<(usize, u64)>,
    scale: f64,
}

fn parse_args() -> Args {
    let mut a = Args {
        tier: match std::env::var("VERIF_TIER").as_deref() {
            Ok("thorough") => Tier::Thorough,
            _ => Tier::Quick,
        },
        seed: std::env::var("VERIF_SEED")
            .ok()
            .and_then(|s| s.trim().parse::<i64>().ok())
            .map(|v| v as u64)
            .unwrap_or(0),
        jobs: std::env::var("VERIF_JOBS")
            .ok()
            .and_then(|s| s.parse().ok())
            .unwrap_or_else(|| {
                std::thread::available_parallelism()
                    .map(|n| n.get())
                    .unwrap_or(4)
                    .min(16)
            }),
        worker: None,
        nworkers: 1,
        out: None,
        replay: None,
        case: None,
        skip_until: None,
        scale: std::env::var("VERIF_SCALE")
            .ok()
            .and_then(|s| s.parse().ok())
            .unwrap_or(1.0),
    };
    let argv: Vec<String> = std::env::args().collect();
    let mut i = 1;
    while i < argv.len() {
        let next = |i: &mut usize| -> String {
            *i += 1;
            argv.get(*i).cloned().unwrap_or_else(|| {
                eprintln!("missing value after {}", argv[*i - 1]);
                std::process::exit(2)
            })
        };
        match argv[i].as_str() {
            "--tier" => {
                a.tier = match next(&mut i).as_str() {
                    "thorough" => Tier::Thorough,
                    "quick" => Tier::Quick,
                    other => {
                        eprintln!("unknown tier {other}");
                        std::process::exit(2)
                    }
                }
            }
            "quick" => a.tier = Tier::Quick,
            "thorough" => a.tier = Tier::Thorough,
            "--seed" => a.seed = next(&mut i).parse::<i64>().unwrap_or(0) as u64,
            "--jobs" => a.jobs = next(&mut i).parse().unwrap_or(1),
            "--worker" => a.worker = Some(next(&mut i).parse().unwrap_or(0)),
            "--nworkers" => a.nworkers = next(&mut i).parse().unwrap_or(1),
            "--out" => a.out = Some(PathBuf::from(next(&mut i))),
            "--replay" => a.replay = Some(PathBuf::from(next(&mut i))),
            "--scale" => a.scale = next(&mut i).parse().unwrap_or(1.0),
            "--case" => {
                let p = next(&mut i);
                let n = next(&mut i).parse().unwrap_or(0);
                a.case = Some((p, n));
            }
            "--skip-until" => {
                let p = next(&mut i).parse().unwrap_or(0);
                let b = next(&mut i).parse().unwrap_or(0);
                a.skip_until = Some((p, b));
            }
            other => {
                eprintln!("unknown argument {other}");
                std::process::exit(2)
            }
        }
        i += 1;
    }
    a.jobs = a.jobs.max(1);
    a
}

fn scaled_phases(m: &dyn Monitor, tier: Tier, scale: f64) -> Vec<Phase> {
    let mut ps = m.phases(tier);
    if (scale - 1.0).abs() > 1e-9 {
        for p in &mut ps {
            if p.exhaustive.is_none() {
                p.cases = ((p.cases as f64) * scale).ceil().max(1.0) as u64;
            }
        }
    }
    ps
}

/// Entry point of every property binary.
pub fn run_main(monitor: &'static dyn Monitor) -> ! {
    panics::install_hook();
    let args = parse_args();
    let code = if let Some(path) = args.replay.clone() {
        replay(monitor, &path)
    } else if let Some((phase, idx)) = args.case.clone() {
        single_case(monitor, args.tier, args.seed, &phase, idx)
    } else if args.worker.is_some() {
        worker(monitor, &args)
    } else {
        parent(monitor, &args)
    };
    std::process::exit(code)
}

fn run_on_big_stack<R: Send + 'static>(
    bytes: usize,
    f: impl FnOnce() -> R + Send + 'static,
) -> std::thread::Result<R> {
    std::thread::Builder::new()
        .stack_size(bytes)
        .spawn(f)
        .expect("spawn case thread")
        .join()
}

fn run_one(monitor: &dyn Monitor, phase: &str, idx: u64, obs: &mut Obs) {
    obs.cur_phase = phase.to_string();
    obs.cur_idx = idx;
    let mut rng = Rng::for_case(obs.seed, monitor.id(), phase, idx);
    let r = panics::catch(|| monitor.run_case(phase, idx, &mut rng, obs));
    obs.res.evaluations += 1;
    if let Err(p) = r {
        // A panic the monitor did not catch itself.
        obs.repo_panic(&p, json!({"note": "panic escaped the monitor's own catch"}));
    }
}

fn single_case(monitor: &'static dyn Monitor, tier: Tier, seed: u64, phase: &str, idx: u64) -> i32 {
    let phase = phase.to_string();
    let stack = monitor.stack_bytes();
    let r = run_on_big_stack(stack, move || {
        let mut obs = Obs::new(tier, seed);
        obs.verbose = true;
        panics::set_quiet(false);
        run_one(monitor, &phase, idx, &mut obs);
        (
            obs.res.violations_total,
            obs.res.known.len(),
            obs.res.inconclusive.len(),
        )
    });
    match r {
        Ok((v, k, inc)) => {
            println!("case finished: violations={v} known-finding sightings={k} inconclusive={inc}");
            if v > 0 {
                1
            } else if inc > 0 {
                2
            } else {
                0
            }
        }
        Err(_) => 2,
    }
}

fn replay(monitor: &'static dyn Monitor, path: &Path) -> i32 {
    let text = match std::fs::read_to_string(path) {
        Ok(t) => t,
        Err(e) => {
            eprintln!("cannot read {}: {e}", path.display());
            return 2;
        }
    };
    let v: Value = match serde_json::from_str(&text) {
        Ok(v) => v,
        Err(e) => {
            eprintln!("bad replay file: {e}");
            return 2;
        }
    };
    let tier = if v["tier"] == "thorough" {
        Tier::Thorough
    } else {
        Tier::Quick
    };
    let seed = v["seed"].as_u64().unwrap_or(0);
    let phase = v["phase"].as_str().unwrap_or("").to_string();
    let idx = v["idx"].as_u64().unwrap_or(0);
    println!(
        "replaying property={} tier={} seed={} phase={} idx={}",
        monitor.id(),
        tier.name(),
        seed,
        phase,
        idx
    );
    single_case(monitor, tier, seed, &phase, idx)
}

// ------------------------------------------------------------------------------------------
// worker

fn worker(monitor: &'static dyn Monitor, args: &Args) -> i32 {
    let k = args.worker.unwrap();
    let w = args.nworkers.max(1);
    let out = args.out.clone().expect("--out");
    let tier = args.tier;
    let seed = args.seed;
    let phases = scaled_phases(monitor, tier, args.scale);
    let skip_until = args.skip_until;
    let stack = monitor.stack_bytes();
    let out2 = out.clone();
    let r = run_on_big_stack(stack, move || {
        let mut obs = Obs::new(tier, seed);
        let journal_path = out2.join(format!("journal-{k}"));
        let mut journal = std::fs::OpenOptions::new()
            .create(true)
            .write(true)
            .truncate(true)
            .open(&journal_path)
            .expect("journal");
        for (pi, phase) in phases.iter().enumerate() {
            obs.samples_this_phase = 0;
            let nb = phase.cases.div_ceil(phase.batch);
            let mut b = k as u64;
            while b < nb {
                let skip = match skip_until {
                    Some((sp, sb)) => pi < sp || (pi == sp && b <= sb),
                    None => false,
                };
                if !skip {
                    let lo = b * phase.batch;
                    let hi = ((b + 1) * phase.batch).min(phase.cases);
                    // journal first, then run
                    let line = format!("{:>4} {:>20} {:>20} {:>20}\n", pi, b, lo, hi);
                    let _ = journal.seek(SeekFrom::Start(0));
                    let _ = journal.write_all(line.as_bytes());
                    for idx in lo..hi {
                        run_one(monitor, phase.name, idx, &mut obs);
                    }
                }
                b += w as u64;
            }
        }
        obs.res.completed = true;
        // write results
        let mut hashes: Vec<u64> = obs.distinct.iter().copied().collect();
        hashes.sort_unstable();
        let mut bytes = Vec::with_capacity(hashes.len() * 8);
        for h in &hashes {
            bytes.extend_from_slice(&h.to_le_bytes());
        }
        append_file(&out2.join(format!("hashes-{k}.bin")), &bytes);
        append_line(
            &out2.join(format!("shard-{k}.jsonl")),
            &serde_json::to_string(&obs.res).expect("serialise shard result"),
        );
    });
    match r {
        Ok(()) => 0,
        Err(_) => 3,
    }
}

fn append_file(path: &Path, bytes: &[u8]) {
    let mut f = std::fs::OpenOptions::new()
        .create(true)
        .append(true)
        .open(path)
        .expect("open for append");
    f.write_all(bytes).expect("append");
}

fn append_line(path: &Path, line: &str) {
    let mut s = line.to_string();
    s.push('\n');
    append_file(path, s.as_bytes());
}

// ------------------------------------------------------------------------------------------
// parent

struct Running {
    k: usize,
    child: Child,
    respawns: u32,
    /// Load-independent age of this worker in seconds (see `worker_progress`).
    virtual_s: f64,
    last_cpu_s: f64,
}

/// (CPU seconds consumed so far by the process and the children it waited for, is any of its threads runnable or in
/// uninterruptible I/O). On a machine where the workers get only a fraction of a core each, wall-clock time says nothing
/// about how far a worker could have come; its CPU time does. A worker none of whose threads is runnable (blocked on a
/// lock, sleeping) is not starved, so for it wall-clock time is the right measure. `None` if /proc is unreadable.
fn worker_progress(pid: u32) -> Option<(f64, bool)> {
    let stat = std::fs::read_to_string(format!("/proc/{pid}/stat")).ok()?;
    let rest = &stat[stat.rfind(')')? + 1..];
    let f: Vec<&str> = rest.split_whitespace().collect();
    // after the command name: state(0) ... utime(11) stime(12) cutime(13) cstime(14)
    let ticks: u64 = (11..=14).map(|i| f.get(i).and_then(|x| x.parse::<u64>().ok()).unwrap_or(0)).sum();
    let hz = unsafe { libc::sysconf(libc::_SC_CLK_TCK) }.max(1) as f64;
    let mut runnable = false;
    if let Ok(rd) = std::fs::read_dir(format!("/proc/{pid}/task")) {
        for e in rd.flatten() {
            if let Ok(t) = std::fs::read_to_string(e.path().join("stat")) {
                if let Some(i) = t.rfind(')') {
                    let st = t[i + 1..].trim_start().chars().next().unwrap_or('S');
                    if st == 'R' || st == 'D' {
                        runnable = true;
                        break;
                    }
                }
            }
        }
    }
    Some((ticks as f64 / hz, runnable))
}

fn spawn_worker(
    exe: &Path,
    args: &Args,
    k: usize,
    w: usize,
    out: &Path,
    skip: Option<(usize, u64)>,
) -> Child {
    let mut c = Command::new(exe);
    c.arg("--worker")
        .arg(k.to_string())
        .arg("--nworkers")
        .arg(w.to_string())
        .arg("--tier")
        .arg(args.tier.name())
        .arg("--seed")
        .arg((args.seed as i64).to_string())
        .arg("--scale")
        .arg(args.scale.to_string())
        .arg("--out")
        .arg(out);
    if let Some((p, b)) = skip {
        c.arg("--skip-until").arg(p.to_string()).arg(b.to_string());
    }
    let log = std::fs::OpenOptions::new()
        .create(true)
        .append(true)
        .open(out.join(format!("worker-{k}.log")))
        .expect("worker log");
    let log2 = log.try_clone().expect("clone log");
    c.stdin(Stdio::null()).stdout(log).stderr(log2);
    c.spawn().expect("spawn worker")
}

fn read_journal(out: &Path, k: usize) -> Option<(usize, u64, u64, u64)> {
    let mut s = String::new();
    std::fs::File::open(out.join(format!("journal-{k}")))
        .ok()?
        .read_to_string(&mut s)
        .ok()?;
    let mut it = s.split_whitespace();
    let pi = it.next()?.parse().ok()?;
    let b = it.next()?.parse().ok()?;
    let lo = it.next()?.parse().ok()?;
    let hi = it.next()?.parse().ok()?;
    Some((pi, b, lo, hi))
}

#[derive(serde::Deserialize, Clone, Debug)]
struct KnownEntry {
    id: String,
    property: String,
    status: String,
    what: String,
    #[serde(default)]
    signature_prefix: Option<String>,
    #[serde(default)]
    commit: Option<String>,
}

fn load_known(root: &Path) -> Result<Vec<KnownEntry>, String> {
    // The committed list is known_findings.json; known_findings.d/*.json are per-property
    // fragments used while a monitor is being developed (same format). Neither is ever written
    // at run time.
    let mut files = vec![root.join("known_findings.json")];
    if let Ok(rd) = std::fs::read_dir(root.join("known_findings.d")) {
        let mut extra: Vec<PathBuf> = rd
            .filter_map(|e| e.ok().map(|e| e.path()))
            .filter(|p| p.extension().map(|x| x == "json").unwrap_or(false))
            .collect();
        extra.sort();
        files.extend(extra);
    }
    let mut out: Vec<KnownEntry> = vec![];
    for p in files {
        if !p.exists() {
            continue;
        }
        let text = std::fs::read_to_string(&p).map_err(|e| format!("{}: {e}", p.display()))?;
        let v: Value = serde_json::from_str(&text).map_err(|e| format!("{}: {e}", p.display()))?;
        let arr = v["findings"].as_array().cloned().unwrap_or_default();
        for e in arr {
            let k = serde_json::from_value::<KnownEntry>(e)
                .map_err(|e| format!("{}: {e}", p.display()))?;
            if !out.iter().any(|o| o.id == k.id) {
                out.push(k);
            }
        }
    }
    Ok(out)
}

fn exit_desc(status: &std::process::ExitStatus) -> String {
    use std::os::unix::process::ExitStatusExt;
    if let Some(sig) = status.signal() {
        let name = match sig {
            libc::SIGSEGV => "SIGSEGV",
            libc::SIGABRT => "SIGABRT",
            libc::SIGBUS => "SIGBUS",
            libc::SIGKILL => "SIGKILL",
            libc::SIGILL => "SIGILL",
            libc::SIGFPE => "SIGFPE",
            _ => "signal",
        };
        format!("{name}({sig})")
    } else {
        format!("exit({})", status.code().unwrap_or(-1))
    }
}

fn parent(monitor: &'static dyn Monitor, args: &Args) -> i32 {
    let start = Instant::now();
    let id = monitor.id();
    let root = verif_root();
    let exe = std::env::current_exe().expect("current_exe");
    let phases = scaled_phases(monitor, args.tier, args.scale);
    let w = args.jobs;
    let out = root
        .join("work")
        .join(format!("{}-{}-{}", id, args.tier.name(), std::process::id()));
    let _ = std::fs::remove_dir_all(&out);
    std::fs::create_dir_all(&out).expect("create work dir");

    let mut inconclusive: Vec<String> = vec![];
    let known_entries = match load_known(&root) {
        Ok(k) => k,
        Err(e) => {
            inconclusive.push(format!("known_findings.json unreadable: {e}"));
            vec![]
        }
    };

    // calibration, in-process
    let mut cal = Obs::new(args.tier, args.seed);
    cal.cur_phase = "calibration".into();
    let cal_r = {
        let stack = monitor.stack_bytes().min(256 << 20);
        let tier = args.tier;
        let seed = args.seed;
        run_on_big_stack(stack, move || {
            let mut o = Obs::new(tier, seed);
            o.cur_phase = "calibration".into();
            let r = panics::catch(|| monitor.calibrate(&mut o));
            (o.res, r.err())
        })
    };
    match cal_r {
        Ok((res, perr)) => {
            cal.res = res;
            if let Some(p) = perr {
                inconclusive.push(format!(
                    "calibration panicked at {}:{}: {}",
                    p.file, p.line, p.message
                ));
            }
        }
        Err(_) => inconclusive.push("calibration thread died".into()),
    }
    inconclusive.append(&mut cal.res.inconclusive);
    for v in &cal.res.violations {
        // a calibration mismatch means the *model* is wrong: never a verdict
        inconclusive.push(format!("calibration mismatch: {}", v.signature));
    }

    // workers
    let mut running: Vec<Running> = (0..w)
        .map(|k| Running {
            k,
            child: spawn_worker(&exe, args, k, w, &out, None),
            respawns: 0,
            virtual_s: 0.0,
            last_cpu_s: 0.0,
        })
        .collect();
    // VERIF_WATCHDOG_S overrides the monitor's budget (used to test the watchdog itself)
    let watchdog = Duration::from_secs(
        std::env::var("VERIF_WATCHDOG_S")
            .ok()
            .and_then(|v| v.parse().ok())
            .unwrap_or_else(|| monitor.watchdog_s(args.tier)),
    );
    let mut deaths: Vec<Finding> = vec![];
    let mut violations_from_deaths: u64 = 0;
    let mut timed_out = false;
    let mut watchdog_note = String::new();
    let mut last_sample = Instant::now();
    while !running.is_empty() {
        let mut i = 0;
        while i < running.len() {
            match running[i].child.try_wait() {
                Ok(Some(status)) => {
                    let mut r = running.swap_remove(i);
                    if status.success() {
                        continue;
                    }
                    // worker died: the journal names the batch
                    let desc = exit_desc(&status);
                    let j = read_journal(&out, r.k);
                    let (pi, b, lo, hi) = j.unwrap_or((0, 0, 0, 0));
                    let pname = phases.get(pi).map(|p| p.name).unwrap_or("?");
                    // pinpoint the case by running the batch one case per process
                    let mut culprit: Option<u64> = None;
                    if j.is_some() && hi - lo <= 4096 {
                        for idx in lo..hi {
                            let st = Command::new(&exe)
                                .arg("--case")
                                .arg(pname)
                                .arg(idx.to_string())
                                .arg("--tier")
                                .arg(args.tier.name())
                                .arg("--seed")
                                .arg((args.seed as i64).to_string())
                                .stdin(Stdio::null())
                                .stdout(Stdio::null())
                                .stderr(Stdio::null())
                                .status();
                            if let Ok(st) = st {
                                use std::os::unix::process::ExitStatusExt;
                                if st.signal().is_some() {
                                    culprit = Some(idx);
                                    break;
                                }
                            }
                        }
                    }
                    if desc.starts_with("SIGKILL") {
                        inconclusive.push(format!(
                            "worker {} killed ({desc}) in phase {pname} batch {lo}..{hi}",
                            r.k
                        ));
                    } else {
                        let sig_probe = format!(
                            "process-death:{}@{pname}",
                            desc.split('(').next().unwrap_or("")
                        );
                        if deaths.iter().any(|d| d.signature == sig_probe) {
                            violations_from_deaths += 1;
                        } else {
                            violations_from_deaths += 1;
                        deaths.push(Finding {
                            phase: pname.to_string(),
                            idx: culprit.unwrap_or(lo),
                            signature: format!(
                                "process-death:{}@{pname}",
                                desc.split('(').next().unwrap_or("")
                            ),
                            detail: json!({
                                "worker": r.k, "status": desc, "batch": [lo, hi],
                                "pinpointed": culprit.is_some(),
                                "note": "the worker process running the code under test died; see journal"
                            }),
                        });
                        }
                    }
                    if j.is_some() && r.respawns < 20 {
                        r.respawns += 1;
                        r.child = spawn_worker(&exe, args, r.k, w, &out, Some((pi, b)));
                        r.last_cpu_s = 0.0;
                        running.push(r);
                    } else {
                        inconclusive.push(format!("worker {} could not be resumed", r.k));
                    }
                }
                Ok(None) => i += 1,
                Err(e) => {
                    inconclusive.push(format!("wait failed: {e}"));
                    running.swap_remove(i);
                }
            }
        }
        // The watchdog measures each worker in load-independent time: CPU seconds while one of its threads is runnable
        // (a starved worker does not age), wall-clock seconds while it is blocked. A last-resort wall-clock cap of twelve
        // times the budget bounds the run on a machine where /proc is unusable.
        if last_sample.elapsed() >= Duration::from_millis(250) {
            let dt = last_sample.elapsed().as_secs_f64();
            last_sample = Instant::now();
            for r in &mut running {
                match worker_progress(r.child.id()) {
                    Some((cpu, runnable)) => {
                        let d_cpu = (cpu - r.last_cpu_s).max(0.0);
                        r.last_cpu_s = cpu;
                        r.virtual_s += if runnable { d_cpu.min(dt) } else { dt };
                    }
                    None => r.virtual_s += dt,
                }
            }
        }
        let oldest = running.iter().map(|r| r.virtual_s).fold(0.0_f64, f64::max);
        if oldest > watchdog.as_secs_f64() || start.elapsed() > watchdog * 12 {
            timed_out = true;
            watchdog_note = format!(
                "oldest worker: {:.0} s of load-independent time, {:.0} s wall clock",
                oldest,
                start.elapsed().as_secs_f64()
            );
            for r in &mut running {
                let _ = r.child.kill();
                let _ = r.child.wait();
            }
            running.clear();
            break;
        }
        std::thread::sleep(Duration::from_millis(20));
    }
    if timed_out {
        inconclusive.push(format!(
            "watchdog ({} s) fired before the workload finished ({watchdog_note})",
            watchdog.as_secs()
        ));
    }

    // merge
    let mut counters: BTreeMap<String, u64> = BTreeMap::new();
    let mut samples: Vec<Value> = vec![];
    let mut violations: Vec<Finding> = deaths;
    let mut violations_total: u64 = violations_from_deaths;
    let mut known: BTreeMap<String, (u64, Finding)> = BTreeMap::new();
    let mut evaluations = 0u64;
    let mut capped = false;
    let mut completed_shards = 0usize;
    let mut hashes: Vec<u64> = vec![];
    for k in 0..w {
        let p = out.join(format!("shard-{k}.jsonl"));
        let text = std::fs::read_to_string(&p).unwrap_or_default();
        let mut any_completed = false;
        for line in text.lines() {
            let res: ShardResult = match serde_json::from_str(line) {
                Ok(r) => r,
                Err(e) => {
                    inconclusive.push(format!("shard {k} result unreadable: {e}"));
                    continue;
                }
            };
            any_completed |= res.completed;
            for (n, c) in res.counters {
                *counters.entry(n).or_insert(0) += c;
            }
            samples.extend(res.samples);
            violations_total += res.violations_total;
            for v in res.violations {
                if !violations.iter().any(|x| x.signature == v.signature) {
                    violations.push(v);
                }
            }
            for (kid, (n, f)) in res.known {
                match known.get_mut(&kid) {
                    Some(e) => e.0 += n,
                    None => {
                        known.insert(kid, (n, f));
                    }
                }
            }
            inconclusive.extend(res.inconclusive);
            evaluations += res.evaluations;
            capped |= res.distinct_capped;
        }
        if any_completed {
            completed_shards += 1;
        } else if !timed_out {
            inconclusive.push(format!("shard {k} produced no completed result"));
        }
        if let Ok(bytes) = std::fs::read(out.join(format!("hashes-{k}.bin"))) {
            for ch in bytes.chunks_exact(8) {
                hashes.push(u64::from_le_bytes(ch.try_into().unwrap()));
            }
        }
    }
    // extra stages (Miri / TSan / libFuzzer) run by ./check before this binary: each left a
    // JSON file {stage, observed:{..}, violations:[{signature,detail}], inconclusive:[..]}
    let mut stages_seen: Vec<String> = vec![];
    if let Ok(dir) = std::env::var("VERIF_STAGE_DIR") {
        if !dir.is_empty() {
            let mut files: Vec<PathBuf> = std::fs::read_dir(&dir)
                .map(|rd| rd.filter_map(|e| e.ok().map(|e| e.path())).collect())
                .unwrap_or_default();
            files.sort();
            for f in files {
                if f.extension().map(|x| x != "json").unwrap_or(true) {
                    continue;
                }
                let v: Value = match std::fs::read_to_string(&f)
                    .ok()
                    .and_then(|t| serde_json::from_str(&t).ok())
                {
                    Some(v) => v,
                    None => {
                        inconclusive.push(format!("stage file {} unreadable", f.display()));
                        continue;
                    }
                };
                let stage = v["stage"].as_str().unwrap_or("stage").to_string();
                stages_seen.push(stage.clone());
                for (n, c) in v["observed"].as_object().into_iter().flatten() {
                    *counters.entry(format!("{stage}:{n}")).or_insert(0) += c.as_u64().unwrap_or(0);
                }
                evaluations += v["evaluations"].as_u64().unwrap_or(0);
                for x in v["violations"].as_array().into_iter().flatten() {
                    violations_total += 1;
                    let sig = format!("{stage}:{}", x["signature"].as_str().unwrap_or("?"));
                    if !violations.iter().any(|y| y.signature == sig) {
                        violations.push(Finding {
                            phase: format!("stage:{stage}"),
                            idx: x["idx"].as_u64().unwrap_or(0),
                            signature: sig,
                            detail: x["detail"].clone(),
                        });
                    }
                }
                for x in v["inconclusive"].as_array().into_iter().flatten() {
                    inconclusive.push(format!("{stage}: {}", x.as_str().unwrap_or("?")));
                }
                for x in v["samples"].as_array().into_iter().flatten() {
                    samples.push(json!({"phase": format!("stage:{stage}"), "case": x}));
                }
            }
        }
    }
    hashes.sort_unstable();
    hashes.dedup();
    let by_construction = counters.remove("__distinct_by_construction").unwrap_or(0);
    let distinct = hashes.len() as u64 + by_construction;
    drop(hashes);

    // floors
    for (name, floor) in monitor.floors(args.tier) {
        let got = counters.get(name).copied().unwrap_or(0);
        let floor = if args.scale < 1.0 {
            ((floor as f64) * args.scale).floor() as u64
        } else {
            floor
        };
        if got < floor {
            inconclusive.push(format!(
                "observation floor not reached: counter '{name}' = {got} < {floor} (a run that observed nothing must not pass)"
            ));
        }
    }

    // known-finding matching
    let mut known_lines: Vec<String> = vec![];
    let mut known_observed: Vec<Value> = vec![];
    let mut real_violations: Vec<Finding> = vec![];
    for (kid, (n, f)) in &known {
        let entry = known_entries
            .iter()
            .find(|e| &e.id == kid && e.property == id);
        match entry {
            Some(e) if e.status == "open" => {
                known_lines.push(format!(
                    "KNOWN-FINDING: property={id} {}: {} (observed {n}x this run, first at phase={} idx={})",
                    e.id, e.what, f.phase, f.idx
                ));
                known_observed.push(json!({"id": e.id, "sightings": n, "first": f}));
            }
            Some(e) => {
                // listed as fixed: suppresses nothing
                real_violations.push(Finding {
                    phase: f.phase.clone(),
                    idx: f.idx,
                    signature: format!("regression-of-fixed:{kid}"),
                    detail: json!({"entry_status": e.status, "commit": e.commit, "sighting": f.detail}),
                });
            }
            None => real_violations.push(Finding {
                phase: f.phase.clone(),
                idx: f.idx,
                signature: format!("unlisted-finding:{kid}"),
                detail: f.detail.clone(),
            }),
        }
    }
    for v in violations {
        let entry = known_entries.iter().find(|e| {
            e.property == id
                && e.status == "open"
                && e.signature_prefix
                    .as_ref()
                    .map(|p| v.signature.starts_with(p.as_str()))
                    .unwrap_or(false)
        });
        match entry {
            Some(e) => {
                if !known_observed.iter().any(|k| k["id"] == e.id.as_str()) {
                    known_lines.push(format!(
                        "KNOWN-FINDING: property={id} {}: {} (first at phase={} idx={})",
                        e.id, e.what, v.phase, v.idx
                    ));
                    known_observed.push(json!({"id": e.id, "first": v}));
                }
            }
            None => real_violations.push(v),
        }
    }

    // replay files
    let replay_dir = root.join("replays");
    let _ = std::fs::create_dir_all(&replay_dir);
    let mut violation_lines = vec![];
    for v in real_violations.iter().take(12) {
        let h = stable_hash(&(v.signature.as_str(), v.phase.as_str(), v.idx, args.seed));
        let path = replay_dir.join(format!("{id}-{:016x}.json", h));
        let body = json!({
            "property": id, "tier": args.tier.name(), "seed": args.seed,
            "phase": v.phase, "idx": v.idx, "signature": v.signature, "detail": v.detail,
            "replay_cmd": format!("./check {id} --replay {}", path.display()),
        });
        let _ = std::fs::write(&path, serde_json::to_string_pretty(&body).unwrap_or_default());
        violation_lines.push(format!(
            "VIOLATION property={id} replay={} signature={}",
            path.display(),
            v.signature
        ));
    }

    // evidence
    let wall = start.elapsed().as_secs_f64();
    let all_exhaustive = !phases.is_empty() && phases.iter().all(|p| p.exhaustive.is_some());
    let exhaustive_subspaces: Vec<Value> = phases
        .iter()
        .filter_map(|p| {
            p.exhaustive
                .map(|e| json!({"phase": p.name, "subspace": e, "cases": p.cases}))
        })
        .collect();
    // keep at most 8 samples, spread over phases
    let mut kept: Vec<Value> = vec![];
    let mut per_phase: BTreeMap<String, usize> = BTreeMap::new();
    for s in samples {
        let ph = s["phase"].as_str().unwrap_or("").to_string();
        let c = per_phase.entry(ph).or_insert(0);
        if *c < 2 && kept.len() < 10 {
            *c += 1;
            kept.push(s);
        }
    }
    let verdict = if !real_violations.is_empty() {
        "violated"
    } else if !inconclusive.is_empty() {
        "inconclusive"
    } else {
        "held-on-observed"
    };
    let skipped: BTreeMap<&String, &u64> = counters
        .iter()
        .filter(|(k, _)| k.starts_with("skipped:"))
        .collect();
    let complete = completed_shards == w && !timed_out && inconclusive.is_empty();
    let evidence = json!({
        "property_id": id,
        "tier": args.tier.name(),
        "seed": args.seed as i64,
        "level": "exploration",
        "coverage": {
            "evaluations": evaluations,
            "distinct_nontrivial": distinct,
            "distinct_count_is_lower_bound": capped,
            "rule": monitor.rule(),
            "samples": kept,
            "exhaustive": all_exhaustive && complete,
            "exhaustive_subspaces": if complete { Value::Array(exhaustive_subspaces) } else { json!([]) },
            "phases": phases.iter().map(|p| json!({"name": p.name, "cases": p.cases})).collect::<Vec<_>>(),
            "observed": counters,
            "skipped_outside_quantifier": skipped,
            "known_findings_observed": known_observed,
            "calibration": cal.res.counters,
            "verdict": verdict,
            "inconclusive_reasons": inconclusive,
            "violation_signatures": real_violations.iter().map(|v| v.signature.clone()).collect::<Vec<_>>(),
            "violating_cases_total": violations_total,
            "workers": w,
            "extra_stages": stages_seen,
        },
        "assumptions": monitor.assumptions(),
        "wall_s": (wall * 100.0).round() / 100.0,
        "violations": real_violations.len(),
    });
    let ev_dir = root.join("evidence");
    let _ = std::fs::create_dir_all(&ev_dir);
    let ev_path = ev_dir.join(format!("{id}.json"));
    if let Err(e) = std::fs::write(
        &ev_path,
        serde_json::to_string_pretty(&evidence).unwrap_or_default() + "\n",
    ) {
        eprintln!("cannot write evidence: {e}");
    }

    // report
    println!(
        "[{id}] tier={} seed={} workers={w} evaluations={evaluations} distinct_nontrivial={distinct} wall={wall:.1}s",
        args.tier.name(),
        args.seed as i64
    );
    let observed = evidence["coverage"]["observed"].as_object();
    let total = observed.map(|o| o.len()).unwrap_or(0);
    for (i, (n, c)) in observed.into_iter().flatten().enumerate() {
        if i >= 40 {
            println!("[{id}]   ... {} more observation counters in {}", total - 40, ev_path.display());
            break;
        }
        println!("[{id}]   observed {n} = {c}");
    }
    for l in &known_lines {
        println!("{l}");
    }
    if std::env::var("VERIF_KEEP_WORK").is_err() {
        let _ = std::fs::remove_dir_all(&out);
    }
    if !violation_lines.is_empty() {
        for l in &violation_lines {
            println!("{l}");
        }
        return 1;
    }
    if !inconclusive.is_empty() {
        for r in inconclusive.iter().take(10) {
            println!("INCONCLUSIVE property={id} reason={r}");
        }
        return 2;
    }
    println!("[{id}] held on everything explored");
    0
}
