//! vcore: the part of the machinery every monitor shares.
//!
//! * `Monitor` - what a property check implements: named phases of numbered cases, and
//!   `run_case(phase, idx, rng, obs)` which drives the real code and reports what it observed.
//! * `Obs` - the observation sink: counters, distinct-case hashes, samples, violations,
//!   known-finding sightings, inconclusive reasons.
//! * `run_main` - driver: shards cases over worker *processes* (a crash in the code under test
//!   kills one worker, whose journal names the case), merges, matches known findings, writes
//!   `/verif/evidence/<id>.json`, replay files, and decides the exit code:
//!   0 held / 1 VIOLATION / 2 INCONCLUSIVE.

pub mod fuzzglue;
pub mod panics;
pub mod rng;
mod runner;

pub use panics::{catch, BudgetExceeded, PanicInfo};
pub use rng::{stable_hash, Rng};
pub use runner::run_main;
pub use serde_json::{json, Value};

use std::collections::{BTreeMap, HashSet};

/// Root of the repository under test: `/repo`, or the scratch worktree when run through
/// `tools/scratch.sh` (env `VERIF_REPO`). Use it for anything read from the repo at run time
/// (corpus fonts, golden files): `vcore::repo_dir().join("crates/tfm/corpus")`.
pub fn repo_dir() -> std::path::PathBuf {
    std::path::PathBuf::from(std::env::var("VERIF_REPO").unwrap_or_else(|_| "/repo".to_string()))
}

#[derive(Clone, Copy, Debug, PartialEq, Eq)]
pub enum Tier {
    Quick,
    Thorough,
}

impl Tier {
    pub fn name(self) -> &'static str {
        match self {
            Tier::Quick => "quick",
            Tier::Thorough => "thorough",
        }
    }
    /// Convenience: pick a size by tier.
    pub fn pick(self, quick: u64, thorough: u64) -> u64 {
        match self {
            Tier::Quick => quick,
            Tier::Thorough => thorough,
        }
    }
}

/// A named block of numbered cases. Cases `0..cases` are split into batches of `batch`
/// consecutive indices; batches are dealt round-robin to the worker processes.
#[derive(Clone, Debug)]
pub struct Phase {
    pub name: &'static str,
    pub cases: u64,
    pub batch: u64,
    /// Set to the name of the finite sub-space when `0..cases` enumerates it completely.
    pub exhaustive: Option<&'static str>,
}

impl Phase {
    pub fn new(name: &'static str, cases: u64) -> Phase {
        Phase {
            name,
            cases,
            batch: 64,
            exhaustive: None,
        }
    }
    pub fn batch(mut self, b: u64) -> Phase {
        self.batch = b.max(1);
        self
    }
    pub fn exhaustive(mut self, what: &'static str) -> Phase {
        self.exhaustive = Some(what);
        self
    }
}

pub trait Monitor: Sync {
    /// "C01"
    fn id(&self) -> &'static str;
    /// How cases are generated and what makes one non-trivial / distinct (goes into evidence).
    fn rule(&self) -> String;
    /// What the check assumes or trusts (goes into evidence).
    fn assumptions(&self) -> Vec<String>;
    fn phases(&self, tier: Tier) -> Vec<Phase>;
    /// Counters that must reach a minimum for the run to count as having observed anything.
    /// Below the floor the run is INCONCLUSIVE.
    fn floors(&self, tier: Tier) -> Vec<(&'static str, u64)> {
        let _ = tier;
        vec![]
    }
    /// Model calibration against repository ground truth, run once by the parent before any
    /// worker starts. Report failures with `obs.inconclusive`.
    fn calibrate(&self, obs: &mut Obs) {
        let _ = obs;
    }
    /// Run one case. Must be a pure function of (phase, idx, rng-as-given).
    fn run_case(&self, phase: &str, idx: u64, rng: &mut Rng, obs: &mut Obs);
    /// Watchdog for the whole run (seconds of load-independent time per worker: CPU time while runnable, wall clock while
    /// blocked; see runner::worker_progress); firing is INCONCLUSIVE.
    fn watchdog_s(&self, tier: Tier) -> u64 {
        match tier {
            Tier::Quick => 900,
            Tier::Thorough => 4 * 3600,
        }
    }
    /// Stack size for the thread that runs the cases.
    fn stack_bytes(&self) -> usize {
        1 << 30
    }
}

#[derive(Clone, Debug, serde::Serialize, serde::Deserialize)]
pub struct Finding {
    pub phase: String,
    pub idx: u64,
    /// Stable identity of *what* failed (used to de-duplicate and to key known findings).
    pub signature: String,
    pub detail: Value,
}

#[derive(Default, serde::Serialize, serde::Deserialize)]
pub struct ShardResult {
    pub counters: BTreeMap<String, u64>,
    pub samples: Vec<Value>,
    pub violations: Vec<Finding>,
    pub violations_total: u64,
    /// known-finding id -> (sightings, first sighting)
    pub known: BTreeMap<String, (u64, Finding)>,
    pub inconclusive: Vec<String>,
    pub evaluations: u64,
    pub distinct_capped: bool,
    pub completed: bool,
}

/// Observation sink handed to `run_case`.
pub struct Obs {
    pub(crate) res: ShardResult,
    pub(crate) distinct: HashSet<u64>,
    pub(crate) cur_phase: String,
    pub(crate) cur_idx: u64,
    pub(crate) samples_this_phase: usize,
    /// True when a single case is being replayed: monitors may print what they see.
    pub verbose: bool,
    pub tier: Tier,
    pub seed: u64,
}

const MAX_DISTINCT_PER_SHARD: usize = 6_000_000;
const MAX_VIOLATIONS_PER_SHARD: usize = 40;
const SAMPLES_PER_PHASE_PER_SHARD: usize = 2;

impl Obs {
    pub(crate) fn new(tier: Tier, seed: u64) -> Obs {
        Obs {
            res: Default::default(),
            distinct: Default::default(),
            cur_phase: String::new(),
            cur_idx: 0,
            samples_this_phase: 0,
            verbose: false,
            tier,
            seed,
        }
    }

    /// Add `n` to an observation counter.
    pub fn add(&mut self, name: &str, n: u64) {
        if let Some(c) = self.res.counters.get_mut(name) {
            *c += n;
        } else {
            self.res.counters.insert(name.to_string(), n);
        }
    }

    pub fn count(&mut self, name: &str) {
        self.add(name, 1)
    }

    /// Declare the current case non-trivial, with a hash of its canonical form.
    pub fn nontrivial<T: std::hash::Hash + ?Sized>(&mut self, canonical: &T) {
        self.nontrivial_hash(stable_hash(canonical))
    }

    pub fn nontrivial_hash(&mut self, h: u64) {
        if self.distinct.len() < MAX_DISTINCT_PER_SHARD {
            self.distinct.insert(h);
        } else {
            self.res.distinct_capped = true;
        }
    }

    /// For enumerated spaces where every index is a distinct case by construction: count without
    /// storing (the parent adds these to the hash-set size).
    pub fn nontrivial_by_construction(&mut self, n: u64) {
        self.add("__distinct_by_construction", n);
    }

    /// Offer a sample of what was explored (only the first few per phase are kept).
    pub fn wants_sample(&self) -> bool {
        self.verbose || self.samples_this_phase < SAMPLES_PER_PHASE_PER_SHARD
    }

    pub fn sample(&mut self, v: Value) {
        if self.verbose {
            println!("SAMPLE {}", serde_json::to_string_pretty(&v).unwrap_or_default());
        }
        if self.samples_this_phase < SAMPLES_PER_PHASE_PER_SHARD {
            self.samples_this_phase += 1;
            self.res.samples.push(json!({
                "phase": self.cur_phase, "idx": self.cur_idx, "case": v
            }));
        }
    }

    /// The property was violated on this case.
    pub fn violation(&mut self, signature: impl Into<String>, detail: Value) {
        let signature = signature.into();
        self.res.violations_total += 1;
        if self.verbose {
            println!(
                "VIOLATION-DETAIL signature={signature}\n{}",
                serde_json::to_string_pretty(&detail).unwrap_or_default()
            );
        }
        // keep the first instance per signature, bounded
        if self.res.violations.iter().any(|v| v.signature == signature) {
            return;
        }
        if self.res.violations.len() < MAX_VIOLATIONS_PER_SHARD {
            self.res.violations.push(Finding {
                phase: self.cur_phase.clone(),
                idx: self.cur_idx,
                signature,
                detail,
            });
        }
    }

    /// A deviation that the monitor attributes - by trigger predicate *and* deviation model -
    /// to a finding id. It is only suppressed if `known_findings.json` lists that id as open.
    pub fn known(&mut self, finding_id: &str, detail: Value) {
        if self.verbose {
            println!(
                "KNOWN-DETAIL id={finding_id}\n{}",
                serde_json::to_string_pretty(&detail).unwrap_or_default()
            );
        }
        match self.res.known.get_mut(finding_id) {
            Some(e) => e.0 += 1,
            None => {
                self.res.known.insert(
                    finding_id.to_string(),
                    (
                        1,
                        Finding {
                            phase: self.cur_phase.clone(),
                            idx: self.cur_idx,
                            signature: finding_id.to_string(),
                            detail,
                        },
                    ),
                );
            }
        }
    }

    /// A repo panic observed by a monitor: violation keyed by the panic site signature. The
    /// parent matches the signature against `known_findings.json` (`panic_signature` entries).
    pub fn repo_panic(&mut self, p: &PanicInfo, detail: Value) {
        if p.budget {
            self.count("budget_exceeded");
            return;
        }
        if !p.in_repo() {
            self.inconclusive(format!(
                "panic outside /repo at {}:{}: {}",
                p.file, p.line, p.message
            ));
            return;
        }
        let mut d = detail;
        if let Value::Object(m) = &mut d {
            m.insert("panic".into(), serde_json::to_value(p).unwrap_or(Value::Null));
        }
        self.violation(p.signature(), d);
    }

    /// The case could not be decided (model disagreement, harness problem). Never a verdict.
    pub fn inconclusive(&mut self, reason: impl Into<String>) {
        let r = format!(
            "{} (phase {} idx {})",
            reason.into(),
            self.cur_phase,
            self.cur_idx
        );
        if self.verbose {
            println!("INCONCLUSIVE-DETAIL {r}");
        }
        if self.res.inconclusive.len() < 20 {
            self.res.inconclusive.push(r);
        }
        self.count("__inconclusive_cases");
    }

    /// The case lies outside the property's quantifier (counted, not failed).
    pub fn skip(&mut self, reason: &str) {
        self.add(&format!("skipped:{reason}"), 1);
    }

    pub fn phase(&self) -> &str {
        &self.cur_phase
    }
    pub fn idx(&self) -> u64 {
        self.cur_idx
    }
}
