//! Deterministic PRNG. Every case derives its own generator from
//! (VERIF_SEED, property id, phase name, case index), so a replay needs only those four.

#[derive(Clone, Debug)]
pub struct Rng {
    s: [u64; 4],
}

pub fn splitmix64(x: &mut u64) -> u64 {
    *x = x.wrapping_add(0x9E37_79B9_7F4A_7C15);
    let mut z = *x;
    z = (z ^ (z >> 30)).wrapping_mul(0xBF58_476D_1CE4_E5B9);
    z = (z ^ (z >> 27)).wrapping_mul(0x94D0_49BB_1331_11EB);
    z ^ (z >> 31)
}

pub fn fnv1a(bytes: &[u8]) -> u64 {
    let mut h: u64 = 0xcbf2_9ce4_8422_2325;
    for b in bytes {
        h ^= *b as u64;
        h = h.wrapping_mul(0x0000_0100_0000_01b3);
    }
    h
}

/// Stable 64-bit hash of anything `Hash` (used for distinct counting). Not `RandomState`: the
/// result must be the same in every worker process.
pub fn stable_hash<T: std::hash::Hash + ?Sized>(t: &T) -> u64 {
    use std::hash::Hasher;
    struct H(u64);
    impl Hasher for H {
        fn finish(&self) -> u64 {
            let mut x = self.0;
            splitmix64(&mut x)
        }
        fn write(&mut self, bytes: &[u8]) {
            for b in bytes {
                self.0 ^= *b as u64;
                self.0 = self.0.wrapping_mul(0x0000_0100_0000_01b3);
            }
        }
    }
    let mut h = H(0xcbf2_9ce4_8422_2325);
    t.hash(&mut h);
    h.finish()
}

impl Rng {
    pub fn new(seed: u64) -> Rng {
        let mut x = seed;
        let s = [
            splitmix64(&mut x),
            splitmix64(&mut x),
            splitmix64(&mut x),
            splitmix64(&mut x),
        ];
        Rng { s }
    }

    pub fn for_case(seed: u64, property: &str, phase: &str, idx: u64) -> Rng {
        let mut x = seed ^ fnv1a(property.as_bytes()).rotate_left(17);
        let a = splitmix64(&mut x);
        x ^= fnv1a(phase.as_bytes());
        let b = splitmix64(&mut x);
        x ^= idx.wrapping_mul(0xD6E8_FEB8_6659_FD93);
        let c = splitmix64(&mut x);
        Rng::new(a ^ b.rotate_left(21) ^ c.rotate_left(42))
    }

    #[inline]
    pub fn next_u64(&mut self) -> u64 {
        let result = self.s[1].wrapping_mul(5).rotate_left(7).wrapping_mul(9);
        let t = self.s[1] << 17;
        self.s[2] ^= self.s[0];
        self.s[3] ^= self.s[1];
        self.s[1] ^= self.s[2];
        self.s[0] ^= self.s[3];
        self.s[2] ^= t;
        self.s[3] = self.s[3].rotate_left(45);
        result
    }

    #[inline]
    pub fn next_u32(&mut self) -> u32 {
        (self.next_u64() >> 32) as u32
    }

    /// Uniform in `0..n` (n > 0).
    #[inline]
    pub fn below(&mut self, n: u64) -> u64 {
        debug_assert!(n > 0);
        ((self.next_u64() as u128 * n as u128) >> 64) as u64
    }

    #[inline]
    pub fn usize_below(&mut self, n: usize) -> usize {
        self.below(n as u64) as usize
    }

    /// Uniform in `lo..=hi`.
    #[inline]
    pub fn range_i64(&mut self, lo: i64, hi: i64) -> i64 {
        debug_assert!(lo <= hi);
        let span = (hi as i128 - lo as i128 + 1) as u128;
        let r = ((self.next_u64() as u128 * span) >> 64) as i128;
        (lo as i128 + r) as i64
    }

    #[inline]
    pub fn range_i32(&mut self, lo: i32, hi: i32) -> i32 {
        self.range_i64(lo as i64, hi as i64) as i32
    }

    #[inline]
    pub fn range_usize(&mut self, lo: usize, hi: usize) -> usize {
        self.range_i64(lo as i64, hi as i64) as usize
    }

    /// True with probability `num/den`.
    #[inline]
    pub fn chance(&mut self, num: u64, den: u64) -> bool {
        self.below(den) < num
    }

    #[inline]
    pub fn coin(&mut self) -> bool {
        self.next_u64() & 1 == 1
    }

    #[inline]
    pub fn pick<'a, T>(&mut self, xs: &'a [T]) -> &'a T {
        &xs[self.usize_below(xs.len())]
    }

    /// Pick an index according to integer weights.
    pub fn weighted(&mut self, weights: &[u32]) -> usize {
        let total: u64 = weights.iter().map(|w| *w as u64).sum();
        let mut r = self.below(total);
        for (i, w) in weights.iter().enumerate() {
            if r < *w as u64 {
                return i;
            }
            r -= *w as u64;
        }
        weights.len() - 1
    }

    pub fn shuffle<T>(&mut self, xs: &mut [T]) {
        for i in (1..xs.len()).rev() {
            let j = self.usize_below(i + 1);
            xs.swap(i, j);
        }
    }

    /// A 32-bit integer biased toward the boundaries that matter for TeX arithmetic.
    pub fn i32_hostile(&mut self) -> i32 {
        const B: &[i64] = &[
            0,
            1,
            2,
            3,
            7,
            10,
            255,
            256,
            32767,
            32768,
            65535,
            65536,
            65537,
            (1 << 24) - 1,
            1 << 24,
            (1 << 30) - 1,
            1 << 30,
            (1 << 30) + 1,
            i32::MAX as i64 - 1,
            i32::MAX as i64,
        ];
        match self.below(10) {
            0..=4 => {
                let b = *self.pick(B);
                let d = self.range_i64(-2, 2);
                let v = if self.coin() { b + d } else { -(b + d) };
                v.clamp(i32::MIN as i64, i32::MAX as i64) as i32
            }
            5 => i32::MIN,
            6 => self.range_i32(-1000, 1000),
            7 => self.range_i32(-70000, 70000),
            _ => self.next_u32() as i32,
        }
    }
}

#[cfg(test)]
mod tests {
    use super::*;
    #[test]
    fn deterministic() {
        let mut a = Rng::for_case(3, "C01", "random", 17);
        let mut b = Rng::for_case(3, "C01", "random", 17);
        let mut c = Rng::for_case(3, "C01", "random", 18);
        let x: Vec<u64> = (0..4).map(|_| a.next_u64()).collect();
        let y: Vec<u64> = (0..4).map(|_| b.next_u64()).collect();
        let z: Vec<u64> = (0..4).map(|_| c.next_u64()).collect();
        assert_eq!(x, y);
        assert_ne!(x, z);
    }
    #[test]
    fn ranges() {
        let mut r = Rng::new(1);
        for _ in 0..10000 {
            let v = r.range_i64(-3, 3);
            assert!((-3..=3).contains(&v));
            assert!(r.below(7) < 7);
            let _ = r.i32_hostile();
        }
        assert_eq!(r.range_i64(i64::MIN, i64::MIN), i64::MIN);
    }
}
