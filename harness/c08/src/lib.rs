//! Monitor for property C08 - checkpoint transparency (DESIGN.md §6 C08).
//!
//! Differential execution of two configurations of the real code:
//!  (a) one VM runs the lines of a program one after the other (each line its own source, run to
//!      exhaustion);
//!  (b) for EVERY line boundary k and each of JSON / MessagePack / bincode: the state after line k
//!      is serialised, deserialised with the same built-ins, and the remaining lines run there.
//! Everything observable must agree line by line: delivered output, fatal error (title and
//! rendered text), recovered-error count, font events, and at the end a dump of registers, codes,
//! current font and the H2 stack sizes. No external model is needed.

use serde_json::json;
use vcore::*;
use vstate::texlang::vm::VM;
use vstate::{Event, Format, VState, VmOptions};

pub struct M;
pub static MONITOR: M = M;

const MACS: [&str; 5] = ["\\ma", "\\mb", "\\mc", "~", "!"];
const REGS: [u32; 4] = [1, 2, 3, 255];

fn num(rng: &mut Rng) -> i64 {
    match rng.below(6) {
        0 => rng.range_i64(-3, 3),
        1 => rng.range_i64(0, 15),
        2 => rng.range_i64(0, 255),
        _ => rng.range_i64(-1000, 100000),
    }
}

fn mac(rng: &mut Rng) -> &'static str {
    MACS[rng.usize_below(MACS.len())]
}

fn reg(rng: &mut Rng) -> u32 {
    REGS[rng.usize_below(REGS.len())]
}

fn global(rng: &mut Rng) -> &'static str {
    if rng.chance(1, 3) {
        "\\global"
    } else {
        ""
    }
}

/// Generator-side bookkeeping so that most lines are valid where they stand (a program that dies
/// on its third line exercises little). It is only a heuristic - skipped conditional branches make
/// it imprecise - and precision is not needed: the oracle is differential.
#[derive(Default)]
struct Track {
    depth: usize,
    conds: Vec<bool>, // true = \ifcase (\or allowed)
    open_streams: Vec<i64>,
    fresh: u32,
}

/// One line of a generated program. Differential checking needs no model, so lines may be
/// anything: erroneous, unbalanced, leaving conditionals or groups open across the checkpoint.
fn gen_line(rng: &mut Rng, t: &mut Track) -> String {
    t.fresh += 1;
    let f = t.fresh;
    let wild = rng.chance(1, 25);
    loop {
        let choice = rng.below(68);
        let line: String = match choice {
            0..=5 => {
                if t.depth >= 5 && !wild {
                    continue;
                }
                t.depth += 1;
                "{".into()
            }
            6..=9 => {
                if t.depth == 0 && !wild {
                    continue;
                }
                t.depth = t.depth.saturating_sub(1);
                "}".into()
            }
            10..=12 => format!("{}\\count{}={}\\relax", global(rng), reg(rng), num(rng)),
            13 => format!("{}\\advance\\count{} by {}\\relax", global(rng), reg(rng), num(rng)),
            14..=15 => format!("{}\\dimen{}={}sp\\relax", global(rng), reg(rng), num(rng)),
            16..=17 => format!(
                "{}\\skip{}={}pt plus {}fil minus {}pt\\relax",
                global(rng),
                reg(rng),
                rng.range_i64(-50, 50),
                rng.range_i64(0, 9),
                rng.range_i64(0, 9)
            ),
            18..=19 => format!("{}\\toks{}={{t{f}\\ma #}}", global(rng), reg(rng)),
            20..=22 => format!("{}\\def{}{{m{f}}}", global(rng), mac(rng)),
            23 => format!("\\gdef{}#1#2{{<#1|#2|m{f}>}}", mac(rng)),
            // delimited parameters: the delimiter is stored in the macro (a matcher over a non-empty vector of tokens) and
            // has to come back from a checkpoint token for token, in order - also when it has three or more tokens
            24 => format!(
                "{}\\def{}#1{}{{(#1:m{f})}}",
                global(rng),
                mac(rng),
                rng.pick(&[".", ".", "xyz", "xyz", "x\\relax z", "abcd.", ";;;:", "#2xyzw"])
            ),
            25..=26 => format!("{}\\let{}={}", global(rng), mac(rng), mac(rng)),
            27 => format!("{}\\let{}=\\relax", global(rng), mac(rng)),
            28 => format!("{}\\let{}=a", global(rng), mac(rng)),
            29 => format!("{}\\countdef\\ca={}\\relax", global(rng), reg(rng)),
            30 => format!("\\toksdef\\ta={}\\relax", reg(rng)),
            31 => format!("\\chardef\\cb={}\\relax", rng.range_i64(0, 300)),
            32 => format!("\\mathchardef\\cm={}\\relax", rng.range_i64(0, 32767)),
            33 => format!(
                "{}\\catcode`\\{}={}\\relax",
                global(rng),
                rng.pick(&["Q", "Z", "~", "!", "<"]),
                rng.pick(&[3, 4, 7, 8, 11, 12, 13])
            ),
            34 => format!("{}\\mathcode`\\Q={}\\relax", global(rng), rng.range_i64(0, 32768)),
            35 => format!(
                "{}\\endlinechar={}\\relax",
                global(rng),
                rng.pick(&[-1i64, 13, 13, 32, 32, -1, 65])
            ),
            36 => format!("\\globaldefs={}\\relax", rng.range_i64(-1, 1)),
            37 => format!(
                "{}\\font\\f{}={} ",
                global(rng),
                rng.pick(&["a", "b"]),
                if wild { "nofont" } else { *rng.pick(&["a", "b", "c"]) }
            ),
            38 => format!("{}{} ", global(rng), rng.pick(&["\\fa", "\\fb", "\\nullfont"])),
            39 => {
                let x = ["a", "b", "c"][(f % 3) as usize];
                format!("\\newInt\\ni{x} \\ni{x}={}\\relax", num(rng))
            }
            40 => {
                let x = ["a", "b"][(f % 2) as usize];
                format!("\\newIntArray\\na{x} 4 \\na{x} 2={}\\relax", num(rng))
            }
            41 => format!(
                "[\\the\\ni{} \\the\\na{} 2 ]",
                ["a", "b", "c"][(f % 3) as usize],
                ["a", "b"][(f % 2) as usize]
            ),
            // Conditionals: every line is run to the exhaustion of its input, so a branch that
            // is being *skipped* cannot span a line end (that is an end-of-input error in TeX
            // too). What can stay open across lines - and across the checkpoint - is a branch
            // that is being *executed*; these forms guarantee that.
            42 => {
                t.conds.push(false);
                format!("\\iftrue y{f}")
            }
            43 => {
                t.conds.push(false);
                format!("\\iffalse n{f}\\else e{f}")
            }
            44 => {
                t.conds.push(false);
                format!("\\count{}={}\\relax\\ifodd\\count{} o{f}", REGS[0], 2 * rng.range_i64(-9, 9) + 1, REGS[0])
            }
            45 => {
                t.conds.push(true);
                let n = rng.range_i64(0, 3);
                format!("\\ifcase{n} {}c{n}", "x\\or ".repeat(n as usize))
            }
            46 => {
                // closed conditional with a register operand: either branch, nothing left open
                format!(
                    "\\ifnum\\count{}{}{} y{f}\\else n{f}\\fi",
                    reg(rng),
                    rng.pick(&["<", "=", ">"]),
                    num(rng)
                )
            }
            47..=48 => {
                // leaving the executed branch: the rest up to \fi is skipped on this same line
                if t.conds.is_empty() && !wild {
                    continue;
                }
                t.conds.pop();
                format!("\\else e{f}\\fi")
            }
            49..=51 => {
                if t.conds.is_empty() && !wild {
                    continue;
                }
                t.conds.pop();
                "\\fi".into()
            }
            52 => {
                let n = rng.range_i64(0, 3);
                let file = if wild { "nofile" } else { *rng.pick(&["f", "g"]) };
                if !t.open_streams.contains(&n) && file != "nofile" {
                    t.open_streams.push(n);
                }
                format!("\\openin{n}={file} ")
            }
            53 => {
                if t.open_streams.is_empty() {
                    continue;
                }
                format!("\\read{} to{}", rng.pick(&t.open_streams), mac(rng))
            }
            54 => format!("\\ifeof{} T\\else F\\fi", rng.range_i64(0, 3)),
            55 => {
                let n = rng.range_i64(0, 3);
                t.open_streams.retain(|x| *x != n);
                format!("\\closein{n} ")
            }
            56 => format!("\\input {} ", rng.pick(&["f", "g", "h"])),
            57 => {
                // a control sequence name never seen before (interner growth across the checkpoint)
                let name: String = format!("{f}")
                    .chars()
                    .map(|d| (b'a' + (d as u8 - b'0')) as char)
                    .collect();
                format!("\\def\\zz{name}{{z{f}}}\\zz{name} ")
            }
            58 => rng
                .pick(&["\\scrollmode", "\\nonstopmode", "\\errorstopmode", "\\batchmode", "\\scrollmode"])
                .to_string(),
            59 => format!("\\year={} \\day={}\\relax", num(rng), num(rng)),
            60 => "\\def\\md#1.{<#1>}\\expandafter\\md\\mc ab.".into(),
            // reads
            61 => format!(
                "[\\the\\count{} \\the\\dimen{} \\the\\skip{} \\the\\toks{}]",
                reg(rng),
                reg(rng),
                reg(rng),
                reg(rng)
            ),
            // the argument text holds a near miss and then every delimiter choice 24 can define
            62 => format!("[{} xy.]", mac(rng)),
            // the singleton variables of the job component (state outside the register banks)
            66..=67 => format!(
                "\\dumpValidate={} \\dumpFormat={} [\\the\\dumpValidate \\the\\dumpFormat]",
                num(rng),
                num(rng)
            ),
            64..=65 => format!("[{} abxzyc xyz x\\relax z abcd. ;;;: pxyzw .]", mac(rng)),
            _ => "[\\the\\ca \\the\\cb \\the\\catcode`\\Q \\the\\endlinechar \\the\\globaldefs \\the\\ta]".into(),
        };
        return line;
    }
}

const PREAMBLE: &[&str] = &[
    "\\catcode`\\~=13 \\catcode`\\!=13 \\font\\fa=a \\font\\fb=b \\countdef\\ca=1 \\toksdef\\ta=2 \\chardef\\cb=66 \\newInt\\nia \\newInt\\nib \\newInt\\nic \\newIntArray\\naa 4 \\newIntArray\\nab 4 ",
    "\\def\\ma{A}\\def\\mb#1.{(#1)}\\def\\mc{C}\\def~{T}\\def!{E}\\mathchardef\\cm=5 ",
];

fn files() -> Vec<(String, String)> {
    vec![
        ("f.tex".into(), "F1 {x}\nF2 \\count3=9 \nF3".into()),
        ("g.tex".into(), "G1\n{G2\nG3}\nG4\n".into()),
        ("h.tex".into(), "\\input f H\\endinput X\n".into()),
    ]
}

fn opts() -> VmOptions {
    VmOptions {
        budget: 200_000,
        files: files(),
        terminal_lines: vec![],
        ..Default::default()
    }
}

/// What one line did, as seen from outside.
#[derive(Debug, Clone, PartialEq, Eq)]
struct LineObs {
    out: String,
    err: Option<(String, String)>,
    recovered: u64,
    fonts: Vec<u32>,
}

/// The spelling suggestion of an "undefined control sequence" error ("did you mean \\x?") is
/// chosen among equally close candidates in HashMap iteration order: it differs between two
/// identical uninterrupted runs (observed: \\def vs \\gdef), so it says nothing about the
/// checkpoint and is not compared.
fn normalise_rendered(r: &str) -> String {
    r.lines()
        .filter(|l| !l.contains("did you mean"))
        .collect::<Vec<_>>()
        .join("\n")
}

fn run_line(vm: &mut VM<VState>, k: usize, line: &str) -> LineObs {
    let before = vm.state.mon.recovered.get();
    let o = vstate::run(vm, &format!("l{k}.tex"), line);
    let out = vstate::take_out(vm);
    let fonts = vstate::take_events(vm)
        .into_iter()
        .filter_map(|e| match e {
            Event::EnableFont(f) => Some(f),
            _ => None,
        })
        .collect();
    LineObs {
        out,
        err: match o {
            vstate::Outcome::Ok => None,
            vstate::Outcome::Err { title, rendered } => Some((title, normalise_rendered(&rendered))),
        },
        recovered: vm.state.mon.recovered.get() - before,
        fonts,
    }
}

/// State dump read straight from the VM (not through TeX).
fn dump(vm: &VM<VState>) -> serde_json::Value {
    let s = vm.verif_snapshot();
    let ci = vm.state.registers_i32.values();
    let cd = vm.state.registers_scaled.values();
    let cg = vm.state.registers_glue.values();
    let ct = vm.state.registers_token_list.values();
    let interner = vm.cs_name_interner();
    let regs: Vec<serde_json::Value> = REGS
        .iter()
        .map(|r| {
            let r = *r as usize;
            json!({
                "count": ci[r], "dimen": format!("{}", cd[r]), "skip": format!("{}", cg[r]),
                "toks": vstate::tokens_to_string(&ct[r], interner),
            })
        })
        .collect();
    let cats: Vec<String> = ['Q', 'Z', '~', '!', '[', '<']
        .iter()
        .map(|c| format!("{:?}", vm.state.codes_cat_code.get(*c as usize)))
        .collect();
    use vstate::texlang::traits::TexlangState;
    json!({
        "regs": regs,
        "catcodes": cats,
        "mathcode_Q": format!("{:?}", vm.state.codes_math_code.get('Q' as usize)),
        "endlinechar": format!("{:?}", vm.state.end_line_char()),
        "font": vm.current_font().0,
        "groups": [s.commands_groups, s.active_char_groups, s.save_stack_len, s.font_stack_len],
        "save_entries": s.save_stack_entries,
        "exec_stack": s.exec_stack_len,
        "sources": s.num_sources,
    })
}

const READBACK: &[&str] = &[
    "[\\the\\count1 \\the\\count2 \\the\\count3 \\the\\count255 \\the\\dimen1 \\the\\skip2 \\the\\toks1 \\the\\toks3 ]",
    "[\\the\\ca \\the\\cb \\the\\cm \\the\\catcode`\\Q \\the\\mathcode`\\Q \\the\\endlinechar \\the\\globaldefs \\the\\year \\the\\nia \\the\\nib \\the\\naa 2 \\the\\nab 2 ]",
    "[\\the\\dumpValidate \\the\\dumpFormat ]",
    "[\\ma]",
    "[\\mb pq.]",
    "[\\mc]",
    "[~]",
    "[!]",
];

fn final_lines(t: &Track) -> Vec<String> {
    let mut v: Vec<String> = vec![];
    for _ in 0..t.conds.len() {
        v.push("\\fi".into());
    }
    v.extend(READBACK.iter().map(|s| s.to_string()));
    for _ in 0..t.depth {
        v.push("}[\\the\\count1 \\the\\dimen2 \\the\\toks1 \\ma ~]".into());
    }
    v
}

fn check_program(lines: &[String], obs: &mut Obs) {
    let o = opts();
    let all_formats = obs.tier == Tier::Thorough || obs.phase() == "known";
    let rot = obs.idx() as usize;
    // (a) reference execution, keeping serialised checkpoints
    let lines_a: Vec<String> = lines.to_vec();
    let oa = opts();
    let ra = vcore::catch(move || {
        let mut vm = vstate::new_vm(&oa);
        let mut per_line = vec![];
        let mut checkpoints: Vec<Vec<(Format, Result<Box<VM<VState>>, String>)>> = vec![];
        let mut dump_final = serde_json::Value::Null;
        for (k, line) in lines_a.iter().enumerate() {
            let lo = run_line(&mut vm, k, line);
            let fatal = lo.err.is_some();
            per_line.push(lo);
            if fatal {
                break; // after a fatal error the pending input is not exhausted: no checkpoint
            }
            if k + 1 < lines_a.len() {
                let mut c = vec![];
                for (fi, f) in [Format::Json, Format::MessagePack, Format::Bincode]
                    .into_iter()
                    .enumerate()
                {
                    // quick tier: one format per boundary, rotating; thorough: all three
                    if all_formats || (k + rot) % 3 == fi {
                        c.push((f, vstate::checkpoint(&vm, f, &oa)));
                    }
                }
                checkpoints.push(c);
            }
            dump_final = dump(&vm);
        }
        (per_line, checkpoints, dump_final)
    });
    let (per_line, checkpoints, dump_a) = match ra {
        Ok(x) => x,
        Err(p) => {
            // a panic in the plain run is C09's subject; a panic in (de)serialisation is ours
            if p.repo_file.contains("serde") || p.message.contains("serial") {
                obs.repo_panic(&p, json!({"program": lines, "where": "reference run / checkpointing"}));
            } else if p.budget {
                obs.count("budget_exceeded");
            } else {
                obs.count("reference_run_panicked");
                obs.repo_panic(&p, json!({"program": lines, "where": "reference run / checkpointing"}));
            }
            return;
        }
    };
    obs.count("programs_run");
    let n_run = per_line.len();
    obs.add("lines_run", n_run as u64);
    if let Some(Some((title, _))) = per_line.last().map(|l| l.err.clone()) {
        obs.count("programs_ending_in_fatal_error");
        let t: String = title
            .chars()
            .take_while(|c| !c.is_ascii_digit() && *c != '`')
            .take(40)
            .collect();
        obs.count(&format!("fatal:{t}"));
    }
    obs.add(
        "recovered_errors",
        per_line.iter().map(|l| l.recovered).sum::<u64>(),
    );
    // (b) every checkpoint, every format
    for (k, cps) in checkpoints.into_iter().enumerate() {
        for (fmt, vm_or) in cps {
            let mut vm_b = match vm_or {
                Ok(v) => v,
                Err(e) => {
                    obs.violation(
                        format!("checkpoint-failed:{fmt:?}"),
                        json!({"program": lines, "checkpoint_after_line": k, "error": e}),
                    );
                    return;
                }
            };
            obs.count("checkpoints");
            obs.count(&format!("checkpoints_{fmt:?}"));
            {
                let s = vm_b.verif_snapshot();
                obs.count(&format!("checkpoint_group_depth_{}", s.commands_groups.min(6)));
                if s.save_stack_entries.iter().sum::<usize>() > 0 {
                    obs.count("checkpoints_with_saved_values");
                }
            }
            let rest: Vec<String> = lines[k + 1..n_run].to_vec();
            let rb = vcore::catch(move || {
                let mut v = vec![];
                for (j, line) in rest.iter().enumerate() {
                    v.push(run_line(&mut vm_b, k + 1 + j, line));
                }
                let d = dump(&vm_b);
                (v, d)
            });
            let (got, dump_b) = match rb {
                Ok(x) => x,
                Err(p) => {
                    if p.budget {
                        obs.count("budget_exceeded");
                        continue;
                    }
                    obs.repo_panic(
                        &p,
                        json!({"program": lines, "checkpoint_after_line": k, "format": format!("{fmt:?}"), "where": "run after checkpoint"}),
                    );
                    return;
                }
            };
            for (j, g) in got.iter().enumerate() {
                let want = &per_line[k + 1 + j];
                if g != want {
                    let what = if g.out != want.out {
                        "output"
                    } else if g.err != want.err {
                        "error"
                    } else if g.recovered != want.recovered {
                        "recovered-errors"
                    } else {
                        "font-events"
                    };
                    obs.violation(
                        format!("diverged:{what}"),
                        json!({
                            "program": lines, "checkpoint_after_line": k, "format": format!("{fmt:?}"),
                            "diverging_line": k + 1 + j, "line_text": lines[k + 1 + j],
                            "uninterrupted": format!("{want:?}"), "after_checkpoint": format!("{g:?}"),
                        }),
                    );
                    return;
                }
            }
            // the final state dump is only comparable when the whole program ran without a fatal error
            let fatal_end = per_line.last().map(|l| l.err.is_some()).unwrap_or(false);
            if !fatal_end && dump_b != dump_a {
                obs.violation(
                    "diverged:final-state",
                    json!({
                        "program": lines, "checkpoint_after_line": k, "format": format!("{fmt:?}"),
                        "uninterrupted": dump_a, "after_checkpoint": dump_b,
                    }),
                );
                return;
            }
        }
    }
    obs.nontrivial(lines);
    if obs.wants_sample() {
        obs.sample(json!({
            "program": lines, "lines_run": n_run,
            "outputs": per_line.iter().map(|l| l.out.clone()).collect::<Vec<_>>(),
            "last_error": per_line.last().and_then(|l| l.err.clone()).map(|e| e.0),
        }));
    }
    let _ = o;
}

impl Monitor for M {
    fn id(&self) -> &'static str {
        "C08"
    }
    fn rule(&self) -> String {
        "programs = 2 preamble lines + 4-14 random lines (groups, local/global assignments to all register kinds, \\def/\\gdef \
         with parameters, \\let aliases incl. shared macros, \\countdef/\\toksdef/\\chardef/\\mathchardef, \\catcode/\\mathcode, \
         \\endlinechar, \\globaldefs, fonts, \\newInt/\\newIntArray, conditionals left open across lines, \\openin/\\read/\\ifeof/\
         \\closein, \\input, fresh control sequence names, interaction modes, erroneous lines) + 11 fixed read-back lines; every \
         line is its own source; EVERY line boundary is tried as checkpoint (the crash_points quantifier is enumerated): in the \
         thorough tier in JSON, MessagePack and bincode each, in the quick tier in one of the three, rotating per boundary. Non-trivial: the program ran and every checkpoint continuation was compared; distinct = \
         distinct program text."
            .into()
    }
    fn assumptions(&self) -> Vec<String> {
        vec![
            "differential oracle: uninterrupted run vs run continued after serialise+deserialise; no external model".into(),
            "after a fatal error the pending input is not exhausted, so no checkpoint is taken after it (the failing line itself must fail identically after every earlier checkpoint)".into(),
            "non-serialised attachments (file system, terminal, globally-prefixable tag registry, monitor bookkeeping) are re-attached after deserialisation, as an engine built on texlang has to".into(),
            "\\scriptfont/\\textfont registers are not serialisable in the repo (marker types without serde impls) and are not generated".into(),
        ]
    }
    fn phases(&self, tier: Tier) -> Vec<Phase> {
        vec![
            Phase::new("known", 4).batch(1),
            Phase::new("random", tier.pick(800, 60_000)).batch(4),
        ]
    }
    fn floors(&self, _tier: Tier) -> Vec<(&'static str, u64)> {
        vec![
            ("programs_run", 700),
            ("checkpoints", 9_000),
            ("checkpoints_Json", 3_000),
            ("checkpoints_MessagePack", 3_000),
            ("checkpoints_Bincode", 3_000),
            ("checkpoints_with_saved_values", 2_000),
            ("checkpoint_group_depth_2", 500),
            ("recovered_errors", 20),
        ]
    }
    fn run_case(&self, phase: &str, idx: u64, rng: &mut Rng, obs: &mut Obs) {
        let mut lines: Vec<String> = PREAMBLE.iter().map(|s| s.to_string()).collect();
        if phase == "known" {
            // active-character definitions across a checkpoint (the defect named in the property)
            let extra: &[&str] = match idx {
                0 => &["\\def~{NEW}", "[~]"],
                1 => &["{\\def~{IN}", "[~]}", "[~]"],
                2 => &["{\\count1=5 {\\global\\count1=6 ", "}[\\the\\count1]", "}[\\the\\count1]"],
                _ => &["\\let\\mc=\\ma \\def\\ma{X}", "[\\mc\\ma]"],
            };
            lines.extend(extra.iter().map(|s| s.to_string()));
            check_program(&lines, obs);
            return;
        }
        let n = rng.range_usize(4, 14);
        let mut t = Track::default();
        if rng.chance(3, 4) {
            // recoverable errors are recovered (and counted) instead of ending the program
            lines.push(rng.pick(&["\\scrollmode", "\\nonstopmode", "\\batchmode"]).to_string());
        }
        for _ in 0..n {
            let l = gen_line(rng, &mut t);
            lines.push(l);
        }
        lines.extend(final_lines(&t));
        check_program(&lines, obs);
    }
}
