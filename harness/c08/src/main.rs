fn main() {
    vcore::run_main(&c08::MONITOR)
}
