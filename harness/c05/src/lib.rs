//! Monitor for property C05 - compiled lig/kern programs equal direct interpretation; infinite
//! loops reported exactly; conservation of the input word (see /verif/DESIGN.md §6, NOTES.md).
//!
//! Real code driven: `CompiledProgram::compile` (and `compile_from_tfm_file` for corpus fonts),
//! `CompiledProgram::run_with_options`.
//! Oracles (all in `vmodels::ligkern`, none of which calls /repo):
//!   (a1) the cursor interpreter of the raw program, (a2) the transcription of TeX §1034-1040,
//!   (b) the recursive pair evaluation of TFtoPL §88-95; kern amounts through
//!   `vmodels::fontarith::store_scaled`.

pub mod hand;

use std::collections::{BTreeMap, BTreeSet, HashMap};
use tfm::ligkern::lang;
use tfm::ligkern::{CompiledProgram, RunItem, RunOptions};
use tfm::{Char, FixWord};
use vcore::*;
use vmodels::fontarith as fa;
use vmodels::ligkern as lk;

pub struct M;
pub static MONITOR: M = M;

/// Bounds of the harness (not of the property): programs whose terminating pair evaluations are
/// longer than this are not run (counted as skipped); a model run that exceeds `WORD_STEPS` in
/// a program whose pairs all terminate makes the case INCONCLUSIVE.
const PAIR_STEPS: u64 = 4_000;
const PAIR_EMITTED: u64 = 2_000;
const WORD_STEPS: u64 = 200_000;

const ENUM_OPTIONS: u64 = 18; // none | kern | 8 forms x 2 results
const ENUM_INNER: u64 = 18 * 18 * 18 * 18;
const ENUM_BOUNDARY_OPTIONS: u64 = 10; // none | kern | 8 forms inserting 'a'

impl Monitor for M {
    fn id(&self) -> &'static str {
        "C05"
    }

    fn rule(&self) -> String {
        "handbuilt: one case per hand-built program of the repository's unit tests (43 run cases of ligkern/mod.rs with their own word, \
         22 programs of compiler.rs with all words of length <= 3, 9 TeX-verified words on corpus fonts, 9 loop programs of corpus/originals), compared node by node \
         (lig_ptr originals and boundary flags) with the TeX §1034-1040 transcription. \
         enum2*: every program over {a,b} with at most one rule per ordered pair (none | KRN | 8 LIG forms x result a/b), optionally x every \
         left-boundary rule pair or every right-boundary rule pair (none | KRN | 8 forms inserting a), all words of length <= 4, left boundary on and off. \
         random: alphabet of 3-5 characters from a pool incl. non-ASCII bytes, 1-8 instructions per character drawn from all eight forms with results in the \
         alphabet, kerns, SKIP n / STOP, shared and mid-chain entry points, optional left-boundary program, boundary character inside or outside the alphabet \
         or absent, random legal design size; all words of length <= 4 plus random words of length <= 12, each with left boundary on/off and with/without a \
         right-boundary override. corpus: every .tfm of crates/tfm/corpus that TeX §573 would accept, all pairs of existing characters. \
         A case (program) is non-trivial if it has at least one LIG rule and one pair evaluation of two or more steps, or a loop; distinct by the hash of \
         (instructions, entry points, boundaries, design size). Outputs are compared as sequences of (plain character | ligature glyph | kern in sp)."
            .into()
    }

    fn assumptions(&self) -> Vec<String> {
        vec![
            "reference = own transcriptions: cursor interpreter of the TFM lig/kern definition (op = 4a+2b+c), TeX §1034-1040 main loop, TFtoPL §88-95 pair evaluation; kern amounts via own store_scaled (TeX §571-572). Calibrated against the 43 TeX-verified expectations of ligkern/mod.rs, the TeX-verified boxworks-text cases on cmr10/smfebsl10 and Knuth's loop messages recorded in corpus/originals/*.stderr.txt".into(),
            "generated programs are fonts TeX would load (§573): skips stay inside the program, every entry point is inside, all characters named by rules exist; kerns satisfy |k| < 16, design size in [1pt, 2048pt)".into(),
            "guard G of DESIGN §6: which originals hang on which ligature node and the two boundary flags are compared per node only on the hand-built programs; on generated programs they are checked through conservation (characters + ligature originals spell the word)".into(),
            "programs whose terminating pair evaluations need more than 4000 LIG steps or emit more than 2000 items are not run (harness bound, counted under skipped:)".into(),
            "loop reporting: compile must return at least one InfiniteLoopError iff some rule pair never terminates, and every reported starting pair must itself never terminate; which of several pairs on a cycle is named is not checked".into(),
        ]
    }

    fn phases(&self, tier: Tier) -> Vec<Phase> {
        let mut v = vec![
            Phase::new("handbuilt", hand_total() as u64).batch(4),
            Phase::new("enum2", ENUM_INNER)
                .batch(256)
                .exhaustive("all lig/kern programs over {a,b} with at most one rule per ordered pair (none | KRN | 8 forms x 2 results), all words of length <= 4, left boundary on/off"),
        ];
        if tier == Tier::Thorough {
            v.push(
                Phase::new("enum2_left", ENUM_INNER)
                    .batch(16)
                    .exhaustive("enum2 x every left-boundary program with at most one rule for (|,a) and (|,b) (none | KRN | 8 forms inserting a), all words of length <= 4"),
            );
            v.push(
                Phase::new("enum2_right", ENUM_INNER)
                    .batch(16)
                    .exhaustive("enum2 x every pair of right-boundary rules (a,R) (b,R) (none | KRN | 8 forms inserting a), boundary character R outside the alphabet, all words of length <= 4"),
            );
        }
        v.push(Phase::new("random", tier.pick(60_000, 2_000_000)).batch(64));
        v.push(Phase::new("corpus", corpus_fonts().len() as u64).batch(1));
        v.push(Phase::new("known", 1).batch(1));
        v
    }

    fn floors(&self, tier: Tier) -> Vec<(&'static str, u64)> {
        vec![
            ("handbuilt:node_level_runs_equal", 300),
            ("handbuilt:loop_programs_reported", 9),
            ("programs:loop_free_compared", tier.pick(60_000, 5_000_000)),
            ("programs:with_loop_reported", tier.pick(30_000, 5_000_000)),
            ("programs:loop_free_with_terminating_re-entry", tier.pick(50, 2_000)),
            ("programs:loop_free_with_shared_dependency", tier.pick(3_000, 300_000)),
            ("pairs:diverging_agreed_by_both_models", tier.pick(50_000, 5_000_000)),
            ("pairs:terminating_multi_step", tier.pick(50_000, 5_000_000)),
            ("runs:compared", tier.pick(10_000_000, 1_000_000_000)),
            ("runs:with_ligature", tier.pick(3_000_000, 300_000_000)),
            ("runs:with_kern", tier.pick(1_000_000, 100_000_000)),
            ("runs:left_boundary_rule_applied", tier.pick(200_000, 20_000_000)),
            ("runs:right_boundary_rule_applied", tier.pick(200_000, 20_000_000)),
            ("runs:right_boundary_consumed", tier.pick(50_000, 5_000_000)),
            ("runs:right_boundary_override", tier.pick(200_000, 20_000_000)),
            ("runs:ligature_with_empty_original", tier.pick(500_000, 50_000_000)),
            ("runs:ligature_with_3+_originals", tier.pick(100_000, 10_000_000)),
            ("ops:form_0_LIG", tier.pick(100_000, 10_000_000)),
            ("ops:form_1_LIG/", tier.pick(100_000, 10_000_000)),
            ("ops:form_2_/LIG", tier.pick(100_000, 10_000_000)),
            ("ops:form_3_/LIG/", tier.pick(100_000, 10_000_000)),
            ("ops:form_5_LIG/>", tier.pick(100_000, 10_000_000)),
            ("ops:form_6_/LIG>", tier.pick(100_000, 10_000_000)),
            ("ops:form_7_/LIG/>", tier.pick(100_000, 10_000_000)),
            ("ops:form_11_/LIG/>>", tier.pick(100_000, 10_000_000)),
            ("corpus:fonts_compared", 20),
            ("corpus:runs_compared", 1_000_000),
        ]
    }

    fn calibrate(&self, obs: &mut Obs) {
        calibrate(obs)
    }

    fn run_case(&self, phase: &str, idx: u64, rng: &mut Rng, obs: &mut Obs) {
        match phase {
            "handbuilt" => handbuilt_case(idx as usize, obs),
            "enum2" => enum_case(idx, EnumKind::Plain, obs),
            "enum2_left" => enum_case(idx, EnumKind::Left, obs),
            "enum2_right" => enum_case(idx, EnumKind::Right, obs),
            "random" => random_case(rng, obs),
            "corpus" => corpus_case(idx as usize, obs),
            "known" => known_case(obs),
            other => obs.inconclusive(format!("unknown phase {other}")),
        }
    }
}

// ------------------------------------------------------------------------------------------
// what a run produced, in a form common to the real code and the models

#[derive(Clone, Debug, PartialEq, Eq)]
pub enum RNode {
    Char(u32),
    Lig {
        c: u32,
        original: Vec<u32>,
        left_boundary: bool,
        right_boundary: bool,
    },
    Kern(i32),
}

#[derive(Clone, Copy, Debug, PartialEq, Eq)]
enum RItem {
    Char(u32),
    Lig(u32),
    Kern(i32),
}

impl RNode {
    fn item(&self) -> RItem {
        match self {
            RNode::Char(c) => RItem::Char(*c),
            RNode::Lig { c, .. } => RItem::Lig(*c),
            RNode::Kern(k) => RItem::Kern(*k),
        }
    }
}

fn fmt_char(c: u32, out: &mut String) {
    let ok = c < 127 && (c as u8).is_ascii_graphic() && !b"%[]|=~".contains(&(c as u8));
    if ok {
        out.push(c as u8 as char);
    } else {
        out.push_str(&format!("%{c:02x}"));
    }
}

/// Compact notation: `=A` plain character, `~1.0` kern (TeX's print_scaled, pt), `X[orig]`
/// ligature glyph X with its original characters, `|` in front / behind = left / right boundary
/// flag.
pub fn fmt_nodes(nodes: &[RNode]) -> String {
    let mut out = String::new();
    for (i, n) in nodes.iter().enumerate() {
        if i > 0 {
            out.push(' ');
        }
        match n {
            RNode::Char(c) => {
                out.push('=');
                fmt_char(*c, &mut out);
            }
            RNode::Kern(k) => {
                out.push('~');
                out.push_str(&fa::print_scaled(*k));
            }
            RNode::Lig {
                c,
                original,
                left_boundary,
                right_boundary,
            } => {
                if *left_boundary {
                    out.push('|');
                }
                fmt_char(*c, &mut out);
                out.push('[');
                for o in original {
                    fmt_char(*o, &mut out);
                }
                out.push(']');
                if *right_boundary {
                    out.push('|');
                }
            }
        }
    }
    out
}

fn fmt_word(w: &[u8]) -> String {
    let mut s = String::new();
    for c in w {
        fmt_char(*c as u32, &mut s);
    }
    s
}

fn fmt_left(l: lk::Left) -> String {
    match l {
        None => "|".into(),
        Some(c) => {
            let mut s = String::new();
            fmt_char(c as u32, &mut s);
            s
        }
    }
}

/// Human-readable listing of a program for witnesses.
fn fmt_prog(p: &lk::Prog) -> Vec<String> {
    let mut labels: BTreeMap<usize, Vec<String>> = BTreeMap::new();
    for (c, e) in &p.entry {
        labels.entry(*e).or_default().push(fmt_left(Some(*c)));
    }
    if let Some(e) = p.left_entry {
        labels.entry(e).or_default().push("BOUNDARYCHAR".into());
    }
    let mut out = vec![];
    if let Some(r) = p.right_boundary {
        out.push(format!("(BOUNDARYCHAR {})", fmt_left(Some(r))));
    }
    for (i, ins) in p.instrs.iter().enumerate() {
        let mut line = format!("{i:>3}: ");
        if let Some(ls) = labels.get(&i) {
            for l in ls {
                line.push_str(&format!("(LABEL {l}) "));
            }
        }
        match ins.op {
            lk::Op::Kern(k) => line.push_str(&format!("(KRN {} R {})", fmt_left(Some(ins.right)), fa::print_fix_word(k))),
            lk::Op::Lig { code, insert } => line.push_str(&format!(
                "({} {} {})",
                lk::lig_name(code),
                fmt_left(Some(ins.right)),
                fmt_left(Some(insert))
            )),
            lk::Op::Stop => line.push_str("(unconditional stop)"),
        }
        match ins.skip {
            None => line.push_str(" (STOP)"),
            Some(0) => {}
            Some(n) => line.push_str(&format!(" (SKIP {n})")),
        }
        out.push(line);
    }
    out
}

// ------------------------------------------------------------------------------------------
// the real code

#[derive(Clone, Copy, PartialEq, Eq, Debug, Hash)]
enum KernMode {
    /// `Operation::Kern(FixWord)` (PL files)
    Inline,
    /// `Operation::KernAtIndex(i)` + kerns array (TFM files)
    Indexed,
}

struct Real {
    compiled: CompiledProgram,
    /// starting pairs of the reported infinite loops
    loops: Vec<(lk::Left, u8)>,
}

fn to_real_program(p: &lk::Prog, mode: KernMode) -> (lang::Program, HashMap<Char, u16>, Vec<FixWord>) {
    let mut kerns: Vec<FixWord> = vec![];
    let instructions = p
        .instrs
        .iter()
        .map(|ins| lang::Instruction {
            next_instruction: ins.skip,
            right_char: Char(ins.right),
            operation: match ins.op {
                lk::Op::Kern(k) => match mode {
                    KernMode::Inline => lang::Operation::Kern(FixWord(k)),
                    KernMode::Indexed => {
                        let i = match kerns.iter().position(|x| x.0 == k) {
                            Some(i) => i,
                            None => {
                                kerns.push(FixWord(k));
                                kerns.len() - 1
                            }
                        };
                        lang::Operation::KernAtIndex(i as u16)
                    }
                },
                lk::Op::Lig { code, insert } => lang::Operation::Ligature {
                    char_to_insert: Char(insert),
                    post_lig_operation: post_lig(code),
                    post_lig_tag_invalid: false,
                },
                lk::Op::Stop => lang::Operation::EntrypointRedirect(0, false),
            },
        })
        .collect();
    let program = lang::Program {
        instructions,
        left_boundary_char_entrypoint: p.left_entry.map(|e| e as u16),
        right_boundary_char: p.right_boundary.map(Char),
        passthrough: Default::default(),
    };
    let entrypoints = p.entry.iter().map(|(c, e)| (Char(*c), *e as u16)).collect();
    (program, entrypoints, kerns)
}

fn post_lig(code: u8) -> lang::PostLigOperation {
    use lang::PostLigOperation::*;
    match code {
        0 => RetainNeitherMoveToInserted,
        1 => RetainRightMoveToInserted,
        2 => RetainLeftMoveNowhere,
        3 => RetainBothMoveNowhere,
        5 => RetainRightMoveToRight,
        6 => RetainLeftMoveToInserted,
        7 => RetainBothMoveToInserted,
        _ => RetainBothMoveToRight,
    }
}

fn lig_code(op: lang::PostLigOperation) -> u8 {
    use lang::PostLigOperation::*;
    match op {
        RetainNeitherMoveToInserted => 0,
        RetainRightMoveToInserted => 1,
        RetainLeftMoveNowhere => 2,
        RetainBothMoveNowhere => 3,
        RetainRightMoveToRight => 5,
        RetainLeftMoveToInserted => 6,
        RetainBothMoveToInserted => 7,
        RetainBothMoveToRight => 11,
    }
}

fn compile_real(p: &lk::Prog, design: i32, mode: KernMode) -> Result<Real, PanicInfo> {
    let (program, entrypoints, kerns) = to_real_program(p, mode);
    catch(move || {
        let (compiled, errors) = CompiledProgram::compile(&program, FixWord(design), &kerns, entrypoints);
        Real {
            compiled,
            loops: errors
                .iter()
                .map(|e| (e.starting_pair.0.map(|c| c.0), e.starting_pair.1 .0))
                .collect(),
        }
    })
}

fn run_real(cp: &CompiledProgram, word: &[u8], left_boundary: bool, rb_override: Option<u8>, limit: usize) -> Result<Vec<RNode>, PanicInfo> {
    catch(|| {
        let it = cp.run_with_options(
            word.iter().map(|b| *b as char),
            RunOptions {
                disable_left_boundary: !left_boundary,
                right_boundary_override: rb_override.map(|b| b as char),
            },
        );
        let mut out = vec![];
        // the compiled program cannot loop, but a broken one might: bound the iteration a little
        // above the expected length (anything longer is a mismatch anyway)
        for item in it.take(limit) {
            out.push(match item {
                RunItem::Char(c) => RNode::Char(c as u32),
                RunItem::Kern(k) => RNode::Kern(k.0),
                RunItem::Ligature(l) => RNode::Lig {
                    c: l.c as u32,
                    original: l.original.chars().map(|c| c as u32).collect(),
                    left_boundary: l.includes_left_boundary,
                    right_boundary: l.includes_right_boundary,
                },
            });
        }
        out
    })
}

// ------------------------------------------------------------------------------------------
// the models, bundled per program

struct Model<'a> {
    prog: &'a lk::Prog,
    table: lk::RuleTable,
    design: i32,
    /// pairs whose evaluation never terminates
    diverging: BTreeSet<(lk::Left, u8)>,
    on_cycle: BTreeSet<(lk::Left, u8)>,
    multi_step_pairs: u64,
    /// terminating pairs whose isolated evaluation applies a LIG step to the same pair twice
    reentry_pairs: u64,
    /// terminating pairs that are a dependency of two or more other rule pairs (diamonds)
    shared_dependencies: u64,
    max_steps: u64,
}

enum ModelBuild<'a> {
    Ok(Model<'a>),
    /// pair evaluations exceed the harness bounds
    TooLong,
    /// the two formulations disagree (reported through obs.inconclusive)
    Disagree,
}

fn build_model<'a>(prog: &'a lk::Prog, design: i32, obs: &mut Obs) -> ModelBuild<'a> {
    let table = prog.table();
    let mut pe = lk::PairEval::new(prog);
    let mut diverging = BTreeSet::new();
    let mut multi = 0;
    let mut reentry = 0;
    let mut used_by: BTreeMap<(lk::Left, u8), u32> = BTreeMap::new();
    let mut max_steps = 0;
    let pairs = prog.rule_pairs();
    // (b) first: it also tells how long the terminating evaluations are
    let mut results = vec![];
    for (l, r, _) in &pairs {
        let res = pe.pair(*l, *r);
        if let lk::PairResult::Value { lig_steps, emitted, .. } = res {
            if lig_steps > PAIR_STEPS || emitted > PAIR_EMITTED {
                return ModelBuild::TooLong;
            }
        }
        results.push(res);
    }
    // (a) the step interpreters on the isolated pair, with a step bound
    for ((l, r, _), res) in pairs.iter().zip(results.iter()) {
        let (word, lb): (Vec<u8>, bool) = match l {
            Some(c) => (vec![*c, *r], false),
            None => (vec![*r], true),
        };
        let mut st = lk::RunStats::default();
        let a1 = lk::run_cursor(&table, &word, lb, None, PAIR_STEPS + 1, &mut st);
        let a2 = lk::run_tex(prog, &word, !lb, None, PAIR_STEPS + 1);
        let agree = match (res, &a1, &a2) {
            (lk::PairResult::Diverges, Err(_), Err(_)) => true,
            (lk::PairResult::Value { f, lig_steps, .. }, Ok(items), Ok(nodes)) => {
                let last = items.last().map(|i| match i {
                    lk::Item::Char(c) | lk::Item::Lig(c) => Some(*c),
                    lk::Item::Kern(_) => None,
                });
                let same_items = nodes.iter().map(|n| n.item()).eq(items.iter().copied());
                last == Some(Some(*f)) && st.lig_steps == *lig_steps && same_items
            }
            _ => false,
        };
        if !agree {
            obs.inconclusive(format!(
                "model disagreement on pair ({},{}): TFtoPL evaluation {res:?}, cursor interpreter {a1:?}, TeX loop {:?}; program {:?}",
                fmt_left(*l),
                fmt_left(Some(*r)),
                a2.as_ref().map(|n| n.len()),
                fmt_prog(prog)
            ));
            return ModelBuild::Disagree;
        }
        match res {
            lk::PairResult::Diverges => {
                diverging.insert((*l, *r));
            }
            lk::PairResult::Value { lig_steps, .. } => {
                if *lig_steps >= 2 {
                    multi += 1;
                }
                if st.pair_revisited {
                    reentry += 1;
                }
                for dep in st.lig_pairs.iter().skip(1) {
                    *used_by.entry(*dep).or_insert(0) += 1;
                }
                max_steps = max_steps.max(*lig_steps);
            }
        }
    }
    let on_cycle = pe.on_cycle().iter().copied().collect();
    ModelBuild::Ok(Model {
        prog,
        table,
        design,
        diverging,
        on_cycle,
        multi_step_pairs: multi,
        reentry_pairs: reentry,
        shared_dependencies: used_by.values().filter(|n| **n >= 2).count() as u64,
        max_steps,
    })
}

struct ModelRun {
    nodes: Vec<RNode>,
    stats: lk::RunStats,
}

impl<'a> Model<'a> {
    fn scale(&self, k: i32) -> i32 {
        fa::store_scaled(k, self.design).expect("generated kerns and design sizes are legal")
    }

    /// Both step interpreters on a word. `Err` = they disagree or did not finish (INCONCLUSIVE).
    fn run(&self, word: &[u8], left_boundary: bool, rb_override: Option<u8>) -> Result<ModelRun, String> {
        let bchar = rb_override.or(self.prog.right_boundary);
        let mut stats = lk::RunStats::default();
        let a1 = lk::run_cursor(&self.table, word, left_boundary, bchar, WORD_STEPS, &mut stats)
            .map_err(|_| "cursor interpreter exceeded the step bound although every pair terminates".to_string())?;
        let a2 = lk::run_tex(self.prog, word, !left_boundary, bchar, WORD_STEPS)
            .map_err(|_| "TeX main loop exceeded the step bound although every pair terminates".to_string())?;
        if !a2.iter().map(|n| n.item()).eq(a1.iter().copied()) {
            return Err(format!(
                "cursor interpreter and TeX main loop disagree on word '{}': {:?} vs {:?}",
                fmt_word(word),
                a1,
                a2
            ));
        }
        let nodes = a2
            .into_iter()
            .map(|n| match n {
                lk::Node::Char(c) => RNode::Char(c as u32),
                lk::Node::Kern(k) => RNode::Kern(self.scale(k)),
                lk::Node::Lig {
                    c,
                    original,
                    left_boundary,
                    right_boundary,
                } => RNode::Lig {
                    c: c as u32,
                    original: original.into_iter().map(|c| c as u32).collect(),
                    left_boundary,
                    right_boundary,
                },
            })
            .collect();
        Ok(ModelRun { nodes, stats })
    }
}

// ------------------------------------------------------------------------------------------
// the check of one program

#[derive(Clone, Copy, PartialEq, Eq)]
enum Level {
    /// glyphs, kerns and their order + conservation (generated programs, guard G)
    Sequence,
    /// additionally lig_ptr originals and boundary flags per node (hand-built programs)
    Node,
}

struct RunSpec {
    word: Vec<u8>,
    left_boundary: bool,
    rb_override: Option<u8>,
}

#[derive(Default)]
struct ProgramOutcome {
    has_loop: bool,
    runs: u64,
    ok: bool,
    nontrivial: bool,
}

fn witness(prog: &lk::Prog, design: i32, extra: Value) -> Value {
    json!({"program": fmt_prog(prog), "design_size": fa::print_fix_word(design), "detail": extra})
}

/// Compile with the real code, compare the loop report with the models, and (if loop-free) run
/// every word spec through the real iterator and the models.
fn check_program(
    prog: &lk::Prog,
    design: i32,
    mode: KernMode,
    level: Level,
    specs: &mut dyn Iterator<Item = RunSpec>,
    obs: &mut Obs,
) -> ProgramOutcome {
    let mut out = ProgramOutcome::default();
    debug_assert!(prog.well_formed());
    let model = match build_model(prog, design, obs) {
        ModelBuild::Ok(m) => m,
        ModelBuild::TooLong => {
            obs.skip("pair evaluation longer than the harness bound (4000 steps / 2000 items)");
            return out;
        }
        ModelBuild::Disagree => return out,
    };
    let real = match compile_real(prog, design, mode) {
        Ok(r) => r,
        Err(p) => {
            obs.repo_panic(&p, witness(prog, design, json!({"what": "CompiledProgram::compile"})));
            return out;
        }
    };
    obs.add("pairs:diverging_agreed_by_both_models", model.diverging.len() as u64);
    obs.add("pairs:terminating_multi_step", model.multi_step_pairs);
    // ---- loops, both directions
    let fmt_pairs = |ps: &mut dyn Iterator<Item = (lk::Left, u8)>| -> Vec<String> {
        ps.map(|(l, r)| format!("({},{})", fmt_left(l), fmt_left(Some(r)))).collect()
    };
    if !model.diverging.is_empty() {
        out.has_loop = true;
        if real.loops.is_empty() {
            obs.violation(
                "loop:not-reported",
                witness(prog, design, json!({"pairs_that_never_terminate": fmt_pairs(&mut model.diverging.iter().copied()),
                                             "reported": []})),
            );
            return out;
        }
        for p in &real.loops {
            if !model.diverging.contains(p) {
                obs.violation(
                    "loop:reported-starting-pair-terminates",
                    witness(prog, design, json!({"reported": fmt_pairs(&mut real.loops.iter().copied()),
                                                 "pairs_that_never_terminate": fmt_pairs(&mut model.diverging.iter().copied())})),
                );
                return out;
            }
            if model.on_cycle.contains(p) {
                obs.count("loops:reported_pair_is_on_the_cycle");
            } else {
                obs.count("loops:reported_pair_only_leads_to_a_cycle");
            }
        }
        obs.count("programs:with_loop_reported");
        let key = format!("programs:with_loop_reported[{}]", obs.phase());
        obs.count(&key);
        if model.diverging.iter().any(|(l, _)| l.is_none()) {
            obs.count("programs:loop_through_left_boundary");
        }
        if model.diverging.len() > model.on_cycle.len() {
            obs.count("programs:pair_leading_into_a_loop");
        }
        out.ok = true;
        out.nontrivial = true;
        return out;
    }
    if !real.loops.is_empty() {
        obs.violation(
            "loop:reported-but-every-pair-terminates",
            witness(prog, design, json!({"reported": fmt_pairs(&mut real.loops.iter().copied()),
                                         "longest_pair_evaluation_steps": model.max_steps})),
        );
        return out;
    }
    // ---- loop-free: outputs
    let mut revisit = false;
    let mut cnt = [0u64; 12];
    let mut info_sample: Option<(String, bool, Option<u8>, String, String)> = None;
    let mut info_sample2: Option<(String, bool, Option<u8>, String, String)> = None;
    let mut forms = [0u64; 12];
    for spec in specs {
        let m = match model.run(&spec.word, spec.left_boundary, spec.rb_override) {
            Ok(m) => m,
            Err(e) => {
                obs.inconclusive(format!("{e}; program {:?}", fmt_prog(prog)));
                return out;
            }
        };
        let r = match run_real(&real.compiled, &spec.word, spec.left_boundary, spec.rb_override, m.nodes.len() + 8) {
            Ok(r) => r,
            Err(p) => {
                obs.repo_panic(
                    &p,
                    witness(prog, design, json!({"what": "CompiledProgram::run_with_options", "word": fmt_word(&spec.word),
                                                 "left_boundary": spec.left_boundary, "right_boundary_override": spec.rb_override})),
                );
                return out;
            }
        };
        out.runs += 1;
        let detail = |what: &str| {
            witness(
                prog,
                design,
                json!({"what": what, "word": fmt_word(&spec.word), "left_boundary": spec.left_boundary,
                       "right_boundary_override": spec.rb_override.map(|c| fmt_left(Some(c))),
                       "compiled_run": fmt_nodes(&r), "direct_interpretation": fmt_nodes(&m.nodes),
                       "notation": "=c plain character, ~k kern (pt), g[originals] ligature glyph, | boundary flag"}),
            )
        };
        // glyphs, kerns, order
        if !r.iter().map(|n| n.item()).eq(m.nodes.iter().map(|n| n.item())) {
            let kinds_equal = r.len() == m.nodes.len()
                && r.iter().zip(m.nodes.iter()).all(|(a, b)| match (a.item(), b.item()) {
                    (RItem::Kern(_), RItem::Kern(_)) => true,
                    (x, y) => x == y,
                });
            let sig = if kinds_equal {
                "run:kern-amount-differs"
            } else {
                "run:glyph-kern-sequence-differs"
            };
            obs.violation(sig, detail("the compiled run and the direct interpretation differ as sequences of (character | ligature glyph | kern)"));
            return out;
        }
        // conservation
        let mut spelled: Vec<u32> = vec![];
        for n in &r {
            match n {
                RNode::Char(c) => spelled.push(*c),
                RNode::Lig { original, .. } => spelled.extend(original.iter().copied()),
                RNode::Kern(_) => {}
            }
        }
        if !spelled.iter().copied().eq(spec.word.iter().map(|b| *b as u32)) {
            obs.violation("run:characters-and-originals-do-not-spell-the-word", detail("plain characters plus ligature originals must spell the input word"));
            return out;
        }
        if level == Level::Sequence {
            // information only (guard G): how often TeX's node bookkeeping is reproduced as well
            if r == m.nodes {
                cnt[9] += 1;
            } else {
                let same_originals = r.iter().zip(m.nodes.iter()).all(|(a, b)| match (a, b) {
                    (RNode::Lig { original: x, .. }, RNode::Lig { original: y, .. }) => x == y,
                    _ => true,
                });
                if same_originals {
                    cnt[10] += 1;
                    if info_sample.is_none() {
                        info_sample = Some((fmt_word(&spec.word), spec.left_boundary, spec.rb_override, fmt_nodes(&r), fmt_nodes(&m.nodes)));
                    }
                } else {
                    cnt[11] += 1;
                    if info_sample2.is_none() {
                        info_sample2 = Some((fmt_word(&spec.word), spec.left_boundary, spec.rb_override, fmt_nodes(&r), fmt_nodes(&m.nodes)));
                    }
                }
            }
        }
        if level == Level::Node && r != m.nodes {
            obs.violation("run:node-level-differs-on-hand-built-program", detail("originals per ligature node / boundary flags differ from TeX's main loop"));
            return out;
        }
        // what this run exercised
        let st = &m.stats;
        revisit |= st.pair_revisited;
        let mut ligs = 0;
        let mut kerns = 0;
        let mut empty_orig = 0;
        let mut big_orig = 0;
        for n in &m.nodes {
            match n {
                RNode::Lig { original, .. } => {
                    ligs += 1;
                    if original.is_empty() {
                        empty_orig += 1;
                    }
                    if original.len() >= 3 {
                        big_orig += 1;
                    }
                }
                RNode::Kern(_) => kerns += 1,
                RNode::Char(_) => {}
            }
        }
        cnt[0] += (ligs > 0) as u64;
        cnt[1] += (kerns > 0) as u64;
        cnt[2] += (empty_orig > 0) as u64;
        cnt[3] += (big_orig > 0) as u64;
        cnt[4] += (st.left_boundary_steps > 0) as u64;
        cnt[5] += (st.right_boundary_steps > 0) as u64;
        cnt[6] += st.right_boundary_consumed as u64;
        cnt[7] += spec.rb_override.is_some() as u64;
        cnt[8] += (st.lig_steps >= 8) as u64;
        for code in lk::LIG_CODES {
            forms[code as usize] += st.form_steps[code as usize] as u64;
        }
        if obs.wants_sample() && ligs > 0 && kerns > 0 && spec.word.len() >= 3 {
            obs.sample(json!({"program": fmt_prog(prog), "word": fmt_word(&spec.word), "left_boundary": spec.left_boundary,
                              "right_boundary_override": spec.rb_override, "compiled_run": fmt_nodes(&r),
                              "direct_interpretation": fmt_nodes(&m.nodes), "lig_steps": st.lig_steps}));
        }
    }
    if obs.verbose {
        if let Some(x) = &info_sample {
            println!("INFO flags-only node difference: {x:?}");
        }
        if let Some(x) = &info_sample2 {
            println!("INFO originals node difference: {x:?}");
        }
    }
    const NAMES: [&str; 12] = [
        "runs:with_ligature",
        "runs:with_kern",
        "runs:ligature_with_empty_original",
        "runs:ligature_with_3+_originals",
        "runs:left_boundary_rule_applied",
        "runs:right_boundary_rule_applied",
        "runs:right_boundary_consumed",
        "runs:right_boundary_override",
        "runs:with_8+_lig_steps",
        "info:runs_where_TeX_node_bookkeeping_also_equal",
        "info:runs_where_only_boundary_flags_differ_from_TeX_nodes",
        "info:runs_where_lig_ptr_originals_differ_from_TeX_nodes",
    ];
    for (n, c) in NAMES.iter().zip(cnt.iter()) {
        if *c > 0 {
            obs.add(n, *c);
        }
    }
    for code in lk::LIG_CODES {
        if forms[code as usize] > 0 {
            obs.add(&format!("ops:form_{}_{}", code, lk::lig_name(code)), forms[code as usize]);
        }
    }
    obs.add("runs:compared", out.runs);
    obs.count("programs:loop_free_compared");
    let key = format!("programs:loop_free_compared[{}]", obs.phase());
    obs.count(&key);
    let _ = revisit;
    if model.reentry_pairs > 0 {
        obs.count("programs:loop_free_with_terminating_re-entry");
    }
    if model.shared_dependencies > 0 {
        obs.count("programs:loop_free_with_shared_dependency");
    }
    out.ok = true;
    out.nontrivial = model.multi_step_pairs > 0;
    out
}

// ------------------------------------------------------------------------------------------
// coverage-guided stage
// ------------------------------------------------------------------------------------------

/// Entry point of the libFuzzer target `c05_ligtable_words` (harness/vfuzz). Line 1 is the body of a `(LIGTABLE ...)` in
/// property-list syntax (`(LABEL C a)(LIG C b C x)(KRN C c R 0.5)(STOP)(SKIP D 1)...`, read the way PLtoTF reads it),
/// line 2 optionally a right boundary character, line 3 words. Programs outside TeX's domain (`well_formed`) are skipped;
/// the others go through `check_program`, the oracle of all generated phases: compile with the real code, loop report in
/// both directions against the two models, then every word with and without the left boundary through the real iterator
/// and the direct interpretation (glyph/kern sequence, conservation of the word's characters).
pub fn fuzz_one(data: &[u8], obs: &mut Obs) {
    let Ok(text) = std::str::from_utf8(data) else {
        return;
    };
    if !text.is_ascii() {
        return;
    }
    let mut it = text.split('\n');
    let (table, rb, words) = (it.next().unwrap_or(""), it.next().unwrap_or(""), it.next().unwrap_or(""));
    let rb = rb.bytes().next().filter(|b| b.is_ascii_graphic());
    let Ok(prog) = hand::parse_ligtable(table, rb) else {
        obs.skip("fuzz:ligtable-not-in-the-subset-read-by-the-harness");
        return;
    };
    if prog.instrs.is_empty() || prog.instrs.len() > 48 || !prog.well_formed() {
        obs.skip("fuzz:program-empty-too-long-or-outside-TeX's-domain");
        return;
    }
    let mut specs: Vec<RunSpec> = vec![];
    for w in words.split(' ').filter(|w| !w.is_empty() && w.len() <= 12).take(10) {
        if !w.bytes().all(|b| b.is_ascii_graphic()) {
            continue;
        }
        for lb in [true, false] {
            specs.push(RunSpec { word: w.as_bytes().to_vec(), left_boundary: lb, rb_override: None });
        }
    }
    let mode = if table.len() % 2 == 0 { KernMode::Inline } else { KernMode::Indexed };
    check_program(&prog, 10 << 20, mode, Level::Sequence, &mut specs.into_iter(), obs);
}

/// Seed corpus (the hand-built programs of the repository's tests and generated ones, printed in the syntax above) and
/// dictionary for the libFuzzer target.
pub fn fuzz_seeds() -> vcore::fuzzglue::Seeds {
    let mut inputs = vec![];
    let render = |p: &lk::Prog| -> String {
        // labels by instruction index
        let mut out = String::new();
        for (i, ins) in p.instrs.iter().enumerate() {
            if p.left_entry == Some(i) {
                out.push_str("(LABEL BOUNDARYCHAR)");
            }
            let mut labels: Vec<u8> = p.entry.iter().filter(|(_, e)| **e == i).map(|(c, _)| *c).collect();
            labels.sort_unstable();
            for c in labels {
                out.push_str(&format!("(LABEL C {})", c as char));
            }
            match ins.op {
                lk::Op::Kern(v) => out.push_str(&format!("(KRN C {} R {})", ins.right as char, fa::print_fix_word(v))),
                lk::Op::Lig { code, insert } => {
                    out.push_str(&format!("({} C {} C {})", lk::lig_name(code), ins.right as char, insert as char))
                }
                lk::Op::Stop => {}
            }
            match ins.skip {
                None => out.push_str("(STOP)"),
                Some(0) => {}
                Some(n) => out.push_str(&format!("(SKIP D {n})")),
            }
        }
        out
    };
    for k in 0..300u64 {
        let mut rng = Rng::new(0xC05 + k);
        let g = generate(&mut rng);
        if !g.prog.well_formed() || g.prog.instrs.len() > 48 {
            continue;
        }
        let printable = |b: u8| b.is_ascii_graphic() && b != b'(' && b != b')';
        if !g.alphabet.iter().all(|b| printable(*b))
            || !g.prog.instrs.iter().all(|i| printable(i.right) && !matches!(i.op, lk::Op::Lig { insert, .. } if !printable(insert)))
        {
            continue;
        }
        let mut words: Vec<String> = vec![];
        for _ in 0..6 {
            let n = rng.range_usize(1, 8);
            words.push((0..n).map(|_| *rng.pick(&g.alphabet) as char).collect());
        }
        let rb = g.prog.right_boundary.filter(|b| printable(*b)).map(|b| (b as char).to_string()).unwrap_or_default();
        inputs.push(format!("{}\n{}\n{}", render(&g.prog), rb, words.join(" ")).into_bytes());
    }
    let mut dictionary: Vec<String> = ["(LABEL C ", "(LABEL BOUNDARYCHAR)", "(KRN C ", " R 0.5)", "(STOP)", "(SKIP D 1)", "(SKIP D 2)", " C ", ")", "\n"]
        .iter()
        .map(|s| s.to_string())
        .collect();
    for c in lk::LIG_CODES.iter() {
        dictionary.push(format!("({} C ", lk::lig_name(*c)));
    }
    vcore::fuzzglue::Seeds { inputs, dictionary }
}

fn words_up_to(alphabet: &[u8], max_len: usize) -> Vec<Vec<u8>> {
    let mut out: Vec<Vec<u8>> = vec![];
    let mut layer: Vec<Vec<u8>> = vec![vec![]];
    for _ in 0..max_len {
        let mut next = vec![];
        for w in &layer {
            for c in alphabet {
                let mut v = w.clone();
                v.push(*c);
                next.push(v);
            }
        }
        out.extend(next.iter().cloned());
        layer = next;
    }
    out
}

fn prog_hash(p: &lk::Prog, design: i32, mode: KernMode) -> u64 {
    stable_hash(&(p, design, mode))
}

// ------------------------------------------------------------------------------------------
// phase: handbuilt

fn hand_total() -> usize {
    hand::RUN_CASES.len() + hand::COMPILER_PROGRAMS.len() + hand::FONT_CASES.len() + hand::LOOP_CASES.len()
}

fn handbuilt_case(idx: usize, obs: &mut Obs) {
    let n_run = hand::RUN_CASES.len();
    let n_comp = hand::COMPILER_PROGRAMS.len();
    let n_font = hand::FONT_CASES.len();
    let design = hand::LIGAROO_DESIGN_SIZE;
    if idx < n_run {
        let c = &hand::RUN_CASES[idx];
        let prog = match hand::parse_ligtable(&hand::expand(c.program), Some(hand::LIGAROO_BOUNDARY)) {
            Ok(p) => p,
            Err(e) => return obs.inconclusive(format!("hand-built program {} unreadable: {e}", c.name)),
        };
        // the unit test's own word with TeX's default boundaries, node by node
        let word = c.word.as_bytes().to_vec();
        let mut specs = vec![RunSpec { word: word.clone(), left_boundary: true, rb_override: None }].into_iter();
        let o = check_program(&prog, design, KernMode::Inline, Level::Node, &mut specs, obs);
        if o.ok && !o.has_loop {
            obs.add("handbuilt:node_level_runs_equal", o.runs);
            // and what the repository's own test expects (already known to be what TeX does)
            if let Ok(r) = compile_real(&prog, design, KernMode::Inline).and_then(|r| run_real(&r.compiled, &word, true, None, 1000)) {
                if fmt_nodes(&r) != c.want {
                    obs.violation(
                        "handbuilt:differs-from-the-repository's-own-TeX-verified-expectation",
                        json!({"case": c.name, "word": c.word, "got": fmt_nodes(&r), "want": c.want}),
                    );
                }
            }
        }
        // the other words over the program's characters and the other option combinations at sequence level
        let mut alphabet: BTreeSet<u8> = prog.entry.keys().copied().collect();
        for ins in &prog.instrs {
            alphabet.insert(ins.right);
            if let lk::Op::Lig { insert, .. } = ins.op {
                alphabet.insert(insert);
            }
        }
        let alphabet: Vec<u8> = alphabet.into_iter().collect();
        let words = words_up_to(&alphabet, if alphabet.len() <= 4 { 4 } else { 3 });
        let mut specs = words.into_iter().flat_map(|w| {
            [true, false].into_iter().map(move |lb| RunSpec { word: w.clone(), left_boundary: lb, rb_override: None })
        });
        check_program(&prog, design, KernMode::Indexed, Level::Sequence, &mut specs, obs);
        obs.nontrivial(&("hand-run", c.name));
    } else if idx < n_run + n_comp {
        let (name, text) = hand::COMPILER_PROGRAMS[idx - n_run];
        // compiler.rs programs have no boundary character
        let prog = match hand::parse_ligtable(text, None) {
            Ok(p) => p,
            Err(e) => return obs.inconclusive(format!("hand-built program {name} unreadable: {e}")),
        };
        let alphabet: Vec<u8> = b"ABVWXYZ"
            .iter()
            .copied()
            .filter(|c| prog.entry.contains_key(c) || prog.instrs.iter().any(|i| i.right == *c || matches!(i.op, lk::Op::Lig { insert, .. } if insert == *c)))
            .collect();
        let alphabet = if alphabet.is_empty() { vec![b'A'] } else { alphabet };
        let words = words_up_to(&alphabet, 3);
        let mut specs = words.into_iter().flat_map(|w| {
            [true, false].into_iter().map(move |lb| RunSpec { word: w.clone(), left_boundary: lb, rb_override: None })
        });
        let o = check_program(&prog, design, KernMode::Inline, Level::Node, &mut specs, obs);
        if o.ok {
            obs.add("handbuilt:node_level_runs_equal", o.runs);
        }
        obs.nontrivial(&("hand-compiler", name));
    } else if idx < n_run + n_comp + n_font {
        let c = &hand::FONT_CASES[idx - n_run - n_comp];
        font_case(c, obs);
        obs.nontrivial(&("hand-font", c.font, c.word));
    } else {
        let (name, text, _) = hand::LOOP_CASES[idx - n_run - n_comp - n_font];
        let prog = match hand::parse_ligtable(text, None) {
            Ok(p) => p,
            Err(e) => return obs.inconclusive(format!("loop program {name} unreadable: {e}")),
        };
        let o = check_program(&prog, design, KernMode::Inline, Level::Node, &mut std::iter::empty(), obs);
        if o.ok && o.has_loop {
            obs.count("handbuilt:loop_programs_reported");
        } else if o.ok {
            obs.inconclusive(format!("loop program {name}: the models found no loop"));
        }
        obs.nontrivial(&("hand-loop", name));
    }
}

// ------------------------------------------------------------------------------------------
// corpus fonts

fn corpus_fonts() -> Vec<std::path::PathBuf> {
    let root = repo_dir().join("crates/tfm/corpus");
    let mut out = vec![];
    for sub in ["computer-modern", "ctan", "originals", "fuzz"] {
        if let Ok(rd) = std::fs::read_dir(root.join(sub)) {
            for e in rd.flatten() {
                let p = e.path();
                if p.extension().map_or(false, |x| x == "tfm") {
                    out.push(p);
                }
            }
        }
    }
    out.sort();
    out
}

/// Known finding: `compiler::compile` treats an instruction with skip_byte > 128 (an
/// unconditional stop, e.g. the boundary-character carrier at location 0 or the bchar_label
/// carrier at the end of a TFM lig table) that a chain walks into as a real LIG/KRN step built
/// from its op_byte/remainder ("phantom ligature", a re-implementation of a TFtoPL quirk). TeX
/// §1039 never lets such an instruction match.
pub const PHANTOM_FINDING: &str = "C05-phantom-ligature-from-stop-instruction";

/// A raw `lang::Program` converted to the model's form.
struct Converted {
    /// TeX's reading: an instruction with skip_byte > 128 inside a chain matches nothing and stops
    tex: lk::Prog,
    /// Deviation model for [`PHANTOM_FINDING`]: the same program with exactly that one rule
    /// replaced by what the code does today. `Some` iff the trigger predicate holds: some chain
    /// (of a character or of the left boundary) reaches such an instruction.
    phantom: Option<lk::Prog>,
}

/// `Err(reason)`: TeX §573 would reject the font.
fn convert_program(
    lp: &lang::Program,
    kerns: &[FixWord],
    packed_entrypoints: &[(u8, usize)],
    exists: &dyn Fn(u8) -> bool,
) -> Result<Converted, String> {
    let nl = lp.instructions.len();
    let bchar = lp.right_boundary_char.map(|c| c.0);
    let mut tex = lk::Prog {
        right_boundary: bchar,
        ..Default::default()
    };
    let mut phantom_instrs: Vec<lk::Instr> = vec![];
    // TeX §573: every instruction of the table is checked
    for (k, ins) in lp.instructions.iter().enumerate() {
        let mut phantom_op = None;
        let op = match ins.operation {
            lang::Operation::EntrypointRedirect(target, _) => {
                if target as usize >= nl {
                    return Err("§573: stop/redirect address outside the lig/kern table".into());
                }
                // what the code under test makes of it: lig_kern_operation_from_bytes(op_byte, remainder)
                let [op_byte, remainder] = target.to_be_bytes();
                phantom_op = Some(if op_byte >= 128 {
                    let i = (op_byte as usize - 128) * 256 + remainder as usize;
                    lk::Op::Kern(kerns.get(i).map_or(0, |k| k.0))
                } else {
                    lk::Op::Lig {
                        code: if lk::LIG_CODES.contains(&op_byte) { op_byte } else { 0 },
                        insert: remainder,
                    }
                });
                lk::Op::Stop
            }
            lang::Operation::Kern(k) => {
                if !fa::fix_word_is_storable(k.0) {
                    return Err("§571: kern is not a storable fix_word".into());
                }
                lk::Op::Kern(k.0)
            }
            lang::Operation::KernAtIndex(i) => {
                let Some(kern) = kerns.get(i as usize) else {
                    return Err("§573: kern index outside the kern table".into());
                };
                if !fa::fix_word_is_storable(kern.0) {
                    return Err("§571: kern is not a storable fix_word".into());
                }
                lk::Op::Kern(kern.0)
            }
            lang::Operation::Ligature { char_to_insert, post_lig_operation, post_lig_tag_invalid } => {
                if post_lig_tag_invalid {
                    return Err("lig step with nonstandard op code".into());
                }
                if !exists(char_to_insert.0) {
                    return Err("§573: ligature step produces a nonexistent character".into());
                }
                lk::Op::Lig { code: lig_code(post_lig_operation), insert: char_to_insert.0 }
            }
        };
        if op != lk::Op::Stop {
            if Some(ins.right_char.0) != bchar && !exists(ins.right_char.0) {
                return Err("§573: lig/kern step for a nonexistent character".into());
            }
            if let Some(s) = ins.next_instruction {
                if k + s as usize + 1 >= nl {
                    return Err("§573: skip leaves the lig/kern table".into());
                }
            }
        }
        let skip = if op == lk::Op::Stop { None } else { ins.next_instruction };
        tex.instrs.push(lk::Instr { skip, right: ins.right_char.0, op });
        phantom_instrs.push(lk::Instr { skip, right: ins.right_char.0, op: phantom_op.unwrap_or(op) });
    }
    // entry points: lig_kern_start, through a redirect if the first instruction is one (§1039)
    for (c, e) in packed_entrypoints {
        if !exists(*c) {
            continue;
        }
        let Some(first) = lp.instructions.get(*e) else {
            return Err("§573: lig/kern start outside the table".into());
        };
        let start = match first.operation {
            lang::Operation::EntrypointRedirect(t, _) => t as usize,
            _ => *e,
        };
        if start >= nl {
            return Err("§573: lig/kern start outside the table".into());
        }
        tex.entry.insert(*c, start);
    }
    if let Some(e) = lp.left_boundary_char_entrypoint {
        // TeX §576: a bchar_label >= nl means "no left boundary program"
        if (e as usize) < nl {
            tex.left_entry = Some(e as usize);
        }
    }
    // trigger predicate: some chain reaches an instruction with skip_byte > 128
    let mut starts: Vec<usize> = tex.entry.values().copied().collect();
    starts.extend(tex.left_entry);
    let mut triggered = false;
    for s in starts {
        let mut k = s;
        while let Some(ins) = tex.instrs.get(k) {
            if ins.op == lk::Op::Stop {
                triggered = true;
                break;
            }
            match ins.skip {
                Some(n) => k = k + n as usize + 1,
                None => break,
            }
        }
    }
    let phantom = triggered.then(|| lk::Prog {
        instrs: phantom_instrs,
        entry: tex.entry.clone(),
        left_entry: tex.left_entry,
        right_boundary: bchar,
    });
    Ok(Converted { tex, phantom })
}

struct LoadedFont {
    file: tfm::File,
    conv: Converted,
    design: i32,
    chars: Vec<u8>,
}

/// Deserialise a TFM with the repository's reader (not the code under test here) and convert its
/// raw lig/kern program into the model's form. `Err(reason)`: the font is not one TeX would load
/// (§573 checks), or cannot be read.
fn load_font(path: &std::path::Path) -> Result<LoadedFont, String> {
    let bytes = std::fs::read(path).map_err(|e| format!("unreadable: {e}"))?;
    let file = match catch(|| tfm::File::deserialize(&bytes).0) {
        Ok(Ok(f)) => f,
        Ok(Err(_)) => return Err("not a TFM file".into()),
        Err(_) => return Err("TFM reader panicked (C10's business)".into()),
    };
    let design = file.header.design_size.0;
    if !fa::design_size_is_legal(design) {
        return Err("§568: design size outside TeX's range".into());
    }
    let chars: Vec<u8> = file.char_dimens.iter().filter(|(_, d)| d.width_index.valid().is_some()).map(|(c, _)| c.0).collect();
    let exists = |c: u8| chars.binary_search(&c).is_ok();
    let mut eps: Vec<(u8, usize)> = file.lig_kern_entrypoints().into_iter().map(|(c, e)| (c.0, e as usize)).collect();
    eps.sort_unstable();
    let conv = convert_program(&file.lig_kern_program, &file.kerns, &eps, &exists)?;
    Ok(LoadedFont { file, conv, design, chars })
}

struct Mismatch {
    signature: &'static str,
    detail: Value,
}

struct FontStats {
    runs: u64,
    loop_reported: bool,
}

/// Compare what the real code did with one model of the font. `Err(None)`: inconclusive
/// (already reported).
fn compare_font(
    name: &str,
    model: &Model,
    n_errors: usize,
    compiled: &CompiledProgram,
    words: &[Vec<u8>],
    obs: &mut Obs,
) -> Result<FontStats, Option<Mismatch>> {
    if (n_errors > 0) != !model.diverging.is_empty() {
        return Err(Some(Mismatch {
            signature: if n_errors > 0 { "corpus:loop-reported-but-every-pair-terminates" } else { "corpus:loop-not-reported" },
            detail: json!({"font": name, "errors_reported": n_errors, "pairs_that_never_terminate": model.diverging.len()}),
        }));
    }
    if n_errors > 0 {
        return Ok(FontStats { runs: 0, loop_reported: true });
    }
    let mut runs = 0u64;
    for w in words {
        for lb in [true, false] {
            let m = match model.run(w, lb, None) {
                Ok(m) => m,
                Err(e) => {
                    obs.inconclusive(format!("{e} (font {name})"));
                    return Err(None);
                }
            };
            let r = match run_real(compiled, w, lb, None, m.nodes.len() + 8) {
                Ok(r) => r,
                Err(p) => {
                    obs.repo_panic(&p, json!({"what": "run_with_options", "font": name, "word": fmt_word(w)}));
                    return Err(None);
                }
            };
            runs += 1;
            if !r.iter().map(|n| n.item()).eq(m.nodes.iter().map(|n| n.item())) {
                return Err(Some(Mismatch {
                    signature: "corpus:glyph-kern-sequence-differs",
                    detail: json!({"font": name, "word": fmt_word(w), "left_boundary": lb, "compiled_run": fmt_nodes(&r), "direct_interpretation": fmt_nodes(&m.nodes)}),
                }));
            }
            let spelled: Vec<u32> = r
                .iter()
                .flat_map(|n| match n {
                    RNode::Char(c) => vec![*c],
                    RNode::Lig { original, .. } => original.clone(),
                    RNode::Kern(_) => vec![],
                })
                .collect();
            if !spelled.iter().copied().eq(w.iter().map(|b| *b as u32)) {
                return Err(Some(Mismatch {
                    signature: "corpus:characters-and-originals-do-not-spell-the-word",
                    detail: json!({"font": name, "word": fmt_word(w), "left_boundary": lb, "compiled_run": fmt_nodes(&r)}),
                }));
            }
        }
    }
    Ok(FontStats { runs, loop_reported: false })
}

fn corpus_case(idx: usize, obs: &mut Obs) {
    let fonts = corpus_fonts();
    let Some(path) = fonts.get(idx) else {
        return obs.inconclusive(format!("corpus font #{idx} disappeared"));
    };
    let name = path.file_name().unwrap().to_string_lossy().to_string();
    let mut font = match load_font(path) {
        Ok(f) => f,
        Err(reason) => {
            obs.skip(&format!("corpus font outside TeX's domain: {reason}"));
            return;
        }
    };
    if font.conv.tex.instrs.is_empty() {
        obs.count("corpus:fonts_without_lig_kern_program");
        return;
    }
    let model = match build_model(&font.conv.tex, font.design, obs) {
        ModelBuild::Ok(m) => m,
        ModelBuild::TooLong => return obs.skip("pair evaluation longer than the harness bound (4000 steps / 2000 items)"),
        ModelBuild::Disagree => return,
    };
    let real = catch(|| {
        let (compiled, errors) = CompiledProgram::compile_from_tfm_file(&mut font.file);
        (compiled, errors.len())
    });
    let (compiled, n_errors) = match real {
        Ok(r) => r,
        Err(p) => return obs.repo_panic(&p, json!({"what": "compile_from_tfm_file", "font": name})),
    };
    // each single character, all pairs of existing characters, and triples around rule pairs
    let chars = font.chars.clone();
    let mut words: Vec<Vec<u8>> = chars.iter().map(|c| vec![*c]).collect();
    for a in &chars {
        for b in &chars {
            words.push(vec![*a, *b]);
        }
    }
    for (l, r, _) in font.conv.tex.rule_pairs() {
        if let Some(l) = l {
            if chars.binary_search(&r).is_ok() {
                for c in chars.iter().step_by(7) {
                    words.push(vec![l, r, *c]);
                    words.push(vec![*c, l, r]);
                }
            }
        }
    }
    match compare_font(&name, &model, n_errors, &compiled, &words, obs) {
        Ok(st) => {
            if st.loop_reported {
                obs.count("corpus:fonts_with_loop_reported");
            } else {
                obs.add("corpus:runs_compared", st.runs);
                obs.count("corpus:fonts_compared");
                obs.add("corpus:rule_pairs", font.conv.tex.rule_pairs().len() as u64);
                if font.conv.phantom.is_some() {
                    obs.count("corpus:fonts_with_trigger_of_phantom_finding_but_no_visible_deviation");
                }
                if obs.wants_sample() {
                    obs.sample(json!({"font": name, "characters": chars.len(), "rule_pairs": font.conv.tex.rule_pairs().len(), "runs": st.runs}));
                }
            }
            obs.nontrivial(&("corpus", &name));
        }
        Err(None) => {}
        Err(Some(mis)) => {
            // attribute to the known finding only if the trigger holds and the deviation model
            // predicts exactly what the code did
            let explained = match &font.conv.phantom {
                Some(ph) => match build_model(ph, font.design, obs) {
                    ModelBuild::Ok(dev) => compare_font(&name, &dev, n_errors, &compiled, &words, obs).is_ok(),
                    _ => false,
                },
                None => false,
            };
            if explained {
                obs.known(PHANTOM_FINDING, json!({"first_deviation_from_TeX": mis.detail, "as": mis.signature,
                    "note": "a lig/kern chain of this font walks into an instruction with skip_byte > 128; the deviation model (that instruction acts as the LIG/KRN step its op_byte/remainder spell) reproduces every run"}));
                obs.count("corpus:fonts_deviating_as_known_finding");
            } else {
                obs.violation(mis.signature, mis.detail);
            }
        }
    }
}

/// A TeX-verified word on a corpus font (boxworks-text unit tests), node by node. The boundary
/// flags of these expectations were verified by the repository only up to TeX's ambiguous `|`.
fn font_case(c: &hand::FontCase, obs: &mut Obs) {
    let path = repo_dir().join("crates/tfm/corpus").join(c.font);
    let mut font = match load_font(&path) {
        Ok(f) => f,
        Err(e) => return obs.inconclusive(format!("hand-built font case: {} cannot be used: {e}", c.font)),
    };
    let model = match build_model(&font.conv.tex, font.design, obs) {
        ModelBuild::Ok(m) => m,
        _ => return obs.inconclusive(format!("hand-built font case: no model for {}", c.font)),
    };
    let word = c.word.as_bytes();
    let m = match model.run(word, true, None) {
        Ok(m) => m,
        Err(e) => return obs.inconclusive(e),
    };
    let real = catch(|| CompiledProgram::compile_from_tfm_file(&mut font.file).0).and_then(|cp| run_real(&cp, word, true, None, m.nodes.len() + 8));
    match real {
        Ok(r) => {
            if r != m.nodes {
                obs.violation(
                    "run:node-level-differs-on-hand-built-program",
                    json!({"font": c.font, "word": c.word, "compiled_run": fmt_nodes(&r), "direct_interpretation": fmt_nodes(&m.nodes)}),
                );
            } else {
                obs.count("handbuilt:node_level_runs_equal");
            }
        }
        Err(p) => obs.repo_panic(&p, json!({"font": c.font, "word": c.word})),
    }
}

// ------------------------------------------------------------------------------------------
// phase: known (one fixed reproducer per known finding, through the public `compile`)

/// Knuth-style minimal program (cf. corpus/originals/phantom-ligature-bug-minimal-repro-2):
///   0: (LABEL 0x00) (/LIG/ 0x01 0x02)          continue with 1
///   1: skip_byte 253, next_char 0x02, op_byte 0, remainder 0     = unconditional stop
/// TeX: (0,1) -> 0 2 1, then (0,2): instruction 1 cannot match -> terminates, output 0 2 1.
/// The code treats instruction 1 as "LIG 0x02 0x00": (0,2) -> 0, then (0,1) again: a loop is reported.
fn known_case(obs: &mut Obs) {
    let lp = lang::Program {
        instructions: vec![
            lang::Instruction {
                next_instruction: Some(0),
                right_char: Char(1),
                operation: lang::Operation::Ligature {
                    char_to_insert: Char(2),
                    post_lig_operation: lang::PostLigOperation::RetainBothMoveNowhere,
                    post_lig_tag_invalid: false,
                },
            },
            lang::Instruction {
                next_instruction: None,
                right_char: Char(2),
                operation: lang::Operation::EntrypointRedirect(0, true),
            },
        ],
        left_boundary_char_entrypoint: None,
        right_boundary_char: None,
        passthrough: Default::default(),
    };
    let design = 10 << 20;
    let conv = match convert_program(&lp, &[], &[(0, 0)], &|c| c <= 2) {
        Ok(c) => c,
        Err(e) => return obs.inconclusive(format!("known reproducer rejected: {e}")),
    };
    let Some(phantom) = conv.phantom.as_ref() else {
        return obs.inconclusive("known reproducer does not satisfy its own trigger predicate");
    };
    let (ModelBuild::Ok(tex), ModelBuild::Ok(dev)) = (build_model(&conv.tex, design, obs), build_model(phantom, design, obs)) else {
        return obs.inconclusive("known reproducer: no model");
    };
    if !tex.diverging.is_empty() || dev.diverging.is_empty() {
        return obs.inconclusive("known reproducer: the models do not separate TeX's rule from the deviation");
    }
    let entrypoints: HashMap<Char, u16> = [(Char(0), 0u16)].into_iter().collect();
    let real = catch(|| {
        let (compiled, errors) = CompiledProgram::compile(&lp, FixWord(design), &[], entrypoints);
        (compiled, errors.len())
    });
    let (compiled, n_errors) = match real {
        Ok(r) => r,
        Err(p) => return obs.repo_panic(&p, json!({"what": "compile (known reproducer)"})),
    };
    let words = words_up_to(&[0, 1, 2], 3);
    obs.nontrivial("known-phantom");
    match compare_font("<known reproducer>", &tex, n_errors, &compiled, &words, obs) {
        Ok(_) => obs.count("known:phantom_reproducer_behaves_like_TeX"),
        Err(None) => {}
        Err(Some(mis)) => {
            if compare_font("<known reproducer>", &dev, n_errors, &compiled, &words, obs).is_ok() {
                obs.known(
                    PHANTOM_FINDING,
                    json!({"program": fmt_prog(&conv.tex), "deviation": mis.detail, "as": mis.signature,
                           "TeX": "pair (0x00,0x01) terminates: /LIG/ gives 0 2 1, instruction 1 (skip_byte 253) never matches",
                           "code": "instruction 1 is run as LIG 0x02 -> 0x00, so (0,1) -> 0 2 1 -> 0 1 -> ... : an infinite loop is reported"}),
                );
            } else {
                obs.violation(mis.signature, mis.detail);
            }
        }
    }
}

// ------------------------------------------------------------------------------------------
// phase: enum2 (exhaustive small programs)

#[derive(Clone, Copy, PartialEq, Eq)]
enum EnumKind {
    Plain,
    Left,
    Right,
}

/// option index -> rule: 0 none, 1 kern, 2.. = 8 forms x results
fn enum_op(option: u64, results: &[u8], kern: i32) -> Option<lk::Op> {
    match option {
        0 => None,
        1 => Some(lk::Op::Kern(kern)),
        n => {
            let n = (n - 2) as usize;
            Some(lk::Op::Lig { code: lk::LIG_CODES[n % 8], insert: results[n / 8] })
        }
    }
}

fn push_block(p: &mut lk::Prog, left: lk::Left, rules: &[(u8, Option<lk::Op>)]) {
    let start = p.instrs.len();
    for (right, op) in rules {
        if let Some(op) = op {
            p.instrs.push(lk::Instr { skip: Some(0), right: *right, op: *op });
        }
    }
    if p.instrs.len() > start {
        p.instrs.last_mut().unwrap().skip = None;
        match left {
            Some(c) => {
                p.entry.insert(c, start);
            }
            None => p.left_entry = Some(start),
        }
    }
}

fn enum_case(idx: u64, kind: EnumKind, obs: &mut Obs) {
    let d: Vec<u64> = (0..4).map(|i| idx / ENUM_OPTIONS.pow(i) % ENUM_OPTIONS).collect();
    let (a, b, r) = (b'a', b'b', b'R');
    // distinct kern amounts so that a misplaced kern is visible
    let k = |n: i32| (n * 3 + 1) << 16;
    let inner = |p: &mut lk::Prog, extra_a: Option<(u8, Option<lk::Op>)>, extra_b: Option<(u8, Option<lk::Op>)>| {
        let mut ra = vec![(a, enum_op(d[0], &[a, b], k(1))), (b, enum_op(d[1], &[a, b], k(2)))];
        let mut rb = vec![(a, enum_op(d[2], &[a, b], k(3))), (b, enum_op(d[3], &[a, b], k(4)))];
        if let Some(x) = extra_a {
            ra.push(x);
        }
        if let Some(x) = extra_b {
            rb.push(x);
        }
        push_block(p, Some(a), &ra);
        push_block(p, Some(b), &rb);
    };
    let words = words_up_to(&[a, b], 4);
    let design = 10 << 20;
    let combos: u64 = if kind == EnumKind::Plain { 1 } else { ENUM_BOUNDARY_OPTIONS * ENUM_BOUNDARY_OPTIONS };
    for combo in 0..combos {
        let (o1, o2) = (combo % ENUM_BOUNDARY_OPTIONS, combo / ENUM_BOUNDARY_OPTIONS);
        let mut p = lk::Prog::default();
        match kind {
            EnumKind::Plain => inner(&mut p, None, None),
            EnumKind::Left => {
                inner(&mut p, None, None);
                push_block(&mut p, None, &[(a, enum_op(o1, &[a], k(5))), (b, enum_op(o2, &[a], k(6)))]);
            }
            EnumKind::Right => {
                p.right_boundary = Some(r);
                inner(&mut p, Some((r, enum_op(o1, &[a], k(5)))), Some((r, enum_op(o2, &[a], k(6)))));
            }
        }
        let mut specs = words.iter().flat_map(|w| {
            [true, false].into_iter().map(move |lb| RunSpec { word: w.clone(), left_boundary: lb, rb_override: None })
        });
        let o = check_program(&p, design, KernMode::Inline, Level::Sequence, &mut specs, obs);
        if o.nontrivial {
            obs.nontrivial_by_construction(1);
        }
    }
}

// ------------------------------------------------------------------------------------------
// phase: random

const POOL: [u8; 16] = [b'a', b'b', b'c', b'd', b'e', b'A', b'B', b'1', b'2', b'-', 0x01, 0x7f, 0x80, 0xe9, 0xff, b'f'];

fn random_kern(rng: &mut Rng) -> i32 {
    match rng.below(6) {
        0 => *rng.pick(&[0, 1, -1, (16 << 20) - 1, -(16 << 20), 1 << 20, -(1 << 20)]),
        1 => rng.range_i32(-(16 << 20), (16 << 20) - 1),
        _ => rng.range_i32(-(1 << 19), 1 << 19),
    }
}

fn random_design(rng: &mut Rng) -> i32 {
    match rng.below(8) {
        0..=3 => 10 << 20,
        4 => *rng.pick(&[5, 7, 12, 17, 128, 1000, 2047]) << 20,
        5 => rng.range_i32(1 << 20, i32::MAX),
        _ => rng.range_i32(1 << 20, 40 << 20),
    }
}

struct Generated {
    prog: lk::Prog,
    alphabet: Vec<u8>,
    /// the boundary character if it is not a letter of the alphabet
    extra: Option<u8>,
}

fn generate(rng: &mut Rng) -> Generated {
    let mut pool = POOL.to_vec();
    rng.shuffle(&mut pool);
    let k = rng.range_usize(3, 5);
    let alphabet: Vec<u8> = pool[..k].to_vec();
    let (right_boundary, extra) = match rng.below(20) {
        0..=5 => (None, None),
        6..=12 => (Some(*rng.pick(&alphabet)), None),
        _ => (Some(pool[k]), Some(pool[k])),
    };
    let mut rights = alphabet.clone();
    if let Some(e) = extra {
        rights.push(e);
        // rules for the boundary as right element should be common
        rights.push(e);
    }
    let lig_share = rng.range_i64(2, 9) as u64;
    // looping is likelier with the forms that keep the cursor in place; vary their share
    let calm = rng.chance(1, 2);
    let mut p = lk::Prog {
        right_boundary,
        ..Default::default()
    };
    let mut lefts: Vec<lk::Left> = alphabet.iter().map(|c| Some(*c)).filter(|_| rng.chance(4, 5)).collect();
    if lefts.is_empty() {
        lefts.push(Some(alphabet[0]));
    }
    if rng.chance(2, 5) {
        lefts.push(None);
    }
    rng.shuffle(&mut lefts);
    let mut block_starts: Vec<usize> = vec![];
    for left in &lefts {
        let n = match rng.below(6) {
            0..=2 => rng.range_usize(1, 3),
            3 | 4 => rng.range_usize(2, 5),
            _ => rng.range_usize(4, 8),
        };
        let start = p.instrs.len();
        block_starts.push(start);
        for i in 0..n {
            let right = *rng.pick(&rights);
            let op = if rng.chance(lig_share, 10) {
                let code = if calm && rng.chance(1, 2) {
                    *rng.pick(&[0u8, 5, 6, 11])
                } else {
                    *rng.pick(&lk::LIG_CODES)
                };
                lk::Op::Lig { code, insert: *rng.pick(&alphabet) }
            } else {
                lk::Op::Kern(random_kern(rng))
            };
            p.instrs.push(lk::Instr { skip: if i + 1 == n { None } else { Some(0) }, right, op });
        }
        match left {
            Some(c) => {
                p.entry.insert(*c, start);
            }
            None => p.left_entry = Some(start),
        }
    }
    let total = p.instrs.len();
    // SKIP n (may cross into other blocks), early STOP, fall-through into the next block
    for i in 0..total {
        match rng.below(24) {
            0 | 1 => {
                let room = total - i - 1; // need i + n + 1 < total
                if room >= 2 {
                    p.instrs[i].skip = Some(rng.range_usize(1, (room - 1).min(4)) as u8);
                }
            }
            2 => p.instrs[i].skip = None,
            3 => {
                if i + 1 < total {
                    p.instrs[i].skip = Some(0);
                }
            }
            _ => {}
        }
    }
    p.instrs[total - 1].skip = None;
    // shared / mid-chain entry points
    for c in &alphabet {
        if rng.chance(1, 8) {
            p.entry.insert(*c, rng.usize_below(total));
        } else if rng.chance(1, 10) {
            p.entry.insert(*c, *rng.pick(&block_starts));
        }
    }
    if rng.chance(1, 12) {
        p.left_entry = Some(rng.usize_below(total));
    }
    Generated { prog: p, alphabet, extra }
}

/// A hand-built program of the repository's unit tests with one to three random edits: the
/// unit-test programs seed the pool (DESIGN §6 C05 W).
fn generate_from_hand_built(rng: &mut Rng) -> Option<Generated> {
    let n_run = hand::RUN_CASES.len();
    let n_comp = hand::COMPILER_PROGRAMS.len();
    let pick = rng.usize_below(n_run + n_comp + hand::LOOP_CASES.len());
    let (text, rb): (String, Option<u8>) = if pick < n_run {
        (hand::expand(hand::RUN_CASES[pick].program), Some(hand::LIGAROO_BOUNDARY))
    } else if pick < n_run + n_comp {
        (hand::COMPILER_PROGRAMS[pick - n_run].1.to_string(), None)
    } else {
        (hand::LOOP_CASES[pick - n_run - n_comp].1.to_string(), if rng.coin() { Some(hand::LIGAROO_BOUNDARY) } else { None })
    };
    let mut p = hand::parse_ligtable(&text, rb).ok()?;
    if p.instrs.is_empty() {
        return None;
    }
    let mut letters: BTreeSet<u8> = p.entry.keys().copied().collect();
    for ins in &p.instrs {
        if Some(ins.right) != rb {
            letters.insert(ins.right);
        }
        if let lk::Op::Lig { insert, .. } = ins.op {
            letters.insert(insert);
        }
    }
    let alphabet: Vec<u8> = letters.into_iter().collect();
    let mut rights = alphabet.clone();
    rights.extend(rb);
    for _ in 0..rng.range_usize(1, 3) {
        let i = rng.usize_below(p.instrs.len());
        match rng.below(6) {
            0 | 1 => {
                // another of the eight forms (or turn a kern into a ligature step)
                let insert = match p.instrs[i].op {
                    lk::Op::Lig { insert, .. } => insert,
                    _ => *rng.pick(&alphabet),
                };
                p.instrs[i].op = lk::Op::Lig { code: *rng.pick(&lk::LIG_CODES), insert };
            }
            2 => {
                if let lk::Op::Lig { code, .. } = p.instrs[i].op {
                    p.instrs[i].op = lk::Op::Lig { code, insert: *rng.pick(&alphabet) };
                }
            }
            3 => p.instrs[i].right = *rng.pick(&rights),
            4 => p.instrs[i].op = lk::Op::Kern(random_kern(rng)),
            _ => {
                // a new one-instruction program for some character, or for the left boundary
                let at = p.instrs.len();
                p.instrs.push(lk::Instr {
                    skip: None,
                    right: *rng.pick(&rights),
                    op: lk::Op::Lig { code: *rng.pick(&lk::LIG_CODES), insert: *rng.pick(&alphabet) },
                });
                if rng.chance(1, 4) {
                    p.left_entry = Some(at);
                } else {
                    p.entry.insert(*rng.pick(&alphabet), at);
                }
            }
        }
    }
    let extra = rb.filter(|r| !alphabet.contains(r));
    Some(Generated { prog: p, alphabet, extra })
}

fn random_case(rng: &mut Rng, obs: &mut Obs) {
    let seeded = if rng.chance(1, 8) { generate_from_hand_built(rng) } else { None };
    let from_hand = seeded.is_some();
    let g = match seeded {
        Some(g) => g,
        None => generate(rng),
    };
    let design = random_design(rng);
    let mode = if rng.chance(1, 3) { KernMode::Indexed } else { KernMode::Inline };
    if !g.prog.well_formed() {
        return obs.inconclusive("generator produced a program outside TeX's domain");
    }
    let mut words = words_up_to(&g.alphabet, if g.alphabet.len() <= 5 { 4 } else { 3 });
    for _ in 0..40 {
        let n = rng.range_usize(5, 12);
        words.push((0..n).map(|_| *rng.pick(&g.alphabet)).collect());
    }
    if let Some(e) = g.extra {
        // the boundary character is a character of the font too: let it occur inside words
        for _ in 0..20 {
            let n = rng.range_usize(1, 6);
            words.push((0..n).map(|_| if rng.chance(1, 3) { e } else { *rng.pick(&g.alphabet) }).collect());
        }
    }
    let mut overrides: Vec<u8> = g.alphabet.clone();
    if let Some(e) = g.extra {
        overrides.push(e);
    }
    // per word: both left-boundary settings; a right-boundary override for about a third
    let mut specs_v: Vec<RunSpec> = Vec::with_capacity(words.len() * 3);
    for w in words {
        let ov = if rng.chance(1, 3) { Some(*rng.pick(&overrides)) } else { None };
        for lb in [true, false] {
            specs_v.push(RunSpec { word: w.clone(), left_boundary: lb, rb_override: None });
        }
        if let Some(o) = ov {
            specs_v.push(RunSpec { word: w, left_boundary: rng.coin(), rb_override: Some(o) });
        }
    }
    let o = check_program(&g.prog, design, mode, Level::Sequence, &mut specs_v.into_iter(), obs);
    if o.ok {
        if g.prog.right_boundary.is_some() && g.extra.is_none() {
            obs.count("programs:boundary_char_inside_alphabet");
        }
        if mode == KernMode::Indexed {
            obs.count("programs:kerns_through_kern_table");
        }
        if from_hand {
            obs.count("programs:edited_hand_built_program");
        }
    }
    if o.nontrivial {
        obs.nontrivial_hash(prog_hash(&g.prog, design, mode));
    }
}

// ------------------------------------------------------------------------------------------
// calibration: the models against the repository's ground truth (no call into the code under test)

fn calibrate(obs: &mut Obs) {
    let design = hand::LIGAROO_DESIGN_SIZE;
    // (1) node-level TeX model against the 43 TeX-verified expectations of ligkern/mod.rs
    for c in hand::RUN_CASES {
        let prog = match hand::parse_ligtable(&hand::expand(c.program), Some(hand::LIGAROO_BOUNDARY)) {
            Ok(p) => p,
            Err(e) => {
                obs.inconclusive(format!("calibration: program of {} unreadable: {e}", c.name));
                continue;
            }
        };
        match build_model(&prog, design, obs) {
            ModelBuild::Ok(m) => match m.run(c.word.as_bytes(), true, None) {
                Ok(r) => {
                    let got = fmt_nodes(&r.nodes);
                    if got != c.want {
                        obs.inconclusive(format!(
                            "calibration: TeX-loop model gives '{got}' for unit test {} on '{}', TeX (per the repository's verified expectation) gives '{}'",
                            c.name, c.word, c.want
                        ));
                    } else {
                        obs.count("calibration:tex_verified_runs_reproduced_node_by_node");
                    }
                }
                Err(e) => obs.inconclusive(format!("calibration: {} : {e}", c.name)),
            },
            ModelBuild::TooLong => obs.inconclusive(format!("calibration: {} exceeds the harness bound", c.name)),
            ModelBuild::Disagree => {}
        }
    }
    // (2) the same on the corpus fonts used by boxworks-text (read at run time; the TFM reader
    // is used only to obtain the raw program)
    for c in hand::FONT_CASES {
        let path = repo_dir().join("crates/tfm/corpus").join(c.font);
        let font = match load_font(&path) {
            Ok(f) => f,
            Err(e) => {
                obs.inconclusive(format!("calibration: {} cannot be used: {e}", c.font));
                continue;
            }
        };
        if let ModelBuild::Ok(m) = build_model(&font.conv.tex, font.design, obs) {
            match m.run(c.word.as_bytes(), true, None) {
                Ok(r) if fmt_nodes(&r.nodes) == c.want => obs.count("calibration:tex_verified_font_runs_reproduced"),
                Ok(r) => obs.inconclusive(format!(
                    "calibration: model gives '{}' for '{}' in {}, TeX gives '{}'",
                    fmt_nodes(&r.nodes),
                    c.word,
                    c.font,
                    c.want
                )),
                Err(e) => obs.inconclusive(format!("calibration: {e}")),
            }
        }
    }
    // (3) loop detection against Knuth's own messages
    for (name, text, knuth_pair) in hand::LOOP_CASES {
        let prog = match hand::parse_ligtable(text, None) {
            Ok(p) => p,
            Err(e) => {
                obs.inconclusive(format!("calibration: loop program {name} unreadable: {e}"));
                continue;
            }
        };
        if let ModelBuild::Ok(m) = build_model(&prog, design, obs) {
            if m.diverging.contains(knuth_pair) && m.on_cycle.contains(knuth_pair) {
                obs.count("calibration:knuth_loop_messages_reproduced");
            } else {
                obs.inconclusive(format!(
                    "calibration: Knuth reports a loop starting with {knuth_pair:?} for {name}; model: diverging {:?}, on cycle {:?}",
                    m.diverging, m.on_cycle
                ));
            }
        }
    }
    // (4) the compiler.rs programs and the hand-built run cases have no loop
    for (name, text) in hand::COMPILER_PROGRAMS {
        if let Ok(prog) = hand::parse_ligtable(text, None) {
            if let ModelBuild::Ok(m) = build_model(&prog, design, obs) {
                if !m.diverging.is_empty() {
                    obs.inconclusive(format!("calibration: model finds a loop in compiler.rs program {name}"));
                } else {
                    obs.count("calibration:loop_free_programs_confirmed");
                }
            }
        }
    }
}
