//! The repository's hand-built lig/kern programs, transcribed.
//!
//! * `RUN_CASES`: the 43 cases of `crates/tfm/src/ligkern/mod.rs` (program text copied from the
//!   test, the word, and the expected run items written in the compact notation of
//!   [`crate::fmt_nodes`]). Those expectations were verified by the repository against a real
//!   TeX (`TEXCRAFT_VERIFY=tex`), so they are ground truth for the node-level model.
//! * `FONT_CASES`: the TeX-verified cases of `crates/boxworks-text/src/lib.rs` on corpus fonts.
//! * `COMPILER_PROGRAMS`: the programs of `crates/tfm/src/ligkern/compiler.rs` (their expectations
//!   are internal tables, so only the programs are used).
//! * `LOOP_CASES`: programs from `crates/tfm/corpus/originals/*.plst` for which Knuth's pltotf /
//!   tftopl printed "Infinite ligature loop starting with x and y!" (the `.stderr.txt` files).
//!
//! All programs live in the test font "ligaroo": DESIGNSIZE 10, BOUNDARYCHAR C R.

use vmodels::fontarith as fa;
use vmodels::ligkern as lk;

pub struct RunCase {
    pub name: &'static str,
    pub program: &'static str,
    pub word: &'static str,
    pub want: &'static str,
}

macro_rules! rc {
    ($n:expr, $p:expr, $w:expr, $e:expr) => {
        RunCase {
            name: $n,
            program: $p,
            word: $w,
            want: $e,
        }
    };
}

const SL: &str = "(KRN C 1 R 0.1)(STOP)(LABEL C 1)(KRN C B R 0.3)(STOP)";

/// program prefix + the shared tail of the single_lig_* tests
pub fn expand(program: &str) -> String {
    program.replace("@SL", SL)
}

pub const RUN_CASES: &[RunCase] = &[
    rc!("empty_input", "", "", ""),
    rc!("single_lig_1", "(LABEL C A)(LIG C B C 1)@SL", "AB", "1[AB]"),
    rc!("single_lig_2", "(LABEL C A)(/LIG C B C 1)@SL", "AB", "=A ~1.0 1[B]"),
    rc!("single_lig_3", "(LABEL C A)(/LIG> C B C 1)@SL", "AB", "=A 1[B]"),
    rc!("single_lig_4", "(LABEL C A)(LIG/ C B C 1)@SL", "AB", "1[A] ~3.0 =B"),
    rc!("single_lig_5", "(LABEL C A)(LIG/> C B C 1)@SL", "AB", "1[A] =B"),
    rc!("single_lig_6", "(LABEL C A)(/LIG/ C B C 1)@SL", "AB", "=A ~1.0 1[] ~3.0 =B"),
    rc!("single_lig_7", "(LABEL C A)(/LIG/> C B C 1)@SL", "AB", "=A 1[] ~3.0 =B"),
    rc!("single_lig_8", "(LABEL C A)(/LIG/>> C B C 1)@SL", "AB", "=A 1[] =B"),
    rc!("no_op_lig", "(LABEL C A)(LIG/> C B C A)(STOP)", "AB", "A[A] =B"),
    rc!("multiple_lig_1", "(LABEL C A)(LIG C B C 1)(LABEL C 1)(LIG C C C 2)(STOP)", "ABC", "2[ABC]"),
    rc!("multiple_lig_2", "(LABEL C A)(/LIG/ C B C 1)(LABEL C 1)(LIG C B C 2)(STOP)", "AB", "=A 2[B]"),
    rc!("multiple_lig_3", "(LABEL C A)(LIG/ C A C 1)(STOP)", "AAAAA", "1[A] 1[A] 1[A] 1[A] =A"),
    rc!("multiple_lig_4", "(LABEL C A)(LIG C A C A)(STOP)", "AAAAAA", "A[AAAAAA]"),
    rc!("multiple_lig_5", "(LABEL C A)(/LIG C B C 1)(LIG/ C 1 C 2)(STOP)", "AB", "2[A] 1[B]"),
    rc!("multiple_lig_6", "(LABEL C A)(/LIG C B C 1)(LIG/ C 1 C 2)(LABEL C 2)(LIG C 1 C 3)(STOP)", "AB", "3[AB]"),
    rc!("multiple_lig_7", "(LABEL C A)(LIG C B C 1)(STOP)(LABEL C 1)(/LIG/>> C C C 2)(STOP)", "ABC", "1[AB] 2[] =C"),
    rc!("kern_after_lig_1", "(LABEL C A)(LIG C B C 1)(STOP)(LABEL C 1)(KRN C C R 0.1)", "ABC", "1[AB] ~1.0 =C"),
    rc!("kern_after_lig_2", "(LABEL C A)(LIG C B C 1)(STOP)(LABEL C 1)(KRN C A R 0.1)", "ABAB", "1[AB] ~1.0 1[AB]"),
    rc!("left_boundary_char_1", "(LABEL BOUNDARYCHAR)(LIG C A C 1)", "A", "|1[A]"),
    rc!("left_boundary_char_2", "(LABEL BOUNDARYCHAR)(/LIG/ C A C 1)(/LIG/ C 1 C 2)", "A", "|2[] 1[] =A"),
    rc!("left_boundary_char_3", "(LABEL BOUNDARYCHAR)(/LIG/ C A C 1)", "A", "|1[] =A"),
    rc!("left_boundary_char_4", "(LABEL BOUNDARYCHAR)(/LIG C A C 1)", "A", "|1[A]"),
    rc!("left_boundary_char_5", "(LABEL BOUNDARYCHAR)(/LIG> C A C 1)", "A", "|1[A]"),
    rc!("left_boundary_char_6", "(LABEL BOUNDARYCHAR)(LIG/ C A C 1)", "A", "|1[] =A"),
    rc!("left_boundary_char_7", "(LABEL BOUNDARYCHAR)(LIG/> C A C 1)", "A", "|1[] =A"),
    rc!("left_boundary_char_8", "(LABEL BOUNDARYCHAR)(/LIG/> C A C 1)", "A", "|1[] =A"),
    rc!("left_boundary_char_9", "(LABEL BOUNDARYCHAR)(/LIG/>> C A C 1)", "A", "|1[] =A"),
    rc!("right_boundary_char_lig_1", "(LABEL C A)(LIG C R C 1)(STOP)", "A", "1[A]|"),
    rc!("right_boundary_char_lig_2", "(LABEL C A)(/LIG C R C B)(STOP)", "A", "=A B[]|"),
    rc!("right_boundary_char_lig_3", "(LABEL C A)(/LIG> C R C B)(STOP)", "A", "=A B[]|"),
    rc!("right_boundary_char_lig_4", "(LABEL C A)(/LIG/ C R C B)(STOP)", "A", "=A B[]|"),
    rc!("right_boundary_char_lig_5", "(LABEL C A)(LIG/ C R C B)(STOP)", "A", "B[A]|"),
    rc!("right_boundary_char_lig_6", "(LABEL C A)(LIG/> C R C B)(STOP)", "A", "B[A]|"),
    rc!("right_boundary_char_lig_7", "(LABEL C A)(/LIG/> C R C B)(STOP)", "A", "=A B[]|"),
    rc!("right_boundary_char_lig_8", "(LABEL C A)(/LIG/>> C R C B)(STOP)", "A", "=A B[]|"),
    rc!("right_boundary_char_lig_9", "(LABEL C A)(LIG C R C B)(LABEL C B)(LIG C R C C)(STOP)", "A", "B[A]|"),
    rc!("right_boundary_char_lig_10", "(LABEL C A)(LIG/ C R C B)(LABEL C B)(LIG/ C R C C)(STOP)", "A", "C[A]|"),
    rc!("right_boundary_char_lig_11", "(LABEL C A)(LIG C R C B)(LABEL C B)(LIG/ C R C C)(STOP)", "A", "B[A]|"),
    rc!("right_boundary_char_lig_12", "(LABEL C A)(LIG/ C R C B)(LABEL C B)(LIG C R C C)(STOP)", "A", "C[A]|"),
    rc!("right_boundary_char_kern_1", "(LABEL C A)(KRN C R R 1)(STOP)", "A", "=A ~10.0"),
    rc!("right_boundary_char_kern_2", "(LABEL C A)(LIG/ C R C B)(LABEL C B)(LIG/ C R C C)(LABEL C C)(KRN C R R 1)(STOP)", "A", "C[A]| ~10.0"),
    rc!("right_boundary_char_kern_3", "(LABEL C A)(LIG C B C C)(LABEL C C)(KRN C R R 1)(STOP)", "AB", "C[AB] ~10.0"),
];

pub struct FontCase {
    pub font: &'static str,
    pub word: &'static str,
    pub want: &'static str,
}

/// boxworks-text/src/lib.rs (verified against TeX with a lossy comparison of the boundary flags,
/// which TeX's \showbox prints as an ambiguous `|`).
pub const FONT_CASES: &[FontCase] = &[
    FontCase { font: "computer-modern/cmr10.tfm", word: "second", want: "=s =e =c =o =n =d" },
    FontCase { font: "computer-modern/cmr10.tfm", word: "AO", want: "=A ~-0.27779 =O" },
    FontCase { font: "computer-modern/cmr10.tfm", word: "AV", want: "=A ~-1.11113 =V" },
    FontCase { font: "computer-modern/cmr10.tfm", word: "ff", want: "%0b[ff]" },
    FontCase { font: "computer-modern/cmr10.tfm", word: "ffi", want: "%0e[ffi]" },
    FontCase { font: "ctan/smfebsl10-3.tfm", word: "ond", want: "=o =n ~-0.49814 =d" },
    FontCase { font: "ctan/smfebsl10-3.tfm", word: "123B", want: "|$[] =1 =2 =3 #[] =B" },
    FontCase { font: "ctan/smfebsl10-3.tfm", word: "A123B", want: "=A $[] =1 =2 =3 #[] =B" },
    FontCase { font: "ctan/smfebsl10-3.tfm", word: "A123", want: "=A $[] =1 =2 =3 #[]|" },
];

/// compiler.rs: (name, program). Kerns there are FixWord::ONE * n at design size ONE; here the
/// same programs live in ligaroo (design size 10).
pub const COMPILER_PROGRAMS: &[(&str, &str)] = &[
    ("empty_program", ""),
    ("kern", "(LABEL C A)(KRN C V R 1.0)(STOP)"),
    ("same_kern_for_multiple_left_characters", "(LABEL C A)(LABEL C B)(KRN C V R 1.0)(STOP)"),
    ("duplicate_kern", "(LABEL C A)(KRN C V R 2.0)(KRN C V R 3.0)(STOP)"),
    ("kern_instructions_with_relationship", "(LABEL C A)(KRN C V R 2.0)(LABEL C B)(KRN C W R 3.0)(STOP)(LABEL C C)(KRN C X R 4.0)(STOP)"),
    ("single_lig_1", "(LABEL C A)(LIG C B C Z)(STOP)"),
    ("single_lig_2", "(LABEL C A)(/LIG> C B C Z)(KRN C Z R 1.0)(STOP)"),
    ("retain_left_move_nowhere_1", "(LABEL C A)(/LIG C B C Z)(KRN C Z R 1.0)(STOP)"),
    ("retain_left_move_nowhere_2", "(LABEL C A)(/LIG C B C Z)(STOP)"),
    ("single_lig_4", "(LABEL C A)(LIG/ C B C Z)(STOP)(LABEL C Z)(KRN C B R 1.0)(STOP)"),
    ("single_lig_5", "(LABEL C A)(LIG/> C B C Z)(STOP)(LABEL C Z)(KRN C B R 1.0)(STOP)"),
    ("retain_both_move_nowhere_1", "(LABEL C A)(/LIG/ C B C Z)(KRN C Z R 2.0)(STOP)(LABEL C Z)(KRN C B R 3.0)(STOP)"),
    ("retain_both_move_nowhere_2", "(LABEL C A)(/LIG/ C B C Z)(STOP)"),
    ("retain_both_move_nowhere_3", "(LABEL C A)(/LIG/ C B C Z)(STOP)(LABEL C Z)(LIG/> C B C Y)(STOP)"),
    ("retain_both_move_nowhere_4", "(LABEL C A)(/LIG/ C B C Z)(/LIG/>> C Z C Y)(STOP)"),
    ("retain_both_move_to_inserted_1", "(LABEL C A)(/LIG/> C B C Z)(KRN C Z R 2.0)(STOP)(LABEL C Z)(KRN C B R 3.0)(STOP)"),
    ("retain_both_move_to_inserted_2", "(LABEL C A)(/LIG/> C B C Z)(STOP)(LABEL C Z)(LIG/ C B C Y)(STOP)"),
    ("retain_both_move_to_inserted_3", "(LABEL C A)(/LIG/> C B C Z)(STOP)"),
    ("retain_both_move_to_inserted_4", "(LABEL C A)(/LIG/> C B C Z)(STOP)(LABEL C Z)(LIG/> C B C Y)(STOP)"),
    ("retain_both_move_to_right_1", "(LABEL C A)(/LIG/>> C B C Z)(KRN C Z R 2.0)(STOP)(LABEL C Z)(KRN C B R 3.0)(STOP)"),
    ("is_lig_propagated_1", "(LABEL C A)(/LIG/> C B C Y)(STOP)(LABEL C Y)(/LIG> C B C Z)(STOP)"),
    ("is_lig_propagated_2", "(LABEL C A)(/LIG C B C Y)(LIG/> C Y C Z)(STOP)"),
];

/// (file stem in corpus/originals, program, the pair Knuth's message names; None = boundary)
pub const LOOP_CASES: &[(&str, &str, (Option<u8>, u8))] = &[
    ("ligature-loop", "(LABEL C A)(/LIG C B C C)(/LIG C C C B)(STOP)", (Some(b'A'), b'B')),
    ("infinite-loop-error-ordering-a", "(LABEL C A)(LABEL C B)(LIG/ C C C B)(STOP)", (Some(b'B'), b'C')),
    ("infinite-loop-error-ordering-b", "(LABEL C A)(LIG/ C C C A)(LIG/ C B C A)(STOP)", (Some(b'A'), b'B')),
    ("infinite-loop-error-ordering-c", "(LABEL C A)(LIG/ C B C A)(LIG/ C C C A)(STOP)", (Some(b'A'), b'C')),
    ("infinite-loop-error-ordering-d", "(LABEL C A)(LABEL C B)(LABEL C C)(LIG/ C D C C)(STOP)", (Some(b'C'), b'D')),
    ("infinite-loop-error-ordering-e", "(LABEL C A)(LIG/ C C C A)(STOP)(LABEL C B)(LIG/ C C C A)(STOP)", (Some(b'A'), b'C')),
    ("infinite-loop-error-ordering-f", "(LABEL C B)(LIG/ C C C A)(STOP)(LABEL C A)(LIG/ C C C A)(STOP)", (Some(b'A'), b'C')),
    ("infinite-loop-error-ordering-g", "(LABEL C A)(LIG/ C D C C)(STOP)(LABEL C F)(LIG/ C D C C)(STOP)(LABEL C C)(/LIG C D C E)(/LIG C E C E)(STOP)", (Some(b'C'), b'E')),
    ("left-boundary-char-infinite-loop", "(LABEL BOUNDARYCHAR)(/LIG C P C Q)(/LIG C Q C P)(STOP)", (None, b'P')),
];

pub const LIGAROO_DESIGN_SIZE: i32 = 10 << 20;
pub const LIGAROO_BOUNDARY: u8 = b'R';

/// Reads the body of a `(LIGTABLE ...)` as PLtoTF does (only the `C x` character form, which is
/// all the tests use): LABEL attaches an entry point to the next instruction, LIG forms and KRN
/// append an instruction that continues with the next one, STOP / SKIP modify the instruction
/// before them, and the very last instruction stops (PLtoTF §116).
pub fn parse_ligtable(text: &str, right_boundary: Option<u8>) -> Result<lk::Prog, String> {
    let mut p = lk::Prog {
        right_boundary,
        ..Default::default()
    };
    for part in text.split('(') {
        let part = part.trim();
        if part.is_empty() {
            continue;
        }
        let part = part.strip_suffix(')').ok_or_else(|| format!("missing ')' in '{part}'"))?.trim();
        let toks: Vec<&str> = part.split_whitespace().collect();
        let ch = |i: usize| -> Result<u8, String> {
            if toks.get(i) != Some(&"C") {
                return Err(format!("expected 'C x' in '{part}'"));
            }
            let t = toks.get(i + 1).ok_or_else(|| format!("missing character in '{part}'"))?;
            if t.len() != 1 {
                return Err(format!("bad character in '{part}'"));
            }
            Ok(t.as_bytes()[0])
        };
        let lig_code = |name: &str| -> Option<u8> { lk::LIG_CODES.iter().copied().find(|c| lk::lig_name(*c) == name) };
        match toks[0] {
            "LABEL" => {
                let at = p.instrs.len();
                if toks.get(1) == Some(&"BOUNDARYCHAR") {
                    p.left_entry = Some(at);
                } else {
                    p.entry.insert(ch(1)?, at);
                }
            }
            "KRN" => {
                let right = ch(1)?;
                if toks.get(3) != Some(&"R") {
                    return Err(format!("expected 'R v' in '{part}'"));
                }
                let v = fa::parse_fix_word(toks.get(4).ok_or("missing kern")?).map_err(|e| format!("{e:?}"))?;
                p.instrs.push(lk::Instr { skip: Some(0), right, op: lk::Op::Kern(v) });
            }
            "STOP" => {
                if let Some(last) = p.instrs.last_mut() {
                    last.skip = None;
                }
            }
            "SKIP" => {
                let n: u8 = toks.get(2).and_then(|t| t.parse().ok()).ok_or("bad SKIP")?;
                if let Some(last) = p.instrs.last_mut() {
                    last.skip = Some(n);
                }
            }
            name => match lig_code(name) {
                Some(code) => {
                    let right = ch(1)?;
                    let insert = ch(3)?;
                    p.instrs.push(lk::Instr { skip: Some(0), right, op: lk::Op::Lig { code, insert } });
                }
                None => return Err(format!("unknown element '{part}'")),
            },
        }
    }
    if let Some(last) = p.instrs.last_mut() {
        if last.skip == Some(0) {
            last.skip = None;
        }
    }
    // labels after the last instruction point nowhere (PLtoTF drops them)
    let n = p.instrs.len();
    p.entry.retain(|_, e| *e < n);
    if p.left_entry.map_or(false, |e| e >= n) {
        p.left_entry = None;
    }
    Ok(p)
}
