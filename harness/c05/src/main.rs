fn main() {
    vcore::run_main(&c05::MONITOR)
}
