//! Category-code tables and workload generators.

use vcore::{json, Rng, Value};
use vmodels::lexer as model;
use vmodels::lexer::Tok;

pub const NON_ASCII: &[char] = &['é', '☃', '😀', 'ß'];

/// A category-code table: 128 ASCII entries + explicit entries for a few non-ASCII characters
/// (anything else non-ASCII is `other`, as in the repo's `codes::Component`).
#[derive(Clone, Debug, PartialEq, Eq)]
pub struct Table {
    ascii: [u8; 128],
    high: Vec<(char, u8)>,
}

impl Table {
    pub fn all(k: u8) -> Table {
        Table {
            ascii: [k; 128],
            high: vec![],
        }
    }
    pub fn plain() -> Table {
        let mut t = Table::all(12);
        for u in 0..128u32 {
            let c = char::from_u32(u).unwrap();
            t.ascii[u as usize] = model::plain_cat(c);
        }
        t
    }
    #[inline]
    pub fn get(&self, c: char) -> u8 {
        let u = c as u32;
        if u < 128 {
            self.ascii[u as usize]
        } else {
            for (d, k) in &self.high {
                if *d == c {
                    return *k;
                }
            }
            12
        }
    }
    pub fn set(&mut self, c: char, k: u8) {
        let u = c as u32;
        if u < 128 {
            self.ascii[u as usize] = k;
        } else if let Some(e) = self.high.iter_mut().find(|(d, _)| *d == c) {
            e.1 = k;
        } else {
            self.high.push((c, k));
        }
    }
    /// The part of the table that matters for a text: codes of the characters occurring in it,
    /// of the end-line character and of everything a `^^` reduction of them can produce.
    pub fn signature(&self, src: &str, elc: Option<char>) -> Vec<(char, u8)> {
        let mut v: Vec<(char, u8)> = vec![];
        let mut push = |c: char| {
            if !v.iter().any(|(d, _)| *d == c) {
                v.push((c, self.get(c)));
            }
        };
        for c in src.chars().chain(elc) {
            push(c);
            if (c as u32) < 128 {
                let u = c as u32;
                push(char::from_u32(if u < 64 { u + 64 } else { u - 64 }).unwrap());
            }
        }
        v.sort();
        v
    }
    pub fn describe(&self, src: &str, elc: Option<char>) -> Value {
        let v: Vec<String> = self
            .signature(src, elc)
            .into_iter()
            .filter(|(c, k)| *k != model::plain_cat(*c) || src.contains(*c) || elc == Some(*c))
            .map(|(c, k)| format!("{:?}={}", c, k))
            .collect();
        json!(v)
    }
}

pub fn show_tok(t: &Tok) -> String {
    match t {
        Tok::Cs(n) => format!("\\{}", n.escape_debug()),
        Tok::Char(c, k) => format!("{}/{}", c.escape_debug(), k),
    }
}

// ------------------------------------------------------------------------------------------
// exhaustive sub-space
// ------------------------------------------------------------------------------------------

pub const EXH_SYMBOLS: [char; 7] = ['\\', '^', ' ', '\n', '5', 'e', 'é'];
pub const EXH_TABLES: usize = 6;
pub const EXH_ELC: &[Option<char>] = &[Some('\r'), None, Some('e'), Some('^'), Some(' ')];

/// idx -> string: all strings of length 0, then length 1, ... (mixed radix 7).
pub fn exh_string(idx: u64, max_len: u32) -> String {
    let mut idx = idx;
    let mut len = 0u32;
    loop {
        let n = 7u64.pow(len);
        if idx < n || len == max_len {
            break;
        }
        idx -= n;
        len += 1;
    }
    let mut s = String::new();
    for _ in 0..len {
        s.push(EXH_SYMBOLS[(idx % 7) as usize]);
        idx /= 7;
    }
    s
}

/// Six tables giving the seven symbols (and CR) very different roles. Everything not mentioned is
/// as in plain TeX.
pub fn exh_table(t: usize) -> Table {
    let mut tb = Table::plain();
    //                     \    ^    sp   5    e    é    CR
    let rows: [[u8; 7]; 6] = [
        [0, 7, 10, 12, 11, 12, 5],  // plain
        [12, 11, 10, 7, 11, 0, 5],  // é escapes, 5 is the superscript character, ^ a letter
        [0, 7, 12, 11, 12, 11, 12], // space and CR are `other`, 5 and é letters, e not a letter
        [0, 7, 10, 9, 14, 15, 10],  // 5 ignored, e comment, é invalid, CR a space
        [0, 13, 9, 1, 5, 7, 5],     // ^ active, space ignored, e end-of-line, é superscript
        [0, 7, 11, 11, 11, 11, 11], // everything a letter
    ];
    let chars = ['\\', '^', ' ', '5', 'e', 'é', '\r'];
    for (c, k) in chars.iter().zip(rows[t].iter()) {
        tb.set(*c, *k);
    }
    tb
}

// ------------------------------------------------------------------------------------------
// random workload
// ------------------------------------------------------------------------------------------

/// The adversarial alphabet: the characters named by the property plus the `^^` partners of the
/// special ones (`^^M`=CR, `^^@`=NUL, `^^?`=DEL, `^^e`=%, `^^;`={, `^^=`=}, `^^` `=space, `^^^^^`
/// (0x1e)=^, `^^\u{1c}`=\).
pub const ADV: &[char] = &[
    '\\', '{', '}', '^', ' ', '\t', '\r', '\0', '\u{7f}', '%', 'a', 'b', 'e', 'f', 'c', 'd', 'k', 'm', 'M',
    'Z', 'u', '0', '5', '7', '9', 'é', '☃', '😀', 'ß', '~', '#', '$', '&', '_', '\u{1e}', '\u{1c}', '+',
    '-', '@', '?', '!', ';', '=', '`', 'J', '\u{0b}',
];

const HEX: &[char] = &[
    '0', '1', '2', '3', '4', '5', '6', '7', '8', '9', 'a', 'b', 'c', 'd', 'e', 'f',
];

const CAT_WEIGHTS: [u32; 16] = [8, 3, 3, 2, 2, 8, 3, 10, 2, 7, 8, 12, 12, 5, 6, 4];

pub struct RandCase {
    pub src: String,
    pub table: Table,
    pub elc: Option<char>,
    pub report_eol: bool,
}

fn chars_with(table: &Table, cat: u8, pool: &[char]) -> Vec<char> {
    pool.iter().copied().filter(|c| table.get(*c) == cat).collect()
}

fn random_table(rng: &mut Rng) -> Table {
    let mut t = match rng.below(10) {
        0..=5 => Table::plain(),
        6 => {
            // IniTeX-like: no braces, no superscript
            let mut t = Table::all(12);
            for u in 0..128u32 {
                let c = char::from_u32(u).unwrap();
                t.set(c, model::initex_cat(c));
            }
            t
        }
        _ => {
            let mut t = Table::plain();
            for c in ADV {
                t.set(*c, rng.weighted(&CAT_WEIGHTS) as u8);
            }
            t
        }
    };
    let k = rng.below(5);
    for _ in 0..k {
        let c = *rng.pick(ADV);
        t.set(c, rng.weighted(&CAT_WEIGHTS) as u8);
    }
    t
}

/// One piece of text. `sup`/`esc`/`letters` are the characters currently in those roles.
fn piece(rng: &mut Rng, out: &mut String, table: &Table, pool: &[char], allow_newline: bool) {
    let sup = chars_with(table, 7, pool);
    let esc = chars_with(table, 0, pool);
    let letters = chars_with(table, 11, pool);
    let pick_or = |rng: &mut Rng, v: &[char], d: char| if v.is_empty() { d } else { *rng.pick(v) };
    match rng.weighted(&[42, 22, 12, 8, if allow_newline { 12 } else { 0 }, 4]) {
        0 => out.push(*rng.pick(pool)),
        1 => {
            // ^^ notation
            let s = pick_or(rng, &sup, '^');
            out.push(s);
            out.push(s);
            match rng.below(20) {
                0..=8 => out.push(*rng.pick(pool)),
                9..=13 => {
                    out.push(*rng.pick(HEX));
                    out.push(*rng.pick(HEX));
                }
                14..=15 => {} // nothing: often the line ends here
                16..=17 => {
                    // something that reduces to the superscript character itself, then more
                    if s == '^' {
                        if rng.coin() {
                            out.push('\u{1e}');
                        } else {
                            out.push_str("5e");
                        }
                    } else if (s as u32) < 128 {
                        out.push(char::from_u32((s as u32) ^ 64).unwrap());
                    }
                    out.push(s);
                    if rng.coin() {
                        out.push(*rng.pick(pool));
                    } else {
                        out.push(*rng.pick(HEX));
                        out.push(*rng.pick(HEX));
                    }
                }
                _ => out.push(*rng.pick(NON_ASCII)),
            }
        }
        2 => {
            // control sequence
            out.push(pick_or(rng, &esc, '\\'));
            let n = rng.below(4);
            for _ in 0..n {
                out.push(pick_or(rng, &letters, 'a'));
            }
            if rng.chance(1, 3) {
                let s = pick_or(rng, &sup, '^');
                out.push(s);
                out.push(s);
                if rng.chance(3, 4) {
                    out.push(*rng.pick(pool));
                }
                if rng.chance(1, 3) {
                    out.push(*rng.pick(HEX));
                }
            }
        }
        3 => {
            let n = 1 + rng.below(3);
            for _ in 0..n {
                out.push(if rng.chance(1, 5) { '\t' } else { ' ' });
            }
        }
        4 => {
            let n = rng.below(3);
            for _ in 0..n {
                out.push(' ');
            }
            out.push('\n');
        }
        _ => {
            out.push(*rng.pick(HEX));
            out.push(*rng.pick(HEX));
        }
    }
}

pub fn random_elc(rng: &mut Rng, table: &Table, pool: &[char]) -> Option<char> {
    match rng.weighted(&[15, 35, 10, 15, 10, 15]) {
        0 => None,
        1 => Some('\r'),
        2 => {
            let l: Vec<char> = chars_with(table, 11, pool).into_iter().filter(|c| c.is_ascii()).collect();
            Some(if l.is_empty() { 'a' } else { *rng.pick(&l) })
        }
        3 => {
            let l: Vec<char> = chars_with(table, 7, pool).into_iter().filter(|c| c.is_ascii()).collect();
            Some(if l.is_empty() { '^' } else { *rng.pick(&l) })
        }
        4 => Some(' '),
        _ => char::from_u32(rng.below(128) as u32),
    }
}

pub fn random_case(rng: &mut Rng) -> RandCase {
    let table = random_table(rng);
    let mut src = String::new();
    let n = rng.below(13);
    for _ in 0..n {
        piece(rng, &mut src, &table, ADV, true);
        if src.chars().count() >= 40 {
            break;
        }
    }
    match rng.below(4) {
        0 => src.push('\n'),
        1 => src.push_str("  \n"),
        2 => src.push(' '),
        _ => {}
    }
    let elc = random_elc(rng, &table, ADV);
    RandCase {
        src,
        table,
        elc,
        report_eol: rng.coin(),
    }
}

// ------------------------------------------------------------------------------------------
// VM programs: text with the lexing rules changed mid-file
// ------------------------------------------------------------------------------------------

/// Characters whose category codes the embedded commands rely on; never re-categorised.
fn pinned(c: char) -> bool {
    matches!(c, '\\' | '`' | '=' | '-' | 'Q' | 'W' | 'Y' | 'V') || c.is_ascii_digit()
}

fn vm_pool() -> Vec<char> {
    ADV.iter().copied().collect()
}

fn vm_catcode_command(rng: &mut Rng, table: &mut Table, out: &mut String) {
    let targets: Vec<char> = ADV.iter().copied().filter(|c| !pinned(*c)).collect();
    let c = *rng.pick(&targets);
    let mut k = rng.weighted(&CAT_WEIGHTS) as u8;
    if k == 15 && rng.chance(3, 4) {
        k = 11;
    }
    if rng.coin() {
        out.push_str(&format!("\\Q`\\{}={}\\Y", c, k));
    } else {
        out.push_str(&format!("\\Q{}={}\\Y", c as u32, k));
    }
    table.set(c, k);
}

fn vm_endlinechar_command(rng: &mut Rng, table: &Table, out: &mut String) {
    let v: i32 = match rng.weighted(&[20, 25, 15, 15, 10, 15]) {
        0 => -1,
        1 => 13,
        2 => *rng.pick(&['a', 'e', 'M', 'k', 'Z']) as i32,
        3 => {
            let l: Vec<char> = chars_with(table, 7, ADV).into_iter().filter(|c| c.is_ascii()).collect();
            (if l.is_empty() { '^' } else { *rng.pick(&l) }) as i32
        }
        4 => 32,
        _ => rng.below(128) as i32,
    };
    // an end-line character Q/W/Y/V after an escape character would spell a reserved command
    // (so would their ^^ partners 0x11 0x17 0x19 0x16)
    let v = if matches!(v, 81 | 87 | 89 | 86 | 17 | 23 | 25 | 22) { 75 } else { v };
    out.push_str(&format!("\\W={}\\Y", v));
}

pub fn random_vm_program(rng: &mut Rng) -> String {
    // the generator's idea of the current table (only used to aim the text at the special roles)
    let mut table = Table::plain();
    let pool = vm_pool();
    let mut out = String::new();
    if rng.coin() {
        let k = 1 + rng.below(4);
        for _ in 0..k {
            vm_catcode_command(rng, &mut table, &mut out);
        }
        if rng.chance(1, 4) {
            vm_endlinechar_command(rng, &table, &mut out);
        }
    }
    out.push_str("\\V=");
    let chunks = 1 + rng.below(5);
    for ci in 0..chunks {
        // a chunk of text
        let n = rng.below(9);
        for _ in 0..n {
            let before = out.len();
            piece(rng, &mut out, &table, &pool, true);
            // keep the reserved names and (mostly) invalid characters out of the text
            let added: String = out[before..].to_string();
            let bad = added.contains(['Q', 'W', 'Y', 'V'])
                || (added.chars().any(|c| table.get(c) == 15) && rng.chance(9, 10));
            if bad {
                out.truncate(before);
            }
        }
        if ci + 1 == chunks {
            break;
        }
        // a change of the lexing rules: usually on a line of its own, sometimes mid-line
        if rng.chance(7, 10) && !out.ends_with('\n') {
            out.push('\n');
        }
        if rng.chance(3, 4) {
            vm_catcode_command(rng, &mut table, &mut out);
            if rng.chance(1, 5) {
                vm_catcode_command(rng, &mut table, &mut out);
            }
        } else {
            vm_endlinechar_command(rng, &table, &mut out);
        }
        out.push_str("\\V=");
    }
    match rng.below(3) {
        0 => out.push('\n'),
        1 => out.push_str(" \n"),
        _ => {}
    }
    out
}
