//! Calibration ground truth: the table-driven unit tests of `crates/texlang/src/token/lexer.rs`
//! (≈110 cases, among them the TeXbook exercises 8.2, 8.4, 8.5, 8.6). The file is read at run time
//! (through `vcore::repo_dir()`) and the `lexer_tests![ .. ]` blocks are parsed with a small
//! tokenizer for the subset of Rust they use. Only the *model* is run against these tables.

#[derive(Debug, Clone, PartialEq)]
pub enum Want {
    Cs(String, u32),
    Ch(char, u8, u32),
    NewLine,
}

#[derive(Debug, Clone)]
pub struct Case {
    pub name: String,
    pub input: String,
    pub want: Vec<Want>,
    pub end_line_char: Option<char>,
    pub overrides: Vec<(char, u8)>,
}

#[derive(Debug, Clone, PartialEq)]
enum T {
    Ident(String),
    Int(u64),
    Str(String),
    Chr(char),
    P(char),
}

fn unescape(it: &mut std::iter::Peekable<std::str::Chars>) -> Result<char, String> {
    match it.next() {
        Some('n') => Ok('\n'),
        Some('r') => Ok('\r'),
        Some('t') => Ok('\t'),
        Some('0') => Ok('\0'),
        Some('\\') => Ok('\\'),
        Some('\'') => Ok('\''),
        Some('"') => Ok('"'),
        Some('u') => {
            if it.next() != Some('{') {
                return Err("bad \\u".into());
            }
            let mut v = 0u32;
            loop {
                match it.next() {
                    Some('}') => break,
                    Some(h) => v = v * 16 + h.to_digit(16).ok_or("bad hex in \\u")?,
                    None => return Err("eof in \\u".into()),
                }
            }
            char::from_u32(v).ok_or_else(|| "bad scalar".to_string())
        }
        Some(c) => Err(format!("unknown escape \\{c}")),
        None => Err("eof in escape".into()),
    }
}

fn tokenize(s: &str) -> Result<Vec<T>, String> {
    let mut out = vec![];
    let mut it = s.chars().peekable();
    while let Some(&c) = it.peek() {
        if c.is_whitespace() {
            it.next();
        } else if c == '/' {
            it.next();
            if it.peek() == Some(&'/') {
                for d in it.by_ref() {
                    if d == '\n' {
                        break;
                    }
                }
            } else {
                out.push(T::P('/'));
            }
        } else if c == 'r' && {
            let mut j = it.clone();
            j.next();
            j.peek() == Some(&'"')
        } {
            it.next();
            it.next();
            let mut v = String::new();
            loop {
                match it.next() {
                    Some('"') => break,
                    Some(d) => v.push(d),
                    None => return Err("eof in raw string".into()),
                }
            }
            out.push(T::Str(v));
        } else if c == '"' {
            it.next();
            let mut v = String::new();
            loop {
                match it.next() {
                    Some('"') => break,
                    Some('\\') => v.push(unescape(&mut it)?),
                    Some(d) => v.push(d),
                    None => return Err("eof in string".into()),
                }
            }
            out.push(T::Str(v));
        } else if c == '\'' {
            it.next();
            let ch = match it.next() {
                Some('\\') => unescape(&mut it)?,
                Some(d) => d,
                None => return Err("eof in char".into()),
            };
            if it.next() != Some('\'') {
                return Err("unterminated char literal".into());
            }
            out.push(T::Chr(ch));
        } else if c.is_ascii_digit() {
            let mut v = String::new();
            while let Some(&d) = it.peek() {
                if d.is_ascii_alphanumeric() || d == '_' {
                    v.push(d);
                    it.next();
                } else {
                    break;
                }
            }
            let v = v.replace('_', "");
            let n = if let Some(h) = v.strip_prefix("0x") {
                u64::from_str_radix(h, 16)
            } else {
                v.parse::<u64>()
            }
            .map_err(|e| format!("bad int {v}: {e}"))?;
            out.push(T::Int(n));
        } else if c.is_alphabetic() || c == '_' {
            let mut v = String::new();
            while let Some(&d) = it.peek() {
                if d.is_alphanumeric() || d == '_' {
                    v.push(d);
                    it.next();
                } else {
                    break;
                }
            }
            out.push(T::Ident(v));
        } else {
            it.next();
            out.push(T::P(c));
        }
    }
    Ok(out)
}

pub fn cat_by_name(n: &str) -> Option<u8> {
    Some(match n {
        "Escape" => 0,
        "BeginGroup" => 1,
        "EndGroup" => 2,
        "MathShift" => 3,
        "AlignmentTab" => 4,
        "EndOfLine" => 5,
        "Parameter" => 6,
        "Superscript" => 7,
        "Subscript" => 8,
        "Ignored" => 9,
        "Space" => 10,
        "Letter" => 11,
        "Other" => 12,
        "Active" => 13,
        "Comment" => 14,
        "Invalid" => 15,
        _ => return None,
    })
}

struct P {
    t: Vec<T>,
    i: usize,
}

impl P {
    fn peek(&self) -> Option<&T> {
        self.t.get(self.i)
    }
    fn next(&mut self) -> Result<T, String> {
        let t = self.t.get(self.i).cloned().ok_or("unexpected end")?;
        self.i += 1;
        Ok(t)
    }
    fn p(&mut self, c: char) -> Result<(), String> {
        match self.next()? {
            T::P(d) if d == c => Ok(()),
            other => Err(format!("expected '{c}', got {other:?} at token {}", self.i)),
        }
    }
    fn ident(&mut self, name: &str) -> Result<(), String> {
        match self.next()? {
            T::Ident(d) if d == name => Ok(()),
            other => Err(format!("expected {name}, got {other:?}")),
        }
    }
    fn eat_p(&mut self, c: char) -> bool {
        if self.peek() == Some(&T::P(c)) {
            self.i += 1;
            true
        } else {
            false
        }
    }
    fn int(&mut self) -> Result<u64, String> {
        match self.next()? {
            T::Int(n) => Ok(n),
            other => Err(format!("expected int, got {other:?}")),
        }
    }
    fn string(&mut self) -> Result<String, String> {
        match self.next()? {
            T::Str(s) => Ok(s),
            other => Err(format!("expected string, got {other:?}")),
        }
    }
    /// `'c'` or `char::from_u32(N).unwrap()`
    fn char_expr(&mut self) -> Result<char, String> {
        match self.next()? {
            T::Chr(c) => Ok(c),
            T::Ident(s) if s == "char" => {
                self.p(':')?;
                self.p(':')?;
                self.ident("from_u32")?;
                self.p('(')?;
                let n = self.int()?;
                self.p(')')?;
                self.p('.')?;
                self.ident("unwrap")?;
                self.p('(')?;
                self.p(')')?;
                char::from_u32(n as u32).ok_or_else(|| "bad char".to_string())
            }
            other => Err(format!("expected char expr, got {other:?}")),
        }
    }
    /// `"…"`, `r"…"` or `format!["…{}…", "…".repeat(N)]`
    fn string_expr(&mut self) -> Result<String, String> {
        match self.next()? {
            T::Str(s) => Ok(s),
            T::Ident(f) if f == "format" => {
                self.p('!')?;
                self.p('[')?;
                let fmt = self.string()?;
                self.p(',')?;
                let piece = self.string()?;
                self.p('.')?;
                self.ident("repeat")?;
                self.p('(')?;
                let n = self.int()?;
                self.p(')')?;
                self.p(']')?;
                Ok(fmt.replacen("{}", &piece.repeat(n as usize), 1))
            }
            other => Err(format!("expected string expr, got {other:?}")),
        }
    }
}

/// Parse every `lexer_tests![ .. ];` invocation in the given Rust source.
pub fn parse(src: &str) -> Result<Vec<Case>, String> {
    // only the part after the macro definition contains invocations
    let start = src
        .find("macro_rules! lexer_tests")
        .ok_or("macro_rules! lexer_tests not found")?;
    let rest = &src[start..];
    let mut cases = vec![];
    let mut from = 0;
    // skip the definition itself: invocations are `lexer_tests![`
    while let Some(off) = rest[from..].find("lexer_tests![") {
        let begin = from + off + "lexer_tests![".len();
        // find the end of the invocation: the tokenizer handles nesting; we cut at "\n    ];"
        let end = rest[begin..]
            .find("\n    ];")
            .ok_or("unterminated lexer_tests block")?
            + begin;
        let toks = tokenize(&rest[begin..end])?;
        let mut p = P { t: toks, i: 0 };
        p.ident("end_line_char")?;
        p.p('(')?;
        let elc = match p.next()? {
            T::Ident(s) if s == "None" => None,
            T::Ident(s) if s == "Some" => {
                p.p('(')?;
                let c = p.char_expr()?;
                p.p(')')?;
                Some(c)
            }
            other => return Err(format!("end_line_char: {other:?}")),
        };
        p.p(')')?;
        p.p(',')?;
        p.ident("cat_code_overrides")?;
        p.p('(')?;
        let mut overrides = vec![];
        while !p.eat_p(')') {
            p.p('(')?;
            let c = p.char_expr()?;
            p.p(',')?;
            let name = match p.next()? {
                T::Ident(s) => s,
                other => return Err(format!("catcode name: {other:?}")),
            };
            p.p(')')?;
            p.eat_p(',');
            overrides.push((c, cat_by_name(&name).ok_or(format!("unknown catcode {name}"))?));
        }
        p.p(',')?;
        while p.peek().is_some() {
            p.p('(')?;
            let name = match p.next()? {
                T::Ident(s) => s,
                other => return Err(format!("case name: {other:?}")),
            };
            p.p(',')?;
            let input = p.string_expr()?;
            p.p(',')?;
            let mut want = vec![];
            while !p.eat_p(')') {
                match p.next()? {
                    T::Ident(s) if s == "NewLine" => want.push(Want::NewLine),
                    T::Ident(s) if s == "ControlSequence" => {
                        p.p('(')?;
                        let n = p.string()?;
                        p.p(',')?;
                        let k = p.int()?;
                        p.p(')')?;
                        want.push(Want::Cs(n, k as u32));
                    }
                    T::Ident(s) if s == "Character" => {
                        p.p('(')?;
                        let c = p.char_expr()?;
                        p.p(',')?;
                        let cat = match p.next()? {
                            T::Ident(s) => cat_by_name(&s).ok_or(format!("unknown catcode {s}"))?,
                            other => return Err(format!("catcode: {other:?}")),
                        };
                        p.p(',')?;
                        let k = p.int()?;
                        p.p(')')?;
                        want.push(Want::Ch(c, cat, k as u32));
                    }
                    other => return Err(format!("case {name}: token expr {other:?}")),
                }
                p.eat_p(',');
            }
            p.eat_p(',');
            cases.push(Case {
                name,
                input,
                want,
                end_line_char: elc,
                overrides: overrides.clone(),
            });
        }
        from = end;
    }
    Ok(cases)
}
