//! Monitor for property C03 - lexing follows TeX's scanner; every token traces to its source
//! position; lexing never panics or exhausts its trace keys (DESIGN.md §6 C03).
//!
//! Observed events: the sequence of `lexer::Result`s of the real `texlang::token::lexer::Lexer`
//! under a harness `lexer::Config`, `Tracer::trace` of every token, and the tokens the real VM
//! hands to a harness primitive when category codes / `\endlinechar` are changed mid-file by the
//! real `\catcode` / `\endlinechar` primitives.
//! Oracle: `vmodels::lexer` (transcription of TeX §31, §343-§356, §360-§362) + panic oracle.

mod calib;
mod gen;
mod real;

use gen::Table;
use real::{RItem, RealRun};
use vcore::*;
use vmodels::lexer as model;
use vmodels::lexer::{Item, Quirks, Tok};

pub struct M;
pub static MONITOR: M = M;

pub const KNOWN_HEX: &str = "C03-caret-hex-notation-missing";
pub const KNOWN_CARETS: &str = "C03-carets-before-non-ascii-dropped";

// ------------------------------------------------------------------------------------------
// expectation = model run
// ------------------------------------------------------------------------------------------

#[derive(Debug, Clone, PartialEq)]
pub enum Expect {
    Tok {
        tok: Tok,
        line: usize,
        lo: usize,
        hi: usize,
        /// produced by the character appended as end-line character
        content: String,
    },
    Invalid {
        c: char,
        line: usize,
        lo: usize,
        hi: usize,
        content: String,
    },
    NewLine,
}

/// Run the model over a whole text under a fixed configuration.
fn model_run(
    src: &str,
    table: &Table,
    elc: Option<char>,
    report_eol: bool,
    quirks: Quirks,
) -> (Vec<Expect>, model::Stats) {
    let mut lx = model::Lexer::with_quirks(src, quirks);
    let cat = |c: char| table.get(c);
    let mut out = vec![];
    loop {
        match lx.next(&cat, elc) {
            Item::End => break,
            Item::NewLine => {
                if report_eol {
                    out.push(Expect::NewLine)
                }
            }
            Item::Token(tok, p) => out.push(Expect::Tok {
                tok,
                line: p.line,
                lo: p.col_lo,
                hi: p.col_hi,
                content: lx.line_text(p.line).to_string(),
            }),
            Item::Invalid(c, p) => out.push(Expect::Invalid {
                c,
                line: p.line,
                lo: p.col_lo,
                hi: p.col_hi,
                content: lx.line_text(p.line).to_string(),
            }),
        }
    }
    (out, lx.stats)
}

/// What differs between the observation and an expectation: `None` if nothing.
/// Returns (signature, position of the first difference).
pub fn diff(real: &[RItem], want: &[Expect]) -> Option<(String, usize)> {
    let n = real.len().min(want.len());
    for i in 0..n {
        match (&real[i], &want[i]) {
            (RItem::NewLine, Expect::NewLine) => {}
            (
                RItem::Tok { tok, trace },
                Expect::Tok {
                    tok: wtok,
                    line,
                    lo,
                    hi,
                    content,
                },
            ) => {
                if tok != wtok {
                    return Some(("token-sequence-differs-from-TeX".into(), i));
                }
                if trace.origin != "c03.tex" {
                    return Some(("trace-origin-wrong".into(), i));
                }
                if trace.line != *line {
                    return Some(("trace-line-number-wrong".into(), i));
                }
                if trace.index < *lo || trace.index > *hi {
                    return Some(("trace-column-wrong".into(), i));
                }
                if &trace.content != content {
                    return Some(("trace-line-content-wrong".into(), i));
                }
                if trace.value != wtok.text() {
                    return Some(("trace-value-wrong".into(), i));
                }
            }
            (
                RItem::Invalid { c, trace },
                Expect::Invalid {
                    c: wc,
                    line,
                    lo,
                    hi,
                    content,
                },
            ) => {
                if c != wc {
                    return Some(("invalid-character-differs-from-TeX".into(), i));
                }
                if trace.origin != "c03.tex" {
                    return Some(("trace-origin-wrong".into(), i));
                }
                if trace.line != *line {
                    return Some(("trace-line-number-wrong".into(), i));
                }
                if trace.index < *lo || trace.index > *hi {
                    return Some(("trace-column-wrong".into(), i));
                }
                if &trace.content != content {
                    return Some(("trace-line-content-wrong".into(), i));
                }
            }
            _ => return Some(("token-sequence-differs-from-TeX".into(), i)),
        }
    }
    if real.len() != want.len() {
        return Some((
            if real.len() < want.len() {
                "tokens-missing-at-end".into()
            } else {
                "extra-tokens-at-end".into()
            },
            n,
        ));
    }
    None
}

/// Which of the two listed deviations does this build of the repo exhibit on the canonical
/// reproducers? Only those may be used to explain a failing case: once a finding is repaired,
/// its deviation model explains nothing any more (some inputs are predicted identically by both
/// deviation models, e.g. `ééf8` with é a superscript character and f ignored).
fn live_quirks() -> Quirks {
    static LIVE: std::sync::OnceLock<Quirks> = std::sync::OnceLock::new();
    *LIVE.get_or_init(|| {
        let plain = Table::plain();
        let toks = |src: &str| -> Option<Vec<Tok>> {
            match real::run_standalone(src, &plain, None, false, false) {
                RealRun::Done(items) => Some(
                    items
                        .into_iter()
                        .filter_map(|i| match i {
                            RItem::Tok { tok, .. } => Some(tok),
                            _ => None,
                        })
                        .collect(),
                ),
                _ => None,
            }
        };
        Quirks {
            no_hex: toks("^^5e") == Some(vec![Tok::Char('u', 11), Tok::Char('e', 11)]),
            drop_carets_before_non_ascii: toks("^^é") == Some(vec![Tok::Char('é', 12)]),
        }
    })
}

fn quirk_sets() -> Vec<(Quirks, &'static [&'static str])> {
    let live = live_quirks();
    let all: [(Quirks, &'static [&'static str]); 3] = [
        (
            Quirks {
                no_hex: true,
                drop_carets_before_non_ascii: false,
            },
            &[KNOWN_HEX],
        ),
        (
            Quirks {
                no_hex: false,
                drop_carets_before_non_ascii: true,
            },
            &[KNOWN_CARETS],
        ),
        (
            Quirks {
                no_hex: true,
                drop_carets_before_non_ascii: true,
            },
            &[KNOWN_HEX, KNOWN_CARETS],
        ),
    ];
    all.into_iter()
        .filter(|(q, _)| (!q.no_hex || live.no_hex) && (!q.drop_carets_before_non_ascii || live.drop_carets_before_non_ascii))
        .collect()
}

/// Was every deviation rule that is switched on actually exercised in this model run?
fn quirks_exercised(q: Quirks, s: &model::Stats) -> bool {
    (!q.no_hex || s.hex_suppressed > 0) && (!q.drop_carets_before_non_ascii || s.carets_dropped > 0)
}

fn show_items(v: &[RItem]) -> Vec<String> {
    v.iter().map(|x| x.show()).collect()
}

fn show_expect(v: &[Expect]) -> Vec<String> {
    v.iter()
        .map(|e| match e {
            Expect::NewLine => "<newline>".to_string(),
            Expect::Tok {
                tok, line, lo, hi, ..
            } => format!("{}@{}:{}-{}", gen::show_tok(tok), line, lo, hi),
            Expect::Invalid { c, line, lo, hi, .. } => {
                format!("invalid({:?})@{}:{}-{}", c, line, lo, hi)
            }
        })
        .collect()
}

// ------------------------------------------------------------------------------------------
// standalone driver
// ------------------------------------------------------------------------------------------

struct Case<'a> {
    src: &'a str,
    table: &'a Table,
    elc: Option<char>,
    report_eol: bool,
    check_utf8: bool,
}

fn record_stats(obs: &mut Obs, prefix: &str, s: &model::Stats) {
    let mut add = |name: &str, v: u32| {
        if v > 0 {
            obs.add(&format!("{prefix}{name}"), v as u64)
        }
    };
    add("lines", s.lines);
    add("trimmed_spaces", s.trimmed_spaces);
    add("caret_reductions_main_loop", s.reductions_main);
    add("caret_reductions_in_cs_name", s.reductions_in_name);
    add("caret_hex_reductions", s.hex_reductions);
    add("caret_recursive_reductions", s.recursive_reductions);
    add("cs_names_with_2+_reductions", s.multi_reduction_names);
    add("carets_before_non_ascii", s.carets_before_non_ascii);
    add("carets_at_line_end_no_reduction", s.carets_at_line_end);
    add("par_tokens", s.par_tokens);
    add("eol_space_tokens", s.eol_spaces);
    add("eol_skipped_in_state_S", s.eol_skipped);
    add("spaces_skipped_state_N_or_S", s.spaces_skipped);
    add("comments", s.comments);
    add("ignored_chars", s.ignored);
    add("invalid_chars", s.invalid);
    add("null_cs", s.null_cs);
    add("multi_letter_cs", s.multi_letter_cs);
    add("single_char_cs", s.single_char_cs);
}

/// Counters about the trace oracle: how many traces were checked and of which class.
fn record_trace_classes(obs: &mut Obs, prefix: &str, want: &[Expect]) {
    let mut n = 0u64;
    let mut reduced = 0u64;
    let mut multibyte = 0u64;
    let mut later_lines = 0u64;
    let mut past_end = 0u64;
    for e in want {
        if let Expect::Tok {
            line, lo, hi, content, ..
        }
        | Expect::Invalid {
            line, lo, hi, content, ..
        } = e
        {
            n += 1;
            if hi > lo {
                reduced += 1;
            }
            if *line > 1 {
                later_lines += 1;
            }
            // column counted in characters differs from the byte offset
            if content.chars().take(*lo).any(|c| c.len_utf8() > 1) {
                multibyte += 1;
            }
            if *lo >= content.trim_end_matches(' ').chars().count() {
                past_end += 1;
            }
        }
    }
    obs.add(&format!("{prefix}traces_checked"), n);
    obs.add(&format!("{prefix}traces_of_caret_reduced_tokens"), reduced);
    obs.add(&format!("{prefix}traces_after_multibyte_char"), multibyte);
    obs.add(&format!("{prefix}traces_on_line_2+"), later_lines);
    obs.add(&format!("{prefix}traces_of_endlinechar_tokens"), past_end);
}

/// Run one (text, table, end-line char) through the real standalone lexer and the model.
/// Returns true if the case held (or was attributed to a known finding).
fn check_standalone(obs: &mut Obs, prefix: &str, case: &Case) -> bool {
    let (want, stats) = model_run(case.src, case.table, case.elc, case.report_eol, Quirks::default());
    let run = real::run_standalone(case.src, case.table, case.elc, case.report_eol, case.check_utf8);
    let detail = |extra: Value| {
        json!({
            "source": case.src,
            "source_escaped": format!("{:?}", case.src),
            "catcodes": case.table.describe(case.src, case.elc),
            "end_line_char": case.elc.map(|c| format!("{:?}", c)),
            "report_end_of_line": case.report_eol,
            "driver": "standalone Lexer::next + Tracer::trace",
            "extra": extra,
        })
    };
    obs.count(&format!("{prefix}cases"));
    let items = match run {
        RealRun::Panicked(p) => {
            obs.repo_panic(
                &p,
                detail(json!({"model_expected": show_expect(&want)})),
            );
            return false;
        }
        RealRun::Runaway(items) => {
            obs.violation(
                "lexer-does-not-reach-end-of-input",
                detail(json!({"observed_prefix": show_items(&items[..items.len().min(40)])})),
            );
            return false;
        }
        RealRun::BadUtf8(at, bytes) => {
            obs.violation(
                "current-line-not-valid-utf8-after-caret-reduction",
                detail(json!({"after_result_number": at, "lexer_state_bytes": bytes})),
            );
            return false;
        }
        RealRun::Done(items) => items,
    };
    record_stats(obs, prefix, &stats);
    obs.add(&format!("{prefix}results_compared"), want.len() as u64);
    match diff(&items, &want) {
        None => {
            record_trace_classes(obs, prefix, &want);
            if stats.hex_reductions > 0 {
                obs.count(&format!("{prefix}cases_with_hex_reduction_matching_TeX"));
            }
            if stats.carets_before_non_ascii > 0 {
                obs.count(&format!("{prefix}cases_with_carets_before_non_ascii_matching_TeX"));
            }
            true
        }
        Some((sig, at)) => {
            // known-finding attribution: trigger (the replaced rule was exercised) AND the
            // observation equals the deviation model's prediction, exactly.
            for (q, ids) in quirk_sets() {
                let (w2, s2) = model_run(case.src, case.table, case.elc, case.report_eol, q);
                if quirks_exercised(q, &s2) && diff(&items, &w2).is_none() {
                    record_trace_classes(obs, prefix, &w2);
                    for id in ids.iter() {
                        obs.known(
                            id,
                            detail(json!({
                                "observed": show_items(&items),
                                "TeX": show_expect(&want),
                                "first_difference_at": at,
                                "difference": sig,
                            })),
                        );
                    }
                    return true;
                }
            }
            obs.violation(
                sig,
                detail(json!({
                    "observed": show_items(&items),
                    "TeX": show_expect(&want),
                    "first_difference_at": at,
                })),
            );
            false
        }
    }
}

// ------------------------------------------------------------------------------------------
// VM driver (just-in-time lexing)
// ------------------------------------------------------------------------------------------

/// Interpret the model's token stream the way the harness VM does: `\V` starts recording,
/// `\Q<char>=<cat>\Y` / `\W=<n>\Y` change the lexing rules for what follows.
struct VmExpect {
    recorded: Vec<Expect>,
    /// the run ends with an invalid-character error for this character
    invalid: Option<Expect>,
    stats: model::Stats,
    catcode_changes: u32,
    endlinechar_changes: u32,
}

enum VmModelErr {
    /// the text itself produced one of the reserved control sequences (only possible through
    /// `^^` notation), or a command could not be parsed for that reason
    Reserved(String),
}

/// Number of `^^` reductions the model performed on this program up to the point where it
/// stopped being interpretable (reserved names can only be spelled through them).
fn reductions_until_failure(src: &str, initial: &Table) -> u32 {
    let mut n = 0;
    let _ = vm_model_inner(src, initial, Quirks::default(), &mut n);
    n
}

fn vm_model(src: &str, initial: &Table, quirks: Quirks) -> Result<VmExpect, VmModelErr> {
    let mut n = 0;
    vm_model_inner(src, initial, quirks, &mut n)
}

struct Interp {
    lx: model::Lexer,
    table: Table,
    elc: Option<char>,
    pending: Option<Item>,
}

impl Interp {
    /// next model item, line starts skipped (the VM lexes with report_end_of_line = false)
    fn next(&mut self) -> Item {
        if let Some(i) = self.pending.take() {
            return i;
        }
        loop {
            let t = &self.table;
            let it = self.lx.next(&|c| t.get(c), self.elc);
            if it != Item::NewLine {
                return it;
            }
        }
    }
    fn expect_of(&self, it: &Item) -> Expect {
        match it {
            Item::Token(tok, p) => Expect::Tok {
                tok: tok.clone(),
                line: p.line,
                lo: p.col_lo,
                hi: p.col_hi,
                content: self.lx.line_text(p.line).to_string(),
            },
            Item::Invalid(c, p) => Expect::Invalid {
                c: *c,
                line: p.line,
                lo: p.col_lo,
                hi: p.col_hi,
                content: self.lx.line_text(p.line).to_string(),
            },
            _ => Expect::NewLine,
        }
    }
    /// `[-]digits`, the terminating item is put back
    fn number(&mut self) -> Result<i64, VmModelErr> {
        let mut neg = false;
        let mut v: i64 = 0;
        let mut any = false;
        loop {
            let it = self.next();
            match &it {
                Item::Token(Tok::Char('-', 12), _) if !any && !neg => neg = true,
                Item::Token(Tok::Char(d, 12), _) if d.is_ascii_digit() && v < 10_000_000 => {
                    any = true;
                    v = v * 10 + (*d as i64 - '0' as i64);
                }
                _ => {
                    self.pending = Some(it);
                    break;
                }
            }
        }
        if !any {
            return Err(VmModelErr::Reserved("number expected".into()));
        }
        Ok(if neg { -v } else { v })
    }
}

fn vm_model_inner(
    src: &str,
    initial: &Table,
    quirks: Quirks,
    reductions: &mut u32,
) -> Result<VmExpect, VmModelErr> {
    let mut ip = Interp {
        lx: model::Lexer::with_quirks(src, quirks),
        table: initial.clone(),
        elc: Some('\r'),
        pending: None,
    };
    let mut out = VmExpect {
        recorded: vec![],
        invalid: None,
        stats: model::Stats::default(),
        catcode_changes: 0,
        endlinechar_changes: 0,
    };
    let mut recording = false;
    loop {
        let it = ip.next();
        *reductions = ip.lx.stats.reductions_main + ip.lx.stats.reductions_in_name;
        match &it {
            Item::End => break,
            Item::Invalid(..) => {
                out.invalid = Some(ip.expect_of(&it));
                break;
            }
            Item::NewLine => unreachable!(),
            Item::Token(Tok::Cs(name), _) if name == "Q" || name == "W" => {
                // `\V` puts these back and the VM executes them
                recording = false;
                let target: Option<char> = if name == "Q" {
                    let it = ip.next();
                    match &it {
                        Item::Token(Tok::Char('`', 12), _) => match ip.next() {
                            Item::Token(Tok::Cs(n), _) if n.chars().count() == 1 => n.chars().next(),
                            _ => return Err(VmModelErr::Reserved("`\\c expected".into())),
                        },
                        Item::Token(Tok::Char(d, 12), _) if d.is_ascii_digit() => {
                            ip.pending = Some(it.clone());
                            let v = ip.number()?;
                            Some(
                                char::from_u32(v as u32)
                                    .ok_or_else(|| VmModelErr::Reserved("bad char code".into()))?,
                            )
                        }
                        _ => return Err(VmModelErr::Reserved("char expected".into())),
                    }
                } else {
                    None
                };
                match ip.next() {
                    Item::Token(Tok::Char('=', 12), _) => {}
                    _ => return Err(VmModelErr::Reserved("= expected".into())),
                }
                let v = ip.number()?;
                match ip.next() {
                    Item::Token(Tok::Cs(n), _) if n == "Y" => {}
                    _ => return Err(VmModelErr::Reserved("\\Y expected".into())),
                }
                // the assignment takes effect now: after `\Y` was scanned, before anything else is
                if let Some(c) = target {
                    if !(0..=15).contains(&v) {
                        return Err(VmModelErr::Reserved("catcode out of range".into()));
                    }
                    ip.table.set(c, v as u8);
                    out.catcode_changes += 1;
                } else {
                    // texcraft's (and the property's) domain: none or an ASCII character
                    ip.elc = if (0..128).contains(&v) {
                        char::from_u32(v as u32)
                    } else {
                        None
                    };
                    out.endlinechar_changes += 1;
                }
            }
            Item::Token(tok, _) => {
                if recording {
                    out.recorded.push(ip.expect_of(&it));
                } else {
                    match tok {
                        Tok::Cs(n) if n == "V" => recording = true,
                        Tok::Cs(n) if n == "Y" => {}
                        _ => {
                            return Err(VmModelErr::Reserved(format!(
                                "token {} would be executed by the VM",
                                gen::show_tok(tok)
                            )))
                        }
                    }
                }
            }
        }
    }
    out.stats = ip.lx.stats;
    Ok(out)
}

fn check_vm(obs: &mut Obs, prefix: &str, src: &str) -> bool {
    obs.count(&format!("{prefix}cases"));
    let run = real::run_vm(src);
    let initial = match &run {
        Ok(r) => r.initial_table.clone(),
        Err(_) => Table::plain(),
    };
    let want = match vm_model(src, &initial, Quirks::default()) {
        Ok(w) => w,
        Err(VmModelErr::Reserved(why)) => {
            // outside what the generator means to produce; only reachable through ^^xy
            // spelling one of the reserved names
            if reductions_until_failure(src, &initial) > 0 {
                obs.skip("vm-text-spells-a-reserved-command-through-caret-notation");
            } else {
                obs.inconclusive(format!("vm program not interpretable by the harness: {why}; source {:?}", src));
            }
            return true;
        }
    };
    let detail = |extra: Value| {
        json!({
            "source": src,
            "source_escaped": format!("{:?}", src),
            "driver": "VM (vstate): \\Q=\\catcode \\W=\\endlinechar \\Y=\\relax \\V=record unexpanded tokens until \\Q/\\W/end",
            "extra": extra,
        })
    };
    let r = match run {
        Err(p) => {
            obs.repo_panic(&p, detail(json!({"model_expected": show_expect(&want.recorded)})));
            return false;
        }
        Ok(r) => r,
    };
    record_stats(obs, prefix, &want.stats);
    obs.add(&format!("{prefix}catcode_changes_mid_file"), want.catcode_changes as u64);
    obs.add(&format!("{prefix}endlinechar_changes_mid_file"), want.endlinechar_changes as u64);
    obs.add(&format!("{prefix}results_compared"), want.recorded.len() as u64);

    let judge = |w: &VmExpect| -> Option<(String, usize)> {
        if let Some(d) = diff(&r.recorded, &w.recorded) {
            return Some(d);
        }
        match (&w.invalid, &r.error) {
            (None, None) => None,
            (Some(e), Some(err)) => {
                let one = match &err.invalid {
                    Some(i) => vec![i.clone()],
                    None => return Some(("error-is-not-the-invalid-character-error".into(), 0)),
                };
                diff(&one, std::slice::from_ref(e)).map(|(s, _)| (format!("invalid-character-error-{s}"), w.recorded.len()))
            }
            (None, Some(_)) => Some(("unexpected-error".into(), w.recorded.len())),
            (Some(_), None) => Some(("invalid-character-not-reported".into(), w.recorded.len())),
        }
    };
    match judge(&want) {
        None => {
            record_trace_classes(obs, prefix, &want.recorded);
            // did the mid-file changes matter? compare with lexing under the initial rules
            if want.catcode_changes + want.endlinechar_changes > 0 {
                let (stat, _) = model::lex_all(src, &|c| initial.get(c), Some('\r'), Quirks::default());
                let n_static = stat.iter().filter(|i| matches!(i, Item::Token(..))).count();
                let (dynamic, _) = (want.recorded.len(), 0);
                if n_static != dynamic {
                    obs.count(&format!("{prefix}cases_where_mid_file_change_altered_token_count"));
                }
            }
            if want.invalid.is_some() {
                obs.count(&format!("{prefix}invalid_character_errors_matched"));
            }
            true
        }
        Some((sig, at)) => {
            for (q, ids) in quirk_sets() {
                if let Ok(w2) = vm_model(src, &initial, q) {
                    if quirks_exercised(q, &w2.stats) && judge(&w2).is_none() {
                        for id in ids.iter() {
                            obs.known(
                                id,
                                detail(json!({
                                    "observed": show_items(&r.recorded),
                                    "TeX": show_expect(&want.recorded),
                                    "first_difference_at": at,
                                    "difference": sig,
                                })),
                            );
                        }
                        return true;
                    }
                }
            }
            obs.violation(
                format!("vm-{sig}"),
                detail(json!({
                    "observed": show_items(&r.recorded),
                    "observed_error": r.error.as_ref().map(|e| e.title.clone()),
                    "TeX": show_expect(&want.recorded),
                    "TeX_invalid": want.invalid.as_ref().map(|e| show_expect(std::slice::from_ref(e))),
                    "first_difference_at": at,
                })),
            );
            false
        }
    }
}

// ------------------------------------------------------------------------------------------
// the monitor
// ------------------------------------------------------------------------------------------

/// Fixed reproducers, one group per finding (phase "known"), plus neighbours that must hold.
const KNOWN_CASES: &[(&str, &str)] = &[
    ("hex", "^^5e"),
    ("hex", "^^5e^5ea"),
    ("hex", "\\^^5e^5ea b"),
    ("hex", "\\a^^62c d"),
    ("hex", "x^^7bq"),
    ("carets", "^^é"),
    ("carets", "\\^^é"),
    ("carets", "\\a^^éb c"),
    ("carets", "a^^😀"),
    ("neighbour", "^^M b"),
    ("neighbour", "^^5 x"),
    ("neighbour", "^^5"),
];

/// Entry point of the libFuzzer target `c03_lexer_source` (harness/vfuzz). Byte 0 selects the category-code table
/// (the six tables of the exhaustive phase) and whether the text goes to the standalone lexer (differential against
/// the model of TeX's lexer, token by token with traces) or - high bit set - to the VM oracle (category codes and
/// \endlinechar changed mid-file); byte 1 selects the end-of-line character and the EOL-reporting flag.
pub fn fuzz_one(data: &[u8], obs: &mut Obs) {
    if data.len() < 2 {
        return;
    }
    let Ok(src) = std::str::from_utf8(&data[2..]) else {
        return;
    };
    if data[0] & 0x80 != 0 {
        check_vm(obs, "fuzz-vm:", src);
        return;
    }
    let table = gen::exh_table((data[0] % 6) as usize);
    let elc = match data[1] % 5 {
        0 => Some('\r'),
        1 => None,
        2 => Some('e'),
        3 => Some(' '),
        _ => Some('é'),
    };
    let case = Case {
        src,
        table: &table,
        elc,
        report_eol: data[1] & 0x40 != 0,
        check_utf8: true,
    };
    check_standalone(obs, "fuzz:", &case);
}

/// Seed corpus for the libFuzzer target: generated standalone cases under each of the six tables and generated VM programs.
pub fn fuzz_seeds() -> vcore::fuzzglue::Seeds {
    let mut inputs: Vec<Vec<u8>> = vec![];
    for k in 0..400u64 {
        let mut rng = Rng::new(0xC03 + k);
        let c = gen::random_case(&mut rng);
        let mut v = vec![(k % 6) as u8, (k % 5) as u8 | if c.report_eol { 0x40 } else { 0 }];
        v.extend_from_slice(c.src.as_bytes());
        inputs.push(v);
    }
    for k in 0..200u64 {
        let mut rng = Rng::new(0x3C0 + k);
        let p = gen::random_vm_program(&mut rng);
        let mut v = vec![0x80u8, 0];
        v.extend_from_slice(p.as_bytes());
        if v.len() <= 2048 {
            inputs.push(v);
        }
    }
    let dictionary = ["^^", "^^M", "^^@", "^^?", "^^5c", "^^7b", "\\catcode`", "\\endlinechar=", "\\par", "%", "\r\n", "é", "☃", "\\slurp"]
        .iter()
        .map(|s| s.to_string())
        .collect();
    vcore::fuzzglue::Seeds { inputs, dictionary }
}

fn exh_max_len(tier: Tier) -> u32 {
    match tier {
        Tier::Quick => 5,
        Tier::Thorough => 7,
    }
}

fn exh_count(max_len: u32) -> u64 {
    (0..=max_len).map(|l| 7u64.pow(l)).sum()
}

impl Monitor for M {
    fn id(&self) -> &'static str {
        "C03"
    }

    fn rule(&self) -> String {
        "A case = (source text, category-code table, end-line character[, report_end_of_line]) for the standalone \
         driver, or a whole file with embedded \\catcode/\\endlinechar changes for the VM driver. Phase exh: every \
         string of length <= 5 (quick) / 7 (thorough) over {\\ ^ space newline 5 e é} x 6 fixed tables x 5 end-line \
         characters, each a distinct case by construction. Phases random/vm: distinct by hash of the whole case; \
         a case is non-trivial if the model lexes at least one token from it. \
         Every case is lexed by the real code and by the model; token sequences, every token's trace \
         (line, column, line text, value) and the absence of panics are compared."
            .into()
    }

    fn assumptions(&self) -> Vec<String> {
        vec![
            "The reference is a transcription of tex.web §31, §343-§356, §360-§362: only the space character (32) is trimmed from line ends (web2c also strips CR/tab: not modelled), a line ends at \\n only (\\r is an ordinary character).".into(),
            "The empty source has no lines (tex.web would still process one empty first line; the repo's unit test `empty_1` pins 'no tokens').".into(),
            "^^xy with value >= 0x80 denotes the Unicode scalar U+00xy (the only reading available to a Unicode engine).".into(),
            "^^c with a non-ASCII c is not a reduction (tex.web: c<@'200); the two superscript characters stay tokens.".into(),
            "Trace leniency (DESIGN G): the column of a token whose first character came out of a ^^ reduction may be any column of the ^^.. source span; a token produced by the appended end-line character sits at the first trimmed column.".into(),
            "\\endlinechar is exercised in {-1} and 0..127 (the property's and texcraft's domain; tex.web allows up to 255).".into(),
            "VM driver: the characters \\ Q W Y V ` = - 0-9 keep their plain category codes (the embedded commands are written with them); everything else may change.".into(),
            "Default category-code tables (INITEX_DEFAULTS/PLAIN_TEX_DEFAULTS) are configuration, not part of the property: the VM driver reads the initial table from the VM's state.".into(),
        ]
    }

    fn phases(&self, tier: Tier) -> Vec<Phase> {
        vec![
            Phase::new("known", KNOWN_CASES.len() as u64).batch(1).exhaustive("fixed reproducers of the known findings and their neighbours"),
            Phase::new("exh", exh_count(exh_max_len(tier)))
                .batch(tier.pick(128, 2048))
                .exhaustive(match tier {
                    Tier::Quick => "all strings of length <= 5 over {\\,^,space,newline,5,e,é} x 6 catcode tables x end-line char in {CR,none,e,^,space}",
                    Tier::Thorough => "all strings of length <= 7 over {\\,^,space,newline,5,e,é} x 6 catcode tables x end-line char in {CR,none,e,^,space}",
                }),
            Phase::new("random", tier.pick(2_000_000, 50_000_000)).batch(tier.pick(1024, 8192)),
            Phase::new("vm", tier.pick(120_000, 3_000_000)).batch(tier.pick(128, 1024)),
        ]
    }

    fn floors(&self, tier: Tier) -> Vec<(&'static str, u64)> {
        // floors are roughly a third of what seed 0 observes
        let r = |q: u64, t: u64| tier.pick(q, t);
        let mut v = vec![
            ("known:cases", 24),
            ("known-vm:cases", 12),
            ("exh:cases", r(588_240, 28_824_000)),
            ("exh:traces_checked", r(1_500_000, 70_000_000)),
            ("exh:caret_reductions_main_loop", r(9_000, 400_000)),
            ("exh:caret_reductions_in_cs_name", r(1_300, 60_000)),
            ("exh:carets_at_line_end_no_reduction", r(6_000, 300_000)),
            ("exh:par_tokens", r(15_000, 700_000)),
            ("exh:null_cs", r(8_000, 400_000)),
            ("exh:invalid_chars", r(16_000, 800_000)),
            ("exh:ignored_chars", r(30_000, 1_500_000)),
            ("exh:comments", r(23_000, 1_000_000)),
            ("exh:trimmed_spaces", r(50_000, 2_000_000)),
            ("exh:traces_of_endlinechar_tokens", r(150_000, 7_000_000)),
            ("exh:traces_after_multibyte_char", r(150_000, 7_000_000)),
            ("random:cases", r(2_000_000, 50_000_000)),
            ("random:traces_checked", r(4_000_000, 100_000_000)),
            ("random:traces_of_caret_reduced_tokens", r(533_333, 13_000_000)),
            ("random:traces_after_multibyte_char", r(666_666, 17_000_000)),
            ("random:traces_on_line_2+", r(1_333_333, 33_000_000)),
            ("random:traces_of_endlinechar_tokens", r(666_666, 16_000_000)),
            ("random:caret_reductions_main_loop", r(600_000, 15_000_000)),
            ("random:caret_reductions_in_cs_name", r(166_666, 4_000_000)),
            ("random:caret_recursive_reductions", r(53_333, 1_300_000)),
            ("random:cs_names_with_2+_reductions", r(12_000, 300_000)),
            ("random:carets_at_line_end_no_reduction", r(6_666, 160_000)),
            ("random:trimmed_spaces", r(1_066_666, 27_000_000)),
            ("random:par_tokens", r(86_666, 2_000_000)),
            ("random:eol_space_tokens", r(186_666, 4_500_000)),
            ("random:eol_skipped_in_state_S", r(36_666, 900_000)),
            ("random:comments", r(80_000, 2_000_000)),
            ("random:ignored_chars", r(93_333, 2_300_000)),
            ("random:invalid_chars", r(66_666, 1_600_000)),
            ("random:null_cs", r(17_333, 400_000)),
            ("random:no_final_newline", r(300_000, 7_500_000)),
            ("random:endlinechar=none", r(100_000, 2_500_000)),
            ("random:endlinechar=superscript-char", r(93_333, 2_300_000)),
            ("random:endlinechar=letter", r(106_666, 2_700_000)),
            ("random:utf8_validity_checks", r(300_000, 7_500_000)),
            ("vm:cases", r(120_000, 3_000_000)),
            ("vm:catcode_changes_mid_file", r(120_000, 3_000_000)),
            ("vm:endlinechar_changes_mid_file", r(24_000, 600_000)),
            ("vm:cases_where_mid_file_change_altered_token_count", r(19_000, 470_000)),
            ("vm:traces_checked", r(330_000, 8_000_000)),
            ("vm:traces_of_caret_reduced_tokens", r(11_000, 280_000)),
            ("vm:caret_reductions_in_cs_name", r(12_000, 300_000)),
            ("vm:invalid_character_errors_matched", r(700, 18_000)),
        ];
        // the Miri stage (stages/C03.sh) is run by ./check, which then sets VERIF_STAGE_DIR
        if std::env::var("VERIF_STAGE_DIR").map(|d| !d.is_empty()).unwrap_or(false) {
            v.push(("miri-stacked:strings", r(240, 3200)));
            v.push(("miri-tree:strings", r(240, 3200)));
            v.push(("miri-stacked:caret_pairs_in_sources", r(450, 6000)));
            v.push(("miri-tree:caret_pairs_in_sources", r(450, 6000)));
            v.push(("miri-stacked:utf8_validity_checks", r(900, 12000)));
            v.push(("miri-tree:utf8_validity_checks", r(900, 12000)));
        }
        v
    }

    fn calibrate(&self, obs: &mut Obs) {
        // (1) the model against the repository's own lexer test tables
        let path = vcore::repo_dir().join("crates/texlang/src/token/lexer.rs");
        let text = match std::fs::read_to_string(&path) {
            Ok(t) => t,
            Err(e) => {
                obs.inconclusive(format!("cannot read {}: {e}", path.display()));
                return;
            }
        };
        let cases = match calib::parse(&text) {
            Ok(c) => c,
            Err(e) => {
                obs.inconclusive(format!("cannot parse the lexer unit-test tables: {e}"));
                return;
            }
        };
        for case in &cases {
            let mut table = Table::plain();
            for (c, k) in &case.overrides {
                table.set(*c, *k);
            }
            let (got, _) = model_run(&case.input, &table, case.end_line_char, true, Quirks::default());
            // global character offset of the start of every line
            let mut starts = vec![0usize];
            for l in model::split_lines(&case.input) {
                let last = *starts.last().unwrap();
                starts.push(last + l.chars().count() + 1);
            }
            let mut ok = got.len() == case.want.len();
            if ok {
                for (g, w) in got.iter().zip(case.want.iter()) {
                    ok &= match (g, w) {
                        (Expect::NewLine, calib::Want::NewLine) => true,
                        (
                            Expect::Tok {
                                tok: Tok::Cs(n), line, lo, hi, ..
                            },
                            calib::Want::Cs(wn, key),
                        ) => {
                            let k = *key as usize;
                            n == wn && starts[line - 1] + lo <= k && k <= starts[line - 1] + hi
                        }
                        (
                            Expect::Tok {
                                tok: Tok::Char(c, cat),
                                line,
                                lo,
                                hi,
                                ..
                            },
                            calib::Want::Ch(wc, wcat, key),
                        ) => {
                            let k = *key as usize;
                            c == wc && cat == wcat && starts[line - 1] + lo <= k && k <= starts[line - 1] + hi
                        }
                        _ => false,
                    };
                }
            }
            if ok {
                obs.count("model_agrees_with_repo_lexer_test_case");
            } else {
                obs.violation(
                    format!("model-disagrees-with-lexer-unit-test:{}", case.name),
                    json!({"input": case.input, "model": show_expect(&got), "want": format!("{:?}", case.want)}),
                );
            }
        }
        if cases.len() < 70 {
            obs.inconclusive(format!(
                "only {} lexer unit-test cases found for calibration (expected >= 70; the file has 76)",
                cases.len()
            ));
        }
        // (2) model constants: TeXbook p. 343 table vs the model's plain table for the characters
        // the unit tests rely on
        for (c, k) in [
            ('\\', 0u8),
            ('{', 1),
            ('}', 2),
            ('$', 3),
            ('&', 4),
            ('\r', 5),
            ('#', 6),
            ('^', 7),
            ('_', 8),
            ('\0', 9),
            (' ', 10),
            ('a', 11),
            ('Z', 11),
            ('1', 12),
            ('~', 13),
            ('%', 14),
            ('\u{7f}', 15),
        ] {
            if model::plain_cat(c) != k {
                obs.inconclusive(format!("model plain table wrong for {:?}", c));
            }
        }
    }

    fn run_case(&self, phase: &str, idx: u64, rng: &mut Rng, obs: &mut Obs) {
        match phase {
            "known" => {
                let (group, src) = KNOWN_CASES[idx as usize];
                let table = Table::plain();
                for elc in [Some('\r'), None] {
                    check_standalone(
                        obs,
                        "known:",
                        &Case {
                            src,
                            table: &table,
                            elc,
                            report_eol: true,
                            check_utf8: true,
                        },
                    );
                }
                let vm_src = format!("\\V={src}\n\\Q`\\e=12\\Y\\V={src}\n");
                check_vm(obs, "known-vm:", &vm_src);
                obs.nontrivial(&("known", group, src));
            }
            "exh" => {
                let s = gen::exh_string(idx, exh_max_len(obs.tier));
                let mut n = 0;
                for t in 0..gen::EXH_TABLES {
                    let table = gen::exh_table(t);
                    for elc in gen::EXH_ELC {
                        check_standalone(
                            obs,
                            "exh:",
                            &Case {
                                src: &s,
                                table: &table,
                                elc: *elc,
                                report_eol: true,
                                check_utf8: false,
                            },
                        );
                        n += 1;
                    }
                }
                obs.nontrivial_by_construction(n);
                if idx % 997 == 996 && obs.wants_sample() {
                    let table = gen::exh_table(0);
                    let (want, _) = model_run(&s, &table, Some('\r'), true, Quirks::default());
                    obs.sample(json!({"source": s, "table": "plain", "end_line_char": "CR", "tokens": show_expect(&want)}));
                }
            }
            "random" => {
                let g = gen::random_case(rng);
                let check_utf8 = g.src.contains(|c: char| !c.is_ascii()) || rng.chance(1, 8);
                if check_utf8 {
                    obs.count("random:utf8_validity_checks");
                }
                let ok = check_standalone(
                    obs,
                    "random:",
                    &Case {
                        src: &g.src,
                        table: &g.table,
                        elc: g.elc,
                        report_eol: g.report_eol,
                        check_utf8,
                    },
                );
                let (want, _) = model_run(&g.src, &g.table, g.elc, g.report_eol, Quirks::default());
                if want.iter().any(|e| !matches!(e, Expect::NewLine)) {
                    obs.nontrivial(&(&g.src, g.table.signature(&g.src, g.elc), g.elc, g.report_eol));
                }
                match g.elc {
                    None => obs.count("random:endlinechar=none"),
                    Some('\r') => obs.count("random:endlinechar=CR"),
                    Some(c) if g.table.get(c) == model::SUPERSCRIPT => obs.count("random:endlinechar=superscript-char"),
                    Some(c) if g.table.get(c) == model::LETTER => obs.count("random:endlinechar=letter"),
                    Some(' ') => obs.count("random:endlinechar=space"),
                    Some(_) => obs.count("random:endlinechar=other-ascii"),
                }
                if !g.src.is_empty() && !g.src.ends_with('\n') {
                    obs.count("random:no_final_newline");
                }
                if ok && obs.wants_sample() && want.len() > 3 {
                    obs.sample(json!({
                        "source": g.src, "catcodes": g.table.describe(&g.src, g.elc),
                        "end_line_char": g.elc.map(|c| format!("{:?}", c)),
                        "tokens_with_trace(line:col_lo-col_hi)": show_expect(&want),
                    }));
                }
            }
            "vm" => {
                let src = gen::random_vm_program(rng);
                let ok = check_vm(obs, "vm:", &src);
                obs.nontrivial(&src);
                if ok && obs.wants_sample() {
                    if let Ok(r) = real::run_vm(&src) {
                        if let Ok(w) = vm_model(&src, &r.initial_table, Quirks::default()) {
                            obs.sample(json!({
                                "source": src,
                                "tokens_handed_to_\\V(line:col_lo-col_hi)": show_expect(&w.recorded),
                                "catcode_changes": w.catcode_changes, "endlinechar_changes": w.endlinechar_changes,
                            }));
                        }
                    }
                }
            }
            other => obs.inconclusive(format!("unknown phase {other}")),
        }
    }

    fn stack_bytes(&self) -> usize {
        256 << 20
    }
}
