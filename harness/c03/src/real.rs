//! Drivers of the real code: the standalone `Lexer` + `Tracer`, and the lexer inside a VM.

use crate::gen::Table;
use std::cell::RefCell;
use vcore::PanicInfo;
use vmodels::lexer::Tok;
use vstate::texlang::command;
use vstate::texlang::prelude as txl;
use vstate::texlang::token::lexer;
use vstate::texlang::token::trace;
use vstate::texlang::token::{CommandRef, CsNameInterner, Token, Value};
use vstate::texlang::traits::*;
use vstate::texlang::types::CatCode;
use vstate::texlang::vm;
use vstate::VState;

#[derive(Debug, Clone, PartialEq)]
pub struct Trace {
    /// file name of the origin ("<terminal>" for Origin::Terminal)
    pub origin: String,
    pub line: usize,
    pub index: usize,
    pub content: String,
    pub value: String,
}

#[derive(Debug, Clone, PartialEq)]
pub enum RItem {
    Tok { tok: Tok, trace: Trace },
    Invalid { c: char, trace: Trace },
    NewLine,
}

impl RItem {
    pub fn show(&self) -> String {
        match self {
            RItem::NewLine => "<newline>".into(),
            RItem::Tok { tok, trace } => {
                format!("{}@{}:{}", crate::gen::show_tok(tok), trace.line, trace.index)
            }
            RItem::Invalid { c, trace } => format!("invalid({:?})@{}:{}", c, trace.line, trace.index),
        }
    }
}

pub enum RealRun {
    Done(Vec<RItem>),
    Panicked(PanicInfo),
    /// `Lexer::next` kept returning results long after the text must have been exhausted
    Runaway(Vec<RItem>),
    /// the lexer's serialised state (source + current line) was not valid UTF-8 after result #n
    BadUtf8(usize, String),
}

struct Cfg<'a> {
    table: &'a Table,
    elc: Option<char>,
}

impl lexer::Config for Cfg<'_> {
    fn cat_code(&self, c: char) -> CatCode {
        CatCode::try_from(self.table.get(c)).unwrap_or(CatCode::Other)
    }
    fn end_line_char(&self) -> Option<char> {
        self.elc
    }
}

fn to_tok(token: Token, interner: &CsNameInterner) -> Tok {
    match token.value() {
        Value::CommandRef(CommandRef::ControlSequence(name)) => {
            Tok::Cs(interner.resolve(name).unwrap_or("?unresolved?").to_string())
        }
        Value::CommandRef(CommandRef::ActiveCharacter(c)) => Tok::Char(c, 13),
        v => {
            let (c, cat) = v.char_and_cat_code().expect("character token");
            Tok::Char(c, cat as u8)
        }
    }
}

fn to_trace(t: trace::SourceCodeTrace) -> Trace {
    Trace {
        origin: match &t.origin {
            trace::Origin::File(p) => p
                .file_name()
                .map(|f| f.to_string_lossy().into_owned())
                .unwrap_or_default(),
            trace::Origin::Terminal => "<terminal>".into(),
        },
        line: t.line_number,
        index: t.index,
        content: t.line_content,
        value: t.value,
    }
}

pub fn run_standalone(
    src: &str,
    table: &Table,
    elc: Option<char>,
    report_eol: bool,
    check_utf8: bool,
) -> RealRun {
    let mut items: Vec<RItem> = vec![];
    let mut runaway = false;
    let mut bad_utf8: Option<(usize, String)> = None;
    let r = vcore::catch(|| {
        let mut tracer: trace::Tracer = Default::default();
        let mut interner: CsNameInterner = Default::default();
        // decoy sources before and after: the tracer must find the right checkpoint
        let decoy: String = src.chars().rev().chain("x\ny".chars()).collect();
        let _ = tracer.register_source_code(None, trace::Origin::File("decoy-before.tex".into()), &decoy);
        let range = tracer.register_source_code(None, trace::Origin::File("c03.tex".into()), src);
        let _ = tracer.register_source_code(None, trace::Origin::Terminal, &decoy);
        let mut lx = lexer::Lexer::new(src.to_string(), range);
        let cfg = Cfg { table, elc };
        // every result consumes at least one character or starts a line
        let bound = 3 * src.chars().count() + 16;
        loop {
            let res = lx.next(&cfg, &mut interner, report_eol);
            match res {
                lexer::Result::EndOfInput => break,
                lexer::Result::EndOfLine => items.push(RItem::NewLine),
                lexer::Result::Token(t) => {
                    let tr = tracer.trace(t, &interner);
                    items.push(RItem::Tok {
                        tok: to_tok(t, &interner),
                        trace: to_trace(tr),
                    });
                }
                lexer::Result::InvalidCharacter(c, key) => {
                    // the way InvalidCharacterError::new obtains its trace
                    let tr = tracer.trace(Token::new_letter(c, key), &interner);
                    items.push(RItem::Invalid {
                        c,
                        trace: to_trace(tr),
                    });
                }
            }
            if check_utf8 {
                match serde_json::to_vec(&lx) {
                    Ok(bytes) => {
                        if std::str::from_utf8(&bytes).is_err() {
                            bad_utf8 = Some((items.len(), String::from_utf8_lossy(&bytes).into_owned()));
                            break;
                        }
                    }
                    Err(e) => panic!("harness: cannot serialise the lexer: {e}"),
                }
            }
            if items.len() > bound {
                runaway = true;
                break;
            }
        }
    });
    match r {
        Err(p) => RealRun::Panicked(p),
        Ok(()) => {
            if let Some((n, s)) = bad_utf8 {
                RealRun::BadUtf8(n, s)
            } else if runaway {
                RealRun::Runaway(items)
            } else {
                RealRun::Done(items)
            }
        }
    }
}

// ------------------------------------------------------------------------------------------
// VM
// ------------------------------------------------------------------------------------------

thread_local! {
    static REC: RefCell<Vec<RItem>> = const { RefCell::new(Vec::new()) };
}

/// `\V`: hand every following token, unexpanded, to the monitor - until `\Q`, `\W` or the end of
/// the input. `\Q`/`\W` are put back so that the VM executes them.
fn slurp(_: Token, input: &mut vm::ExecutionInput<VState>) -> txl::Result<()> {
    loop {
        let tok = match input.unexpanded().next()? {
            None => return Ok(()),
            Some(t) => t,
        };
        if let Value::CommandRef(CommandRef::ControlSequence(n)) = tok.value() {
            let stop = matches!(input.vm().cs_name_interner().resolve(n), Some("Q") | Some("W"));
            if stop {
                input.unexpanded().back(tok);
                return Ok(());
            }
        }
        let tr = input.vm().trace(tok);
        let t = to_tok(tok, input.vm().cs_name_interner());
        REC.with(|r| {
            r.borrow_mut().push(RItem::Tok {
                tok: t,
                trace: to_trace(tr),
            })
        });
    }
}

pub struct VmError {
    pub title: String,
    /// set if the error carries a source trace of an invalid character
    pub invalid: Option<RItem>,
}

pub struct VmRun {
    pub recorded: Vec<RItem>,
    pub error: Option<VmError>,
    pub initial_table: Table,
}

pub fn run_vm(src: &str) -> Result<VmRun, PanicInfo> {
    REC.with(|r| r.borrow_mut().clear());
    let r = vcore::catch(|| {
        let mut built = vstate::built_ins();
        built.insert("Q", vstate::texlang_stdlib::codes::get_catcode());
        built.insert("W", vstate::texlang_stdlib::endlinechar::get_endlinechar());
        built.insert("Y", vstate::texlang_stdlib::expansion::get_relax());
        built.insert("V", command::BuiltIn::new_execution(slurp));
        let mut vm = Box::new(vm::VM::<VState>::new_with_built_in_commands(built));
        vstate::texlang_font::FontComponent::initialize(&mut vm);
        vstate::attach(&mut vm, &vstate::VmOptions::default());
        // the initial configuration is read from the state under test
        let mut initial = Table::all(12);
        for u in 0..128u32 {
            let c = char::from_u32(u).unwrap();
            initial.set(c, vm.state.cat_code(c) as u8);
        }
        for c in crate::gen::NON_ASCII {
            initial.set(*c, vm.state.cat_code(*c) as u8);
        }
        let error = if vm.push_source("c03.tex".to_string(), src.to_string()).is_err() {
            Some(VmError {
                title: "push_source failed".into(),
                invalid: None,
            })
        } else {
            match vm.run::<vstate::VHandlers>() {
                Ok(()) => None,
                Err(e) => {
                    let title = format!("{} || {}", e.error.title(), format!("{e}").replace('\n', " | "));
                    let invalid = if e.error.title().starts_with("input contains a character") {
                        e.error.source_code_trace_override().map(|t| RItem::Invalid {
                            c: t.value.chars().next().unwrap_or('\u{fffd}'),
                            trace: to_trace(t.clone()),
                        })
                    } else {
                        None
                    };
                    Some(VmError { title, invalid })
                }
            }
        };
        (error, initial)
    });
    let recorded = REC.with(|r| std::mem::take(&mut *r.borrow_mut()));
    match r {
        Err(p) => Err(p),
        Ok((error, initial_table)) => Ok(VmRun {
            recorded,
            error,
            initial_table,
        }),
    }
}
