fn main() {
    vcore::run_main(&c03::MONITOR)
}
