#![no_main]
// Coverage-guided inputs for C06, decided by the monitor's own oracle (c06::fuzz_one); see vcore::fuzzglue.
use libfuzzer_sys::fuzz_target;

fuzz_target!(|data: &[u8]| {
    vcore::fuzzglue::one("C06", data, c06::fuzz_one, c06::fuzz_seeds);
});
