#![no_main]
// Coverage-guided inputs for C13, decided by the monitor's own oracle (c13::fuzz_one); see vcore::fuzzglue.
use libfuzzer_sys::fuzz_target;

fuzz_target!(|data: &[u8]| {
    vcore::fuzzglue::one("C13", data, c13::fuzz_one, c13::fuzz_seeds);
});
