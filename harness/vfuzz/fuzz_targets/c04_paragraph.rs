#![no_main]
// Coverage-guided inputs for C04, decided by the monitor's own oracle (c04::fuzz_one); see vcore::fuzzglue.
use libfuzzer_sys::fuzz_target;

fuzz_target!(|data: &[u8]| {
    vcore::fuzzglue::one("C04", data, c04::fuzz_one, c04::fuzz_seeds);
});
