#![no_main]
// Coverage-guided inputs for C05, decided by the monitor's own oracle (c05::fuzz_one); see vcore::fuzzglue.
use libfuzzer_sys::fuzz_target;

fuzz_target!(|data: &[u8]| {
    vcore::fuzzglue::one("C05", data, c05::fuzz_one, c05::fuzz_seeds);
});
