#![no_main]
// Coverage-guided inputs for C17, decided by the monitor's own oracles (c17::fuzz_one); see vcore::fuzzglue.
use libfuzzer_sys::fuzz_target;

fuzz_target!(|data: &[u8]| {
    vcore::fuzzglue::one("C17", data, c17::fuzz_one, c17::fuzz_seeds);
});
