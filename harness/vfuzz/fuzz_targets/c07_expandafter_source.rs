#![no_main]
// Coverage-guided inputs for C07, decided by the monitor's own oracle (c07::fuzz_one); see vcore::fuzzglue.
use libfuzzer_sys::fuzz_target;

fuzz_target!(|data: &[u8]| {
    vcore::fuzzglue::one("C07", data, c07::fuzz_one, c07::fuzz_seeds);
});
