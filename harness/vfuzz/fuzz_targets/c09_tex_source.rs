#![no_main]
// Coverage-guided inputs for C09, decided by the monitor's own oracle (c09::fuzz_one); see vcore::fuzzglue.
use libfuzzer_sys::fuzz_target;

fuzz_target!(|data: &[u8]| {
    vcore::fuzzglue::one("C09", data, c09::fuzz_one, c09::fuzz_seeds);
});
