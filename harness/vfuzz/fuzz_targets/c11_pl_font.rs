#![no_main]
// Coverage-guided inputs for C11, decided by the monitor's own oracle (c11::fuzz_one); see vcore::fuzzglue.
use libfuzzer_sys::fuzz_target;

fuzz_target!(|data: &[u8]| {
    vcore::fuzzglue::one("C11", data, c11::fuzz_one, c11::fuzz_seeds);
});
