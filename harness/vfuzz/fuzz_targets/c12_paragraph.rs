#![no_main]
// Coverage-guided inputs for C12, decided by the monitor's own oracle (c12::fuzz_one); see vcore::fuzzglue.
use libfuzzer_sys::fuzz_target;

fuzz_target!(|data: &[u8]| {
    vcore::fuzzglue::one("C12", data, c12::fuzz_one, c12::fuzz_seeds);
});
