#![no_main]
// Coverage-guided inputs for C03, decided by the monitor's own oracle (c03::fuzz_one); see vcore::fuzzglue.
use libfuzzer_sys::fuzz_target;

fuzz_target!(|data: &[u8]| {
    vcore::fuzzglue::one("C03", data, c03::fuzz_one, c03::fuzz_seeds);
});
