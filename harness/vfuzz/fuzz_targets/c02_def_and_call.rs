#![no_main]
// Coverage-guided inputs for C02, decided by the monitor's own oracle (c02::fuzz_one); see vcore::fuzzglue.
use libfuzzer_sys::fuzz_target;

fuzz_target!(|data: &[u8]| {
    vcore::fuzzglue::one("C02", data, c02::fuzz_one, c02::fuzz_seeds);
});
