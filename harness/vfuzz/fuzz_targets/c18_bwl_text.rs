#![no_main]
// Coverage-guided inputs for C18, decided by the monitor's own oracle (c18::fuzz_one); see vcore::fuzzglue.
use libfuzzer_sys::fuzz_target;

fuzz_target!(|data: &[u8]| {
    vcore::fuzzglue::one("C18", data, c18::fuzz_one, c18::fuzz_seeds);
});
