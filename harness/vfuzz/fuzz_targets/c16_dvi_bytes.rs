#![no_main]
// Coverage-guided inputs for C16, decided by the monitor's own oracle (c16::fuzz_one); see vcore::fuzzglue.
use libfuzzer_sys::fuzz_target;

fuzz_target!(|data: &[u8]| {
    vcore::fuzzglue::one("C16", data, c16::fuzz_one, c16::fuzz_seeds);
});
