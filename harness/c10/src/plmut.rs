//! Property-list text workloads: a tiny parenthesis-tree reader of our own (NOT the parser under
//! test), token-level mutation operators over that tree, and a grammar-based generator of small
//! hostile property lists.

use vcore::Rng;

#[derive(Clone, Debug)]
pub enum Item {
    Text(String),
    Node(Node),
}

#[derive(Clone, Debug, Default)]
pub struct Node {
    pub items: Vec<Item>,
    /// false when the closing parenthesis was missing in the source
    pub closed: bool,
}

/// Parse `s` into a forest. Stray closing parentheses become text.
pub fn parse(s: &str) -> Vec<Item> {
    let mut stack: Vec<Node> = vec![Node {
        items: vec![],
        closed: true,
    }];
    let mut text = String::new();
    fn flush(text: &mut String, stack: &mut [Node]) {
        if !text.is_empty() {
            stack
                .last_mut()
                .unwrap()
                .items
                .push(Item::Text(std::mem::take(text)));
        }
    }
    for c in s.chars() {
        match c {
            '(' => {
                flush(&mut text, &mut stack);
                stack.push(Node {
                    items: vec![],
                    closed: true,
                });
            }
            ')' => {
                if stack.len() > 1 {
                    flush(&mut text, &mut stack);
                    let n = stack.pop().unwrap();
                    stack.last_mut().unwrap().items.push(Item::Node(n));
                } else {
                    text.push(')');
                }
            }
            c => text.push(c),
        }
    }
    flush(&mut text, &mut stack);
    while stack.len() > 1 {
        let mut n = stack.pop().unwrap();
        n.closed = false;
        stack.last_mut().unwrap().items.push(Item::Node(n));
    }
    stack.pop().unwrap().items
}

pub fn render(items: &[Item], out: &mut String) {
    // iterative: the trees we build can be 10^5 levels deep
    enum W<'a> {
        Items(&'a [Item], usize),
        Close(bool),
    }
    let mut work = vec![W::Items(items, 0)];
    while let Some(w) = work.pop() {
        match w {
            W::Close(closed) => {
                if closed {
                    out.push(')');
                }
            }
            W::Items(items, i) => {
                if i >= items.len() {
                    continue;
                }
                work.push(W::Items(items, i + 1));
                match &items[i] {
                    Item::Text(t) => out.push_str(t),
                    Item::Node(n) => {
                        out.push('(');
                        work.push(W::Close(n.closed));
                        work.push(W::Items(&n.items, 0));
                    }
                }
            }
        }
    }
}

/// Paths (child indices from the root forest) of all nodes, down to `max_depth`.
pub fn node_paths(items: &[Item], max_depth: usize) -> Vec<Vec<usize>> {
    let mut out = vec![];
    fn rec(items: &[Item], prefix: &mut Vec<usize>, depth: usize, max: usize, out: &mut Vec<Vec<usize>>) {
        for (i, it) in items.iter().enumerate() {
            if let Item::Node(n) = it {
                prefix.push(i);
                out.push(prefix.clone());
                if depth < max {
                    rec(&n.items, prefix, depth + 1, max, out);
                }
                prefix.pop();
            }
        }
    }
    rec(items, &mut vec![], 0, max_depth, &mut out);
    out
}

fn items_at<'a>(root: &'a mut Vec<Item>, path: &[usize]) -> &'a mut Vec<Item> {
    let mut cur = root;
    for &i in path {
        match &mut cur[i] {
            Item::Node(n) => cur = &mut n.items,
            Item::Text(_) => unreachable!("path names a node"),
        }
    }
    cur
}

fn node_at<'a>(root: &'a mut Vec<Item>, path: &[usize]) -> &'a mut Node {
    let (last, parent) = path.split_last().unwrap();
    match &mut items_at(root, parent)[*last] {
        Item::Node(n) => n,
        Item::Text(_) => unreachable!("path names a node"),
    }
}

/// First word of a node ("CHARACTER", "LIGTABLE", ...), upper-cased.
pub fn node_name(n: &Node) -> String {
    match n.items.first() {
        Some(Item::Text(t)) => t
            .split_whitespace()
            .next()
            .unwrap_or("")
            .to_ascii_uppercase(),
        _ => String::new(),
    }
}

pub const OCT: &[&str] = &[
    "0", "1", "17", "177", "200", "377", "400", "777", "37777777777", "40000000000", "8", "9",
    "77777777777777777777", "-1", "", "12A", "0000000000000000000000377",
];
pub const HEX: &[&str] = &[
    "0", "7F", "80", "FF", "100", "FFFFFFFF", "100000000", "G", "ff", "FFFFFFFFFFFFFFFFF", "", "-1",
    "00000000000FF",
];
pub const DEC: &[&str] = &[
    "0", "1", "17", "18", "19", "127", "128", "254", "255", "256", "257", "999",
    "99999999999999999999", "-1", "+5", "1.5", "", "0000000255", "32767", "65536",
];
pub const REAL: &[&str] = &[
    "0", "1", "0.5", "-0.5", "15.999999", "15.9999995", "16", "16.0", "-16", "-16.000001", "17",
    "2047", "2047.9999999", "2047.99999995", "2048", "-2048", "-2047.999", "99999999999",
    "0.00000000001", ".5", "-.5", "--1", "+-+1", "1.", "1.2.3", "1e5", "0.99999999999",
    "7.9999995", "", "-", "+", "0.0000005", "0.00000049", "1024", "-1024", "2047.5", "-2047.5",
    "100", "-100", "0.000001", "9.5367431640625e-7",
];
pub const CHR: &[&str] = &[
    "A", "B", "a", "(", ")", " ", "\u{e9}", "\u{7f}", "\t", "AB", "", "~", "0", "\u{1F600}", "!",
];
pub const FACE: &[&str] = &[
    "MRR", "BIE", "LIC", "XXX", "MR", "", "MRRR", "mrr", "BRC", "LIE", "M", "MIX",
];
pub const RADIX: &[&str] = &["O", "H", "D", "R", "C", "F", "o", "h", "d", "r", "c", "f", "X", "", "B"];

fn hostile_value(rng: &mut Rng, radix: &str) -> String {
    let r = radix.to_ascii_uppercase();
    let pool: &[&str] = match r.as_str() {
        "O" => OCT,
        "H" => HEX,
        "D" => {
            if rng.coin() {
                DEC
            } else {
                REAL
            }
        }
        "R" => REAL,
        "C" => CHR,
        "F" => FACE,
        _ => DEC,
    };
    if rng.chance(1, 6) {
        // a random in-range number in that radix
        match r.as_str() {
            "O" => format!("{:o}", rng.below(512)),
            "H" => format!("{:X}", rng.below(512)),
            "R" => format!("{}.{}", rng.range_i64(-20, 20), rng.below(1_000_000)),
            _ => format!("{}", rng.below(300)),
        }
    } else {
        rng.pick(pool).to_string()
    }
}

/// Replace one number (or its radix letter) in the head text of a node.
fn mutate_number(rng: &mut Rng, n: &mut Node) -> bool {
    let Some(Item::Text(t)) = n.items.first_mut() else {
        return false;
    };
    let words: Vec<String> = t.split_whitespace().map(|w| w.to_string()).collect();
    // positions of radix letters (single letters after the property name)
    let radix_pos: Vec<usize> = (1..words.len())
        .filter(|&i| words[i].len() == 1 && "OHDRCFohdrcf".contains(words[i].as_str()))
        .collect();
    if radix_pos.is_empty() {
        return false;
    }
    let rp = *rng.pick(&radix_pos);
    let mut words = words;
    match rng.below(6) {
        0 => {
            // other radix letter, value kept
            words[rp] = rng.pick(RADIX).to_string();
        }
        1 => {
            // other radix letter and a value hostile for it
            let nr = rng.pick(RADIX).to_string();
            let v = hostile_value(rng, &nr);
            words[rp] = nr;
            if rp + 1 < words.len() {
                words[rp + 1] = v;
            } else {
                words.push(v);
            }
        }
        2 => {
            // drop the value
            if rp + 1 < words.len() {
                words.remove(rp + 1);
            }
        }
        _ => {
            let v = hostile_value(rng, &words[rp].clone());
            if rp + 1 < words.len() {
                words[rp + 1] = v;
            } else {
                words.push(v);
            }
        }
    }
    let sep = if rng.chance(1, 10) { "\n" } else { " " };
    *t = words.join(sep);
    t.push(' ');
    true
}

const EXTRA_NODES: &[&str] = &[
    "(SEVENBITSAFEFLAG TRUE)",
    "(SEVENBITSAFEFLAG FALSE)",
    "(SEVENBITSAFEFLAG MAYBE)",
    "(BOUNDARYCHAR C A)",
    "(BOUNDARYCHAR O 377)",
    "(BOUNDARYCHAR D 0)",
    "(HEADER D 255 O 1)",
    "(HEADER D 18 H FFFFFFFF)",
    "(HEADER D 17 O 1)",
    "(HEADER D 0 O 1)",
    "(HEADER D 100 O 7)",
    "(FONTDIMEN (PARAMETER D 0 R 1.0))",
    "(FONTDIMEN (PARAMETER D 254 R 1.0))",
    "(FONTDIMEN (PARAMETER D 255 R 1.0))",
    "(FONTDIMEN (PARAMETER D 256 R 1.0))",
    "(FONTDIMEN (SLANT R 2047.0) (SPACE R 16.0) (QUAD R -16.0))",
    "(FONTDIMEN (AXISHEIGHT R 0.25) (BIGOPSPACING5 R 0.1))",
    "(LIGTABLE (SKIP D 255))",
    "(LIGTABLE (STOP))",
    "(LIGTABLE (LABEL BOUNDARYCHAR))",
    "(LIGTABLE (LABEL BOUNDARYCHAR) (LIG C A C B) (STOP))",
    "(LIGTABLE (LABEL D 0) (KRN D 0 R 0.1) (STOP))",
    "(LIGTABLE (LABEL O 377) (/LIG/>> O 377 O 377) (STOP))",
    "(LIGTABLE (LABEL C A) (LIG/ C A C B) (LABEL C B) (LIG/ C A C A) (STOP))",
    "(LIGTABLE (LABEL C A) (KRN C A R 16.0) (STOP))",
    "(LIGTABLE (LABEL C A) (KRN C A R -2047.0) (KRN C B R 2047.0) (STOP))",
    "(LIGTABLE (LABEL C A) (KRN C A R 0.1) (SKIP D 200) (KRN C B R 0.2))",
    "(LIGTABLE (LABEL C A) (LABEL C A) (LABEL C B))",
    "(CHARACTER C A (NEXTLARGER C A))",
    "(CHARACTER C A (NEXTLARGER C B)) (CHARACTER C B (NEXTLARGER C A))",
    "(CHARACTER O 0 (NEXTLARGER O 377))",
    "(CHARACTER O 377 (CHARWD R 1.0) (CHARHT R 2047.0) (CHARDP R -2047.0) (CHARIC R 16.0))",
    "(CHARACTER C Z (VARCHAR (TOP O 1) (MID O 2) (BOT O 3) (REP O 4)))",
    "(CHARACTER C Z (VARCHAR))",
    "(CHARACTER C Z (VARCHAR (REP C Z)) (NEXTLARGER C Z))",
    "(CHARACTER)",
    "(CHARACTER C)",
    "(CHARACTER C A (CHARWD) (CHARHT) (CHARDP) (CHARIC))",
    "(DESIGNUNITS R 0)",
    "(DESIGNUNITS R 1000.0)",
    "(DESIGNUNITS R -1)",
    "(DESIGNSIZE R 0.5)",
    "(DESIGNSIZE R 2047.9)",
    "(DESIGNSIZE D 0)",
    "(DESIGNSIZE R -10)",
    "(CHECKSUM O 37777777777)",
    "(CHECKSUM H 100000000)",
    "(CODINGSCHEME TEX MATH SYMBOLS)",
    "(CODINGSCHEME TeX math extension)",
    "(CODINGSCHEME 0123456789012345678901234567890123456789012345678901234567890123456789)",
    "(CODINGSCHEME caf\u{e9} \u{1F600})",
    "(FAMILY 01234567890123456789XYZ)",
    "(FAMILY)",
    "(FACE F BIE)",
    "(FACE O 377)",
    "(FACE F XYZ)",
    "(COMMENT (((unbalanced)",
    "(COMMENT ok (nested (deeper)) ok)",
    "(comment lower case)",
    "(UNKNOWNPROPERTY D 1)",
    "()",
    "( )",
    "(\n)",
    "junk outside",
    "\u{e9}\u{e9}",
    "\r\n",
    "\r",
    "\t",
];

/// What a mutation did (for counters and witnesses).
pub type Log = Vec<&'static str>;

/// Apply one random tree-level mutation.
pub fn mutate_tree(rng: &mut Rng, root: &mut Vec<Item>, donor: &[Item], log: &mut Log) {
    let paths = node_paths(root, 3);
    if paths.is_empty() {
        root.push(Item::Text(rng.pick(EXTRA_NODES).to_string()));
        log.push("insert-extra");
        return;
    }
    match rng.below(16) {
        0 | 1 => {
            // drop a property list
            let p = rng.pick(&paths).clone();
            let (last, parent) = p.split_last().unwrap();
            items_at(root, parent).remove(*last);
            log.push("drop");
        }
        2 | 3 => {
            // duplicate a property list (in place or at the end of its parent)
            let p = rng.pick(&paths).clone();
            let (last, parent) = p.split_last().unwrap();
            let v = items_at(root, parent);
            let copy = v[*last].clone();
            if rng.coin() {
                v.insert(*last, copy);
            } else {
                v.push(copy);
            }
            log.push("duplicate");
        }
        4 => {
            // swap two siblings
            let p = rng.pick(&paths).clone();
            let (last, parent) = p.split_last().unwrap();
            let v = items_at(root, parent);
            let j = rng.usize_below(v.len());
            v.swap(*last, j);
            log.push("swap-siblings");
        }
        5 => {
            // move a node somewhere else (e.g. CHARACTER into LIGTABLE, LABEL to top level)
            let p = rng.pick(&paths).clone();
            let (last, parent) = p.split_last().unwrap();
            let it = items_at(root, parent).remove(*last);
            let paths2 = node_paths(root, 3);
            if paths2.is_empty() || rng.chance(1, 4) {
                let k = rng.usize_below(root.len() + 1);
                root.insert(k, it);
            } else {
                let q = rng.pick(&paths2).clone();
                let n = node_at(root, &q);
                let k = rng.usize_below(n.items.len() + 1).max(1.min(n.items.len()));
                n.items.insert(k, it);
            }
            log.push("move");
        }
        6 | 7 | 8 => {
            // out-of-range / malformed number
            for _ in 0..8 {
                let p = rng.pick(&paths).clone();
                if mutate_number(rng, node_at(root, &p)) {
                    log.push("number");
                    return;
                }
            }
            log.push("number-none");
        }
        9 => {
            // LIGTABLE first (before every CHARACTER)
            let mut ligs = vec![];
            let mut i = 0;
            while i < root.len() {
                let is_lig = matches!(&root[i], Item::Node(n) if node_name(n) == "LIGTABLE");
                if is_lig {
                    ligs.push(root.remove(i));
                } else {
                    i += 1;
                }
            }
            for (k, l) in ligs.into_iter().enumerate() {
                root.insert(k, l);
            }
            log.push("ligtable-first");
        }
        10 => {
            // drop CHARACTER lists: all, all below a threshold, or every other one
            let mode = rng.below(3);
            let thr = rng.usize_below(root.len() + 1);
            let mut k = 0usize;
            let mut i = 0;
            while i < root.len() {
                let is_char = matches!(&root[i], Item::Node(n) if node_name(n) == "CHARACTER");
                let kill = is_char
                    && match mode {
                        0 => true,
                        1 => i < thr,
                        _ => {
                            k += 1;
                            k % 2 == 0
                        }
                    };
                if kill {
                    root.remove(i);
                } else {
                    i += 1;
                }
            }
            log.push("drop-characters");
        }
        11 => {
            // labels for arbitrary (possibly undeclared) characters inside a LIGTABLE
            let lig_paths: Vec<Vec<usize>> = paths
                .iter()
                .filter(|p| p.len() == 1)
                .filter(|p| matches!(&root[p[0]], Item::Node(n) if node_name(n) == "LIGTABLE"))
                .cloned()
                .collect();
            let label = match rng.below(4) {
                0 => "(LABEL D 0)".to_string(),
                1 => format!("(LABEL D {})", rng.below(256)),
                2 => "(LABEL BOUNDARYCHAR)".to_string(),
                _ => format!("(LABEL O {:o})", rng.below(256)),
            };
            if lig_paths.is_empty() {
                root.insert(
                    rng.usize_below(root.len() + 1),
                    Item::Text(format!("(LIGTABLE {label} (KRN C A R 0.1) (STOP))")),
                );
            } else {
                let p = rng.pick(&lig_paths).clone();
                let n = node_at(root, &p);
                let k = rng.usize_below(n.items.len() + 1).max(1.min(n.items.len()));
                n.items.insert(k, Item::Text(label));
            }
            log.push("label-undeclared");
        }
        12 | 13 => {
            // insert a hostile extra property somewhere
            let t = Item::Text(rng.pick(EXTRA_NODES).to_string());
            if rng.coin() {
                let k = rng.usize_below(root.len() + 1);
                root.insert(k, t);
            } else {
                let p = rng.pick(&paths).clone();
                let n = node_at(root, &p);
                let k = rng.usize_below(n.items.len() + 1).max(1.min(n.items.len()));
                n.items.insert(k, t);
            }
            log.push("insert-extra");
        }
        14 => {
            // cross-over: graft a node of another corpus file
            let dp = node_paths(donor, 2);
            if !dp.is_empty() {
                let q = rng.pick(&dp).clone();
                let mut cur: &[Item] = donor;
                let mut it = None;
                for (k, &i) in q.iter().enumerate() {
                    if k + 1 == q.len() {
                        it = Some(cur[i].clone());
                    } else if let Item::Node(n) = &cur[i] {
                        cur = &n.items;
                    }
                }
                if let Some(it) = it {
                    let p = rng.pick(&paths).clone();
                    if rng.coin() {
                        let n = node_at(root, &p);
                        n.items.push(it);
                    } else {
                        root.push(it);
                    }
                }
            }
            log.push("graft");
        }
        _ => {
            // wrap a node in extra parentheses (moderate nesting)
            let p = rng.pick(&paths).clone();
            let depth = *rng.pick(&[1usize, 2, 3, 10, 100, 1000]);
            let (last, parent) = p.split_last().unwrap();
            let v = items_at(root, parent);
            let mut it = v[*last].clone();
            let name = *rng.pick(&["", "COMMENT ", "CHARACTER C A ", "LIGTABLE ", "VARCHAR ", "X "]);
            for _ in 0..depth {
                it = Item::Node(Node {
                    items: vec![Item::Text(name.to_string()), it],
                    closed: true,
                });
            }
            v[*last] = it;
            log.push("wrap");
        }
    }
}

/// Text-level mutations applied after rendering.
pub fn mutate_text(rng: &mut Rng, s: &mut String, log: &mut Log) {
    if s.is_empty() {
        s.push_str(*rng.pick(EXTRA_NODES));
        return;
    }
    let char_pos = |s: &str, k: usize| -> usize {
        // a char boundary near byte k
        let mut k = k.min(s.len());
        while !s.is_char_boundary(k) {
            k -= 1;
        }
        k
    };
    match rng.below(8) {
        0 => {
            // delete one parenthesis
            let idx: Vec<usize> = s
                .bytes()
                .enumerate()
                .filter(|(_, b)| *b == b'(' || *b == b')')
                .map(|(i, _)| i)
                .collect();
            if !idx.is_empty() {
                let i = *rng.pick(&idx);
                s.remove(i);
            }
            log.push("del-paren");
        }
        1 => {
            let k = char_pos(s, rng.usize_below(s.len() + 1));
            s.insert(k, if rng.coin() { '(' } else { ')' });
            log.push("ins-paren");
        }
        2 => {
            let k = char_pos(s, rng.usize_below(s.len() + 1));
            s.truncate(k);
            log.push("truncate");
        }
        3 => {
            // line-ending games
            *s = match rng.below(3) {
                0 => s.replace('\n', "\r\n"),
                1 => s.replace('\n', "\r"),
                _ => s.replace('\n', "\r\r\n"),
            };
            log.push("newlines");
        }
        4 => {
            *s = s.to_ascii_lowercase();
            log.push("lowercase");
        }
        5 => {
            // a non-ASCII / control character somewhere
            let k = char_pos(s, rng.usize_below(s.len() + 1));
            let c = *rng.pick(&['\u{e9}', '\u{1F600}', '\t', '\u{0}', '\u{7f}', '\u{a0}', '\u{2028}']);
            s.insert(k, c);
            log.push("odd-char");
        }
        6 => {
            // swap ( and ) in a window
            let a = char_pos(s, rng.usize_below(s.len()));
            let b = char_pos(s, (a + rng.usize_below(200)).min(s.len()));
            let w: String = s[a..b]
                .chars()
                .map(|c| match c {
                    '(' => ')',
                    ')' => '(',
                    c => c,
                })
                .collect();
            s.replace_range(a..b, &w);
            log.push("flip-parens");
        }
        _ => {
            // delete a window
            let a = char_pos(s, rng.usize_below(s.len()));
            let b = char_pos(s, (a + rng.usize_below(60)).min(s.len()));
            s.replace_range(a..b, "");
            log.push("del-window");
        }
    }
}

// ------------------------------------------------------------------------------------------
// generator of small hostile property lists

fn gen_char(rng: &mut Rng) -> String {
    const SMALL: &[&str] = &[
        "C A", "C B", "C C", "C D", "C a", "O 0", "O 1", "O 2", "O 177", "O 200", "O 376", "O 377",
        "D 255", "D 0", "H 7F", "H FF", "C 0", "D 65",
    ];
    match rng.below(12) {
        0 => format!("D {}", rng.below(256)),
        1 => format!("O {:o}", rng.below(256)),
        2 => {
            let r = rng.pick(RADIX).to_string();
            format!("{} {}", r, hostile_value(rng, &r))
        }
        _ => rng.pick(SMALL).to_string(),
    }
}

fn gen_real(rng: &mut Rng) -> String {
    match rng.below(10) {
        0 | 1 => format!("R {}", rng.pick(REAL)),
        2 => format!("D {}", rng.pick(REAL)),
        3 => format!("R {}.{}", rng.range_i64(-15, 15), rng.below(1_000_000)),
        4 => format!("{} {}", rng.pick(RADIX), rng.pick(REAL)),
        _ => format!("R {}.{}", rng.range_i64(-1, 1), rng.below(1000)),
    }
}

fn gen_u32(rng: &mut Rng) -> String {
    match rng.below(4) {
        0 => format!("O {}", rng.pick(OCT)),
        1 => format!("H {}", rng.pick(HEX)),
        2 => format!("O {:o}", rng.next_u32()),
        _ => format!("{} {}", rng.pick(RADIX), rng.pick(DEC)),
    }
}

const LIGS: &[&str] = &["LIG", "/LIG", "/LIG>", "LIG/", "LIG/>", "/LIG/", "/LIG/>", "/LIG/>>", "LIG>", "//LIG"];
const PARAMS: &[&str] = &[
    "SLANT", "SPACE", "STRETCH", "SHRINK", "XHEIGHT", "QUAD", "EXTRASPACE", "NUM1", "NUM2", "NUM3",
    "DENOM1", "DENOM2", "SUP1", "SUP2", "SUP3", "SUB1", "SUB2", "SUPDROP", "SUBDROP", "DELIM1",
    "DELIM2", "AXISHEIGHT", "DEFAULTRULETHICKNESS", "BIGOPSPACING1", "BIGOPSPACING2",
    "BIGOPSPACING3", "BIGOPSPACING4", "BIGOPSPACING5",
];

fn gen_ligtable(rng: &mut Rng, out: &mut String, len: usize) {
    out.push_str("(LIGTABLE\n");
    for _ in 0..len {
        match rng.below(14) {
            0 | 1 | 2 => out.push_str(&format!(" (LABEL {})\n", gen_char(rng))),
            3 => out.push_str(" (LABEL BOUNDARYCHAR)\n"),
            4 | 5 | 6 => out.push_str(&format!(" ({} {} {})\n", rng.pick(LIGS), gen_char(rng), gen_char(rng))),
            7 | 8 | 9 => out.push_str(&format!(" (KRN {} {})\n", gen_char(rng), gen_real(rng))),
            10 => out.push_str(" (STOP)\n"),
            11 => out.push_str(&format!(" (SKIP D {})\n", rng.pick(&[0u32, 1, 2, 3, 5, 127, 128, 200, 255, 256]))),
            12 => out.push_str(" (COMMENT x (y) z)\n"),
            _ => out.push_str(&format!(" {}\n", rng.pick(EXTRA_NODES))),
        }
    }
    out.push_str(" )\n");
}

fn gen_character(rng: &mut Rng, out: &mut String) {
    out.push_str(&format!("(CHARACTER {}\n", gen_char(rng)));
    for _ in 0..rng.below(6) {
        match rng.below(10) {
            0 | 1 => out.push_str(&format!(" (CHARWD {})\n", gen_real(rng))),
            2 => out.push_str(&format!(" (CHARHT {})\n", gen_real(rng))),
            3 => out.push_str(&format!(" (CHARDP {})\n", gen_real(rng))),
            4 => out.push_str(&format!(" (CHARIC {})\n", gen_real(rng))),
            5 | 6 => out.push_str(&format!(" (NEXTLARGER {})\n", gen_char(rng))),
            7 | 8 => {
                out.push_str(" (VARCHAR\n");
                for _ in 0..rng.below(5) {
                    out.push_str(&format!("  ({} {})\n", rng.pick(&["TOP", "MID", "BOT", "REP", "XXX"]), gen_char(rng)));
                }
                out.push_str("  )\n");
            }
            _ => out.push_str(" (COMMENT (KRN C A R 1.0))\n"),
        }
    }
    out.push_str(" )\n");
}

/// A small property list drawn from the whole grammar with hostile values mixed in.
pub fn gen_pl(rng: &mut Rng) -> String {
    let mut out = String::new();
    let n = rng.range_usize(0, 10);
    for _ in 0..n {
        match rng.below(20) {
            0 => out.push_str(&format!("(CHECKSUM {})\n", gen_u32(rng))),
            1 => out.push_str(&format!("(DESIGNSIZE {})\n", gen_real(rng))),
            2 => out.push_str(&format!("(DESIGNUNITS {})\n", gen_real(rng))),
            3 => out.push_str(&format!(
                "(CODINGSCHEME {})\n",
                rng.pick(&["TEX MATH SYMBOLS", "TEX MATH EXTENSION", "tex math sy", "", "ASCII", "X(Y)Z",
                    "0123456789012345678901234567890123456789012345", "caf\u{e9}"])
            )),
            4 => out.push_str(&format!("(FAMILY {})\n", rng.pick(&["CMR", "", "01234567890123456789012", "a\u{e9}b"]))),
            5 => out.push_str(&format!("(FACE {})\n", if rng.coin() { format!("F {}", rng.pick(FACE)) } else { gen_char(rng) })),
            6 => out.push_str(&format!("(SEVENBITSAFEFLAG {})\n", rng.pick(&["TRUE", "FALSE", "T", "f", "X", ""]))),
            7 => out.push_str(&format!(
                "(HEADER D {} {})\n",
                rng.pick(&[0u32, 1, 17, 18, 19, 20, 40, 100, 200, 254, 255, 256]),
                gen_u32(rng)
            )),
            8 => {
                out.push_str("(FONTDIMEN\n");
                for _ in 0..rng.below(6) {
                    if rng.coin() {
                        out.push_str(&format!(" ({} {})\n", rng.pick(PARAMS), gen_real(rng)));
                    } else {
                        out.push_str(&format!(
                            " (PARAMETER D {} {})\n",
                            rng.pick(&[0u32, 1, 2, 7, 8, 13, 22, 23, 30, 100, 253, 254, 255, 256]),
                            gen_real(rng)
                        ));
                    }
                }
                out.push_str(" )\n");
            }
            9 => out.push_str(&format!("(BOUNDARYCHAR {})\n", gen_char(rng))),
            10 | 11 | 12 => {
                let len = rng.range_usize(0, 12);
                gen_ligtable(rng, &mut out, len)
            }
            13..=17 => gen_character(rng, &mut out),
            18 => out.push_str("(COMMENT a (b (c)) d)\n"),
            _ => {
                out.push_str(*rng.pick(EXTRA_NODES));
                out.push('\n');
            }
        }
    }
    out
}

/// Larger structured property lists that stress table sizes: many characters with many distinct
/// dimensions (lossy compression, index packing), long lig tables with many labels (entry-point
/// redirection), long headers and parameter lists.
pub fn gen_big_pl(rng: &mut Rng, kind: u64) -> (String, &'static str) {
    let mut out = String::new();
    match kind % 11 {
        0 => {
            // > 15 heights / depths, > 63 italics, up to 256 widths, wide value range
            let n = rng.range_usize(17, 256);
            let span = *rng.pick(&[1i64, 15, 16, 100, 2047]);
            for c in 0..n {
                out.push_str(&format!(
                    "(CHARACTER D {} (CHARWD R {}.{}) (CHARHT R {}.{}) (CHARDP R {}.{}) (CHARIC R {}.{}))\n",
                    c,
                    rng.range_i64(-span, span), rng.below(1000),
                    rng.range_i64(-span, span), rng.below(1000),
                    rng.range_i64(-span, span), rng.below(1000),
                    rng.range_i64(-span, span), rng.below(1000)
                ));
            }
            (out, "many-dimensions")
        }
        1 => {
            // long lig table, labels spread so that entry points exceed 255
            let n = rng.range_usize(256, 1500);
            let nchars = rng.range_usize(1, 256);
            if rng.coin() {
                out.push_str(&format!("(BOUNDARYCHAR D {})\n", rng.below(256)));
            }
            out.push_str("(LIGTABLE\n");
            for i in 0..n {
                if rng.chance(1, 6) {
                    out.push_str(&format!(" (LABEL D {})\n", rng.usize_below(nchars)));
                }
                if rng.chance(1, 300) {
                    out.push_str(" (LABEL BOUNDARYCHAR)\n");
                }
                if rng.chance(1, 3) {
                    out.push_str(&format!(" (KRN D {} R 0.{})\n", rng.usize_below(nchars), i % 997));
                } else {
                    out.push_str(&format!(
                        " ({} D {} D {})\n",
                        rng.pick(&LIGS[..8]),
                        rng.usize_below(nchars),
                        rng.usize_below(nchars)
                    ));
                }
                if rng.chance(1, 8) {
                    out.push_str(" (STOP)\n");
                }
            }
            out.push_str(" )\n");
            let declared = rng.range_usize(0, nchars);
            let first = rng.usize_below(nchars);
            for c in first..(first + declared).min(256) {
                out.push_str(&format!("(CHARACTER D {} (CHARWD R 0.5))\n", c));
            }
            (out, "long-ligtable")
        }
        2 => {
            // lig table at the documented size limit
            let n = *rng.pick(&[32509usize, 32510, 32511, 32767, 33000]);
            out.push_str("(LIGTABLE (LABEL C A)\n");
            for i in 0..n {
                out.push_str(&format!("(KRN D {} R 0.{})", i % 256, i % 1000));
                if i % 8 == 7 {
                    out.push('\n');
                }
            }
            out.push_str(")\n(CHARACTER C A (CHARWD R 1.0))\n");
            if rng.coin() {
                out.push_str("(CHECKSUM X)\n");
            }
            (out, "ligtable-at-limit")
        }
        3 => {
            // every header word and every parameter
            for i in 18..=255u32 {
                if rng.chance(3, 4) {
                    out.push_str(&format!("(HEADER D {} O {:o})\n", i, rng.next_u32()));
                }
            }
            out.push_str("(FONTDIMEN\n");
            for i in 1..=254u32 {
                if rng.chance(3, 4) {
                    out.push_str(&format!(" (PARAMETER D {} R 0.{})\n", i, i));
                }
            }
            out.push_str(")\n");
            (out, "long-header-params")
        }
        4 => {
            // 256 characters, all with lig labels, VARCHARs and NEXTLARGER chains
            out.push_str("(LIGTABLE\n");
            for c in 0..256u32 {
                out.push_str(&format!(" (LABEL D {}) (KRN D {} R 0.{}) (STOP)\n", c, 255 - c, c));
            }
            out.push_str(")\n");
            // one time in three: 254, 255 or 256 DISTINCT extensible recipes (ne at its limit of 256)
            let many_recipes = if rng.chance(1, 3) { 254 + rng.below(3) as u32 } else { 0 };
            for c in 0..256u32 {
                if c < many_recipes {
                    out.push_str(&format!("(CHARACTER D {} (CHARWD R 0.{}) (VARCHAR (REP D {})))\n", c, c, c));
                    continue;
                }
                match rng.below(4) {
                    0 => out.push_str(&format!("(CHARACTER D {} (CHARWD R 0.{}) (NEXTLARGER D {}))\n", c, c, (c + 1) % 256)),
                    1 => out.push_str(&format!(
                        "(CHARACTER D {} (CHARWD R 0.{}) (VARCHAR (TOP D {}) (REP D {})))\n",
                        c, c, rng.below(256), rng.below(256)
                    )),
                    _ => out.push_str(&format!("(CHARACTER D {} (CHARWD R 0.{}))\n", c, c)),
                }
            }
            (out, "all-256-tagged")
        }
        5 => {
            // a NEXTLARGER cycle through all characters, and chains to undeclared ones
            let n = rng.range_usize(2, 256);
            for c in 0..n {
                out.push_str(&format!("(CHARACTER D {} (CHARWD R 1.0) (NEXTLARGER D {}))\n", c, (c + 1) % n));
            }
            out.push_str(&format!("(CHARACTER D {} (NEXTLARGER D {}))\n", rng.below(256), rng.below(256)));
            (out, "nextlarger-cycle")
        }
        6 => {
            // labels without/below/above the declared CHARACTER range
            let lo = rng.range_usize(1, 200);
            let hi = rng.range_usize(lo, 255);
            out.push_str("(LIGTABLE\n");
            for _ in 0..rng.range_usize(1, 20) {
                let c = match rng.below(3) {
                    0 => rng.usize_below(lo),
                    1 => rng.range_usize(hi, 255),
                    _ => rng.range_usize(lo, hi),
                };
                out.push_str(&format!(" (LABEL D {}) (KRN D {} R 0.1) (STOP)\n", c, rng.below(256)));
            }
            out.push_str(")\n");
            if rng.chance(3, 4) {
                out.push_str(&format!("(CHARACTER D {} (CHARWD R 1.0))\n(CHARACTER D {} (CHARWD R 1.0))\n", lo, hi));
            }
            (out, "labels-outside-range")
        }
        7 => {
            // repeated definitions of the same character (additional_* tables)
            for _ in 0..rng.range_usize(2, 300) {
                out.push_str(&format!(
                    "(CHARACTER C A (CHARWD R {}.{}) (CHARHT R 0.{}) (CHARDP R 0.{}) (CHARIC R 0.{}))\n",
                    rng.range_i64(-15, 15), rng.below(1000), rng.below(1000), rng.below(1000), rng.below(1000)
                ));
            }
            (out, "repeated-character")
        }
        8 => {
            // many kerns with distinct values (kern table > 255 entries, index >= 256)
            let n = rng.range_usize(256, 3000);
            out.push_str("(LIGTABLE (LABEL C A)\n");
            for i in 0..n {
                out.push_str(&format!(" (KRN D {} R {}.{})\n", i % 256, (i / 1000) as i64 - 1, i % 1000));
            }
            out.push_str(" (STOP))\n(CHARACTER C A (CHARWD R 1.0))\n");
            (out, "many-kerns")
        }
        9 => {
            // every character labelled beyond position 255: up to 256 entry-point redirections
            let lead = rng.range_usize(250, 300);
            let nchars = *rng.pick(&[200usize, 254, 255, 256, 256]);
            if rng.coin() {
                out.push_str("(BOUNDARYCHAR C A)\n");
            }
            out.push_str("(LIGTABLE (LABEL BOUNDARYCHAR)\n");
            for i in 0..lead {
                out.push_str(&format!(" (KRN D {} R 0.{})\n", i % 256, i));
            }
            out.push_str(" (STOP)\n");
            for c in 0..nchars {
                out.push_str(&format!(" (LABEL D {}) (KRN D {} R 0.5) (STOP)\n", c, c));
            }
            out.push_str(")\n");
            for c in 0..nchars {
                out.push_str(&format!("(CHARACTER D {} (CHARWD R 0.5))\n", c));
            }
            (out, "all-labels-redirected")
        }
        _ => {
            // SEVENBITSAFEFLAG TRUE with 8-bit leaks through every channel
            out.push_str("(SEVENBITSAFEFLAG TRUE)\n");
            match rng.below(3) {
                0 => out.push_str("(LIGTABLE (LABEL C A) (LIG C B O 200) (STOP))\n(CHARACTER C A)(CHARACTER C B)(CHARACTER O 200)\n"),
                1 => out.push_str("(CHARACTER C A (NEXTLARGER O 377))\n(CHARACTER O 377)\n"),
                _ => out.push_str("(CHARACTER C A (VARCHAR (REP O 377)))\n"),
            }
            (out, "not-seven-bit-safe")
        }
    }
}
