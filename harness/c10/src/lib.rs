//! Monitor for property C10 (see /verif/DESIGN.md §6): the TFM and PL readers are total.
//!
//! Oracle = the crash oracle (`vcore::catch` + `obs.repo_panic`) around the two public
//! conversion entry points, plus the composition claim "whatever PL->TFM returns is accepted by
//! the TFM reader" (`tfm::File::deserialize(out).0` must be `Ok`). There is no reference model:
//! the property is a pure totality / closure claim.
//!
//! What is executed per input:
//!   bytes -> `tfm::algorithms::tfm_to_pl`            (must not panic; `Ok(_)`; result or documented error)
//!         -> every message rendered the way the `tftopl` binary renders it (must not panic)
//!         -> if a property list came out: that text -> `pl_to_tfm` -> `File::deserialize` (must be Ok)
//!   text  -> `tfm::algorithms::pl_to_tfm`            (must not panic)
//!         -> every warning rendered the way the `pltotf` binary renders it (must not panic)
//!         -> `tfm::File::deserialize(output)`         (must be `Ok`)
//!         -> the output fed back into `tfm_to_pl`     (must not panic)

pub mod corpus;
pub mod fuzz;
pub mod plmut;

use corpus::corpus;
use vcore::*;

pub struct M;
pub static MONITOR: M = M;

// ------------------------------------------------------------------------------------------
// oracle

pub(crate) fn variant_name<T: std::fmt::Debug>(t: &T) -> String {
    let s = format!("{t:?}");
    s.split(|c: char| !(c.is_alphanumeric() || c == '_'))
        .next()
        .unwrap_or("")
        .to_string()
}

fn hex(b: &[u8]) -> String {
    let mut s = String::with_capacity(b.len() * 2);
    for x in b {
        s.push_str(&format!("{x:02x}"));
    }
    s
}

fn bytes_witness(b: &[u8]) -> Value {
    if b.len() <= 1024 {
        json!({"len": b.len(), "hex": hex(b)})
    } else {
        json!({"len": b.len(), "first_64_bytes_hex": hex(&b[..64]),
               "note": "input too long to embed; regenerate with the replay command"})
    }
}

fn text_witness(t: &str) -> Value {
    if t.len() <= 3000 {
        json!({"len": t.len(), "text": t})
    } else {
        let mut k = 600;
        while !t.is_char_boundary(k) {
            k -= 1;
        }
        json!({"len": t.len(), "head": &t[..k],
               "note": "input too long to embed; regenerate with the replay command"})
    }
}

fn display_format(k: u64) -> tfm::pl::CharDisplayFormat {
    match k % 3 {
        0 => tfm::pl::CharDisplayFormat::Default,
        1 => tfm::pl::CharDisplayFormat::Ascii,
        _ => tfm::pl::CharDisplayFormat::Octal,
    }
}

/// bytes -> tfm_to_pl under the crash oracle. Returns the property list if one was produced.
/// `how` describes how the input was derived (goes into the witness).
fn check_tfm(obs: &mut Obs, bytes: &[u8], fmt_k: u64, how: &dyn Fn() -> Value) -> Option<String> {
    obs.count("tfm_inputs");
    let fmt = display_format(fmt_k);
    let r = catch(|| tfm::algorithms::tfm_to_pl(bytes, 3, &|_| fmt));
    let out = match r {
        Err(p) => {
            obs.count("tfm_panics");
            obs.repo_panic(
                &p,
                json!({"direction": "tfm_to_pl", "input": bytes_witness(bytes), "derived": how()}),
            );
            return None;
        }
        Ok(Err(e)) => {
            obs.violation(
                "tfm_to_pl:returned-fmt-error",
                json!({"error": format!("{e:?}"), "input": bytes_witness(bytes), "derived": how()}),
            );
            return None;
        }
        Ok(Ok(out)) => out,
    };
    // the tftopl binary prints every message; rendering them is part of "returns ... warnings"
    let r = catch(|| {
        let mut n = 0usize;
        for m in &out.error_messages {
            n += m.tftopl_message().len();
        }
        if let Err(e) = &out.pl_data {
            n += e.tftopl_message().len() + e.tftopl_section();
        }
        n
    });
    if let Err(p) = r {
        obs.count("tfm_panics");
        obs.repo_panic(
            &p,
            json!({"direction": "tftopl_message", "input": bytes_witness(bytes), "derived": how()}),
        );
    }
    match out.pl_data {
        Err(e) => {
            obs.count(&format!("tfm_err:{}", variant_name(&e)));
            None
        }
        Ok(s) => {
            if out.error_messages.is_empty() {
                obs.count("tfm_ok_clean");
            } else {
                obs.count("tfm_ok_with_warnings");
            }
            Some(s)
        }
    }
}

/// text -> pl_to_tfm under the crash oracle; the output must be accepted by the TFM reader.
/// Returns the bytes produced.
fn check_pl(obs: &mut Obs, text: &str, how: &dyn Fn() -> Value) -> Option<Vec<u8>> {
    obs.count("pl_inputs");
    let r = catch(|| tfm::algorithms::pl_to_tfm(text));
    let (bytes, warnings) = match r {
        Err(p) => {
            obs.count("pl_panics");
            obs.repo_panic(
                &p,
                json!({"direction": "pl_to_tfm", "input": text_witness(text), "derived": how()}),
            );
            return None;
        }
        Ok(v) => v,
    };
    if warnings.is_empty() {
        obs.count("pl_ok_clean");
    } else {
        obs.count("pl_ok_with_warnings");
        obs.add("pl_warnings_total", warnings.len() as u64);
    }
    // the pltotf binary prints every warning with its context line. Rendering one message scans
    // the source up to the warning, so rendering all of 10^5 warnings is quadratic: render every
    // *kind* of warning at least once, the first 48 and the last 16.
    let r = catch(|| {
        let mut n = 0usize;
        let mut kinds: Vec<String> = vec![];
        let len = warnings.len();
        for (i, w) in warnings.iter().enumerate() {
            let mut wanted = i < 48 || i + 16 >= len;
            if !wanted {
                let k = variant_name(&w.kind);
                if !kinds.contains(&k) {
                    kinds.push(k);
                    wanted = true;
                }
            }
            if wanted {
                n += w.pltotf_message(text).len();
            }
        }
        n
    });
    if let Err(p) = r {
        obs.count("pl_panics");
        obs.repo_panic(
            &p,
            json!({"direction": "pltotf_message", "input": text_witness(text), "derived": how()}),
        );
    }
    // (4) whatever PL->TFM returns is accepted by the TFM reader
    let r = catch(|| tfm::File::deserialize(&bytes));
    match r {
        Err(p) => {
            obs.count("pl_panics");
            obs.repo_panic(
                &p,
                json!({"direction": "deserialize(pl_to_tfm(text))", "input": text_witness(text),
                       "output": bytes_witness(&bytes), "derived": how()}),
            );
        }
        Ok((Err(e), _)) => {
            obs.count("pl2tfm_output_rejected");
            // Known finding C10-pl-output-exceeds-tfm-capacity (only reachable once the i16
            // overflow in valid_lf is repaired): the property list needs more than 32767 words,
            // which the format cannot express. Deviation model: the writer emits every table
            // completely and saturates lf at 32767, so the only thing wrong with the output is lf.
            // Trigger and model are evaluated by our own arithmetic on the output header.
            let total = if bytes.len() >= 24 { consistent_lf(&bytes) } else { 0 };
            if variant_name(&e) == "InconsistentSubFileSizes"
                && total > 32767
                && get_word(&bytes, 0) == 32767
                && bytes.len() as i64 == 4 * total
            {
                obs.known(
                    "C10-pl-output-exceeds-tfm-capacity",
                    json!({"words_needed": total, "reader_error": format!("{e:?}"),
                           "input": text_witness(text), "derived": how()}),
                );
                return Some(bytes);
            }
            obs.violation(
                format!("pl_to_tfm-output-rejected-by-reader:{}", variant_name(&e)),
                json!({"reader_error": format!("{e:?}"), "input": text_witness(text),
                       "output": bytes_witness(&bytes), "derived": how()}),
            );
        }
        Ok((Ok(mut f), dw)) => {
            obs.count("pl2tfm_output_readable");
            if !dw.is_empty() {
                // The only reader warning is "extra junk after the stated length": the writer's
                // own lf disagrees with what it wrote. Accepted, but not as the file it claims to
                // be - counted as a violation of the closure claim (never seen on the unchanged tree).
                obs.count("pl2tfm_output_reader_warnings");
                obs.violation(
                    format!("pl_to_tfm-output-framing:{}", variant_name(&dw[0])),
                    json!({"reader_warning": format!("{:?}", dw[0]), "input": text_witness(text),
                           "output": bytes_witness(&bytes), "derived": how()}),
                );
            }
            match catch(|| f.validate_and_fix().len()) {
                Ok(0) => obs.count("pl2tfm_output_validates_clean"),
                Ok(_) => obs.count("pl2tfm_output_validation_warnings"),
                Err(p) => {
                    obs.count("pl_panics");
                    obs.repo_panic(
                        &p,
                        json!({"direction": "validate(deserialize(pl_to_tfm(text)))",
                               "input": text_witness(text), "derived": how()}),
                    );
                }
            }
        }
    }
    Some(bytes)
}

/// Full chain for a byte string: TFM->PL, and if a PL came out, PL->TFM->reader.
fn chain_from_tfm(obs: &mut Obs, bytes: &[u8], fmt_k: u64, how: &dyn Fn() -> Value) -> bool {
    if let Some(pl) = check_tfm(obs, bytes, fmt_k, how) {
        let how2 = || json!({"pl_produced_by_tfm_to_pl_from": how(), "tfm_input": bytes_witness(bytes)});
        check_pl(obs, &pl, &how2);
        true
    } else {
        false
    }
}

/// Full chain for a text: PL->TFM->reader, then the output back through TFM->PL.
fn chain_from_pl(obs: &mut Obs, text: &str, how: &dyn Fn() -> Value) {
    if let Some(bytes) = check_pl(obs, text, how) {
        let how2 = || json!({"tfm_produced_by_pl_to_tfm_from": how(), "pl_input": text_witness(text)});
        check_tfm(obs, &bytes, text.len() as u64, &how2);
    }
}

// ------------------------------------------------------------------------------------------
// TFM header workloads

const WORD_NAMES: [&str; 12] = ["lf", "lh", "bc", "ec", "nw", "nh", "nd", "ni", "nl", "nk", "ne", "np"];

pub(crate) fn get_word(b: &[u8], w: usize) -> u16 {
    u16::from_be_bytes([b[2 * w], b[2 * w + 1]])
}
fn set_word(b: &mut [u8], w: usize, v: u16) {
    let [hi, lo] = v.to_be_bytes();
    b[2 * w] = hi;
    b[2 * w + 1] = lo;
}

/// lf as the format defines it, computed in wide arithmetic from the other eleven words.
pub(crate) fn consistent_lf(b: &[u8]) -> i64 {
    let g = |w: usize| get_word(b, w) as i16 as i64;
    6 + g(1) + (g(3) - g(2) + 1) + g(4) + g(5) + g(6) + g(7) + g(8) + g(9) + g(10) + g(11)
}

/// Short base files (16..64 bytes) into which header words are spliced.
fn short_templates() -> Vec<(&'static str, Vec<u8>)> {
    let mut v: Vec<(&'static str, Vec<u8>)> = vec![];
    for (name, len) in [("zeros16", 16usize), ("zeros20", 20), ("zeros24", 24), ("zeros28", 28), ("zeros64", 64)] {
        v.push((name, vec![0u8; len]));
    }
    // lf = len/4 and nothing else: the shape of the announced 16-byte panic
    for (name, len) in [("lf-only16", 16usize), ("lf-only20", 20), ("lf-only24", 24), ("lf-only32", 32)] {
        let mut b = vec![0u8; len];
        set_word(&mut b, 0, (len / 4) as u16);
        v.push((name, b));
    }
    // the smallest valid font: lh=2, no characters, one (zero) entry in each dimension table
    let mut min = vec![0u8; 48];
    for (w, val) in [(0, 12u16), (1, 2), (2, 1), (3, 0), (4, 1), (5, 1), (6, 1), (7, 1)] {
        set_word(&mut min, w, val);
    }
    v.push(("minimal-valid48", min.clone()));
    // same header but claiming only the 24 header bytes + 1 word
    let mut short = min.clone();
    short.truncate(28);
    set_word(&mut short, 0, 7);
    v.push(("valid-header-lf7-28", short));
    // a valid 64-byte font: one character 'A' with a lig program of one instruction, one kern,
    // one extensible recipe and one parameter
    let mut f = vec![0u8; 64];
    for (w, val) in [(0, 16u16), (1, 2), (2, 65), (3, 65), (4, 1), (5, 1), (6, 1), (7, 1), (8, 1), (9, 1), (10, 1), (11, 1)] {
        set_word(&mut f, w, val);
    }
    f[24 + 8] = 0; // char_info: width index 0 (absent), tag below
    f[24 + 8 + 2] = 1; // lig tag
    f[24 + 8 + 3] = 0;
    // lig/kern instruction: stop, next char 'A', kern 0
    f[24 + 8 + 4 + 16] = 128;
    f[24 + 8 + 4 + 17] = 65;
    f[24 + 8 + 4 + 18] = 128;
    v.push(("one-char-all-tables64", f));
    // 0xFF filler: every word negative
    v.push(("ff32", vec![0xFFu8; 32]));
    v
}

fn stride_values(tier: Tier, k: u64) -> Vec<u16> {
    match tier {
        Tier::Thorough => (0..=65535u16).collect(),
        Tier::Quick => {
            // every 17th value (phase shifted per case) plus the boundaries of every check
            let mut v: Vec<u16> = (0..65536u32)
                .filter(|x| (x + k as u32) % 17 == 0)
                .map(|x| x as u16)
                .collect();
            for b in [0u32, 1, 2, 3, 4, 5, 6, 7, 8, 11, 12, 13, 16, 17, 18, 19, 24, 127, 128, 254, 255, 256, 257, 511, 512,
                1023, 1024, 4095, 4096, 8191, 8192, 16383, 16384, 32000, 32766, 32767, 32768, 32769, 65280, 65534, 65535]
            {
                v.push(b as u16);
            }
            v.sort_unstable();
            v.dedup();
            v
        }
    }
}

// ------------------------------------------------------------------------------------------
// fixed reproducers for listed findings (phase "known")

fn known_cases() -> Vec<(&'static str, KnownInput)> {
    let mut v: Vec<(&'static str, KnownInput)> = vec![];
    // 1. 16-byte file with lf=4: passes the length checks, then `.get(0..24).expect(..)`
    let mut b = vec![0u8; 16];
    set_word(&mut b, 0, 4);
    v.push(("lf4-16-bytes", KnownInput::Tfm(b)));
    // 2. sub-file sizes summing past 2^15: i16 overflow in SubFileSizes::valid_lf
    let mut b = vec![0u8; 28];
    for (w, val) in [(0, 7u16), (1, 2), (2, 1), (3, 0), (4, 32767), (5, 1), (6, 1), (7, 1)] {
        set_word(&mut b, w, val);
    }
    v.push(("sizes-sum-past-2^15", KnownInput::Tfm(b)));
    // 3. LIGTABLE labels a character below the first CHARACTER
    v.push((
        "label-below-first-character",
        KnownInput::Pl("(LIGTABLE (LABEL C A) (KRN C B R 0.1) (STOP))\n(CHARACTER C B (CHARWD R 1.0))\n".into()),
    ));
    // 4. a valid font whose header is 257 words long (HEADER index 256 no longer fits in a u8)
    let lh = 257u16;
    let lf = 6 + lh + 4;
    let mut b = vec![0u8; lf as usize * 4];
    for (w, val) in [(0, lf), (1, lh), (2, 1), (3, 0), (4, 1), (5, 1), (6, 1), (7, 1)] {
        set_word(&mut b, w, val);
    }
    b[24 + 4] = 0x00; // design size 10.0
    b[24 + 5] = 0xA0;
    v.push(("header-257-words", KnownInput::Tfm(b)));
    // 5./6. warnings whose message is `todo!()`
    v.push((
        "warning-not-really-seven-bit-safe",
        KnownInput::Pl("(SEVENBITSAFEFLAG TRUE)\n(CHARACTER C A (NEXTLARGER O 377))\n(CHARACTER O 377)\n".into()),
    ));
    v.push(("warning-decimal-too-big", KnownInput::Pl("(DESIGNUNITS R 2048)\n".into())));
    // 7. kern of 16.0 reaches the assertion in FixWord::to_scaled through the cycle check
    v.push((
        "kern-16",
        KnownInput::Pl("(LIGTABLE (LABEL C A) (KRN C A R 16.0) (STOP))\n(CHARACTER C A (CHARWD R 1.0))\n".into()),
    ));
    // 8./9. lossy compression of 17 heights: difference / midpoint overflow i32
    let mut t = String::new();
    for i in 0..17 {
        t.push_str(&format!("(CHARACTER D {} (CHARWD R 1.0) (CHARHT R {}.0))\n", i, -2047 + i * 255));
    }
    v.push(("compress-range-4080", KnownInput::Pl(t)));
    let mut t = String::new();
    for i in 0..17 {
        t.push_str(&format!("(CHARACTER D {} (CHARWD R 1.0) (CHARHT R {}.0))\n", i, 1100 + i * 59));
    }
    v.push(("compress-midpoint-2259", KnownInput::Pl(t)));
    // 10./11./12. checksum computed for a width outside (-16, 16)
    v.push(("checksum-negative-width", KnownInput::Pl("(CHARACTER O 0 (CHARWD R -17.0))\n".into())));
    v.push(("checksum-large-width", KnownInput::Pl("(CHARACTER O 377 (CHARWD R 2000.0))\n".into())));
    v.push((
        "checksum-width-2^31-1",
        KnownInput::Pl("(CHARACTER O 0 (CHARWD R 1.0))\n(CHARACTER O 1 (CHARWD R 2027.999999))\n".into()),
    ));
    // 13. LIGTABLE one instruction past the limit plus a second warning: the sort key panics
    let mut t = String::from("(CHECKSUM X)\n(LIGTABLE (LABEL C A)\n");
    for i in 0..32511 {
        t.push_str(&format!("(KRN D {} R 0.{})", i % 256, i % 1000));
        if i % 8 == 7 {
            t.push('\n');
        }
    }
    t.push_str(")\n(CHARACTER C A (CHARWD R 1.0))\n");
    v.push(("ligtable-32511-instructions", KnownInput::Pl(t)));
    // 14. all 256 characters labelled beyond position 255: 256 entry-point redirections, the
    // counter of which is a u8
    let mut t = String::from("(LIGTABLE (LABEL BOUNDARYCHAR)\n");
    for i in 0..256 {
        t.push_str(&format!(" (KRN D {} R 0.{})\n", i, i));
    }
    t.push_str(" (STOP)\n");
    for c in 0..256 {
        t.push_str(&format!(" (LABEL D {c}) (KRN D {c} R 0.5) (STOP)\n"));
    }
    t.push_str(")\n");
    for c in 0..256 {
        t.push_str(&format!("(CHARACTER D {c} (CHARWD R 0.5))\n"));
    }
    v.push(("256-entry-point-redirections", KnownInput::Pl(t)));
    // 15. a warning that pltotf reports one character past the end of a file that ends in a
    // newline: rendering it looks for a line that `str::lines` does not yield
    v.push(("warning-context-past-final-newline", KnownInput::Pl("(HEADER\n".into())));
    v
}

enum KnownInput {
    Tfm(Vec<u8>),
    Pl(String),
}

// ------------------------------------------------------------------------------------------
// phases

const SHIFT_DELTAS: [i32; 14] = [1, -1, 3, -17, 100, -255, 2, -2, -3, 5, -5, 17, -100, 255];
fn shift_deltas(tier: Tier) -> &'static [i32] {
    match tier {
        Tier::Quick => &SHIFT_DELTAS[..6],
        Tier::Thorough => &SHIFT_DELTAS[..],
    }
}

/// Number of mutated byte positions per corpus font. One conversion costs time proportional to
/// the size of the property list the font converts to (measured ~40 ns per byte of PL for the
/// whole chain), which is not predictable from the size of the font (many-entrypoints.tfm: 2 KB
/// of TFM, 750 KB of PL), so the unmutated font is converted once to size its share.
fn mut_slots(tier: Tier, font: usize) -> usize {
    static PL_LEN: std::sync::OnceLock<Vec<usize>> = std::sync::OnceLock::new();
    let pl_len = PL_LEN.get_or_init(|| {
        corpus()
            .tfm
            .iter()
            .map(|(_, b)| {
                let r = catch(|| tfm::algorithms::tfm_to_pl(b, 3, &|_| Default::default()));
                match r {
                    Ok(Ok(o)) => o.pl_data.map(|s| s.len()).unwrap_or(200),
                    _ => b.len() * 20,
                }
            })
            .collect()
    });
    let len = corpus().tfm[font].1.len();
    // conversions affordable for this font
    let budget_ns: f64 = match tier {
        Tier::Quick => 4.0e9,
        Tier::Thorough => 30e9,
    };
    let per_conv_ns = 20_000.0 + 40.0 * pl_len[font] as f64;
    let values_per_slot = match tier {
        Tier::Quick => 6.0,
        Tier::Thorough => 12.0,
    };
    let slots = (budget_ns / per_conv_ns / values_per_slot) as usize;
    len.min(slots.max(96))
}

const NEST_DEPTHS_QUICK: [usize; 6] = [1, 10, 100, 1000, 10_000, 30_000];
const NEST_DEPTHS_THOROUGH: [usize; 9] = [1, 10, 100, 1000, 10_000, 30_000, 100_000, 300_000, 1_000_000];
const NEST_SHAPES: usize = 8;

fn nest_text(shape: usize, depth: usize) -> (String, &'static str) {
    let mut s = String::new();
    match shape {
        0 => {
            for _ in 0..depth {
                s.push('(');
            }
            (s, "open-only")
        }
        1 => {
            for _ in 0..depth {
                s.push(')');
            }
            (s, "close-only")
        }
        2 => {
            for _ in 0..depth {
                s.push_str("(A ");
            }
            for _ in 0..depth {
                s.push(')');
            }
            (s, "balanced-unknown-names")
        }
        3 => {
            s.push_str("(COMMENT ");
            for _ in 0..depth {
                s.push('(');
            }
            s.push_str("x");
            for _ in 0..depth {
                s.push(')');
            }
            s.push(')');
            (s, "balanced-inside-comment")
        }
        4 => {
            s.push_str("(COMMENT ");
            for _ in 0..depth {
                s.push('(');
            }
            (s, "open-only-inside-comment")
        }
        5 => {
            s.push_str("(CHARACTER C A (VARCHAR (TOP ");
            for _ in 0..depth {
                s.push_str("(REP C A ");
            }
            for _ in 0..depth {
                s.push(')');
            }
            s.push_str(")))");
            (s, "balanced-inside-varchar")
        }
        6 => {
            for _ in 0..depth {
                s.push_str("(CHARACTER C A ");
            }
            for _ in 0..depth {
                s.push(')');
            }
            (s, "nested-character-lists")
        }
        _ => {
            for _ in 0..depth {
                s.push_str("(LIGTABLE (LABEL C A)");
            }
            (s, "nested-ligtables-unclosed")
        }
    }
}

impl Monitor for M {
    fn id(&self) -> &'static str {
        "C10"
    }

    fn rule(&self) -> String {
        "Inputs: (hdr-short) each of the twelve 16-bit header words set to every value (quick: every 17th + boundaries) \
         in short base files of 16..64 bytes, raw and with lf re-made consistent; (hdr-rand) all twelve words drawn from a \
         hostile distribution; (hdr-corpus) the same splice into every corpus font; (hdr-shift) two size words moved in \
         opposite directions so that the total stays consistent and the tables shift; (trunc) every prefix of every corpus \
         font, raw and with lf patched; (mut1/mut2) single and double byte mutations of every corpus font; (pl-corpus) \
         every corpus property list, plain, with other line endings, lower-cased and cut at 40 points; (pl-mut) 1-4 \
         token-level mutations of a corpus property list (drop/duplicate/swap/move lists, malformed and out-of-range \
         numbers in every radix, labels for undeclared characters, LIGTABLE first / no CHARACTER, hostile extra \
         properties, grafts, parenthesis edits); (pl-gen) small property lists drawn from the whole grammar with hostile \
         values; (pl-big) structured lists that stress table sizes; (pl-nest) nesting up to 10^4 (quick) / 10^6 \
         (thorough) levels. A case is non-trivial if the code under test was called on it; distinct = hash of the \
         input bytes/text (enumerated header splices are distinct by construction)."
            .into()
    }

    fn assumptions(&self) -> Vec<String> {
        vec![
            "\"documented error\" = any value of tfm::DeserializationError returned in TfmToPlOutput.pl_data; an Err(fmt::Error) from tfm_to_pl would be a violation".into(),
            "rendering messages (TfmToPlErrorMessage::tftopl_message, DeserializationError::tftopl_message, ParseWarning::pltotf_message) is executed under the same crash oracle because the tftopl/pltotf binaries (anchors of the property) do exactly that with every returned warning".into(),
            "\"accepted by the TFM reader\" = tfm::File::deserialize(out).0 is Ok and the reader raises no DeserializationWarning (its only one: bytes after the stated length, i.e. the writer's lf disagrees with what it wrote); validation warnings on PL->TFM output are counted, not failed".into(),
            "cases run on a 1 GiB stack (runner default); behaviour of deep nesting on the default 8 MiB stack is probed separately and reported in NOTES.md".into(),
            "property lists are valid UTF-8 (pl_to_tfm takes &str; the binary refuses other files before the library is reached)".into(),
        ]
    }

    fn phases(&self, tier: Tier) -> Vec<Phase> {
        let c = corpus();
        let nt = c.tfm.len().max(1) as u64;
        let np = c.pl.len().max(1) as u64;
        let ntempl = short_templates().len() as u64;
        let total_len: u64 = c.tfm.iter().map(|(_, b)| b.len() as u64).sum();
        let total_slots: u64 = (0..c.tfm.len()).map(|f| mut_slots(tier, f) as u64).sum();
        let nest = match tier {
            Tier::Quick => NEST_DEPTHS_QUICK.len(),
            Tier::Thorough => NEST_DEPTHS_THOROUGH.len(),
        } as u64;
        let mut v = vec![
            Phase::new("known", known_cases().len() as u64).batch(1),
            Phase::new("hdr-short", ntempl * 12 * 2).batch(1),
            Phase::new("hdr-rand", tier.pick(150_000, 3_000_000)).batch(2048),
            Phase::new("hdr-corpus", nt * 12).batch(1),
            Phase::new("hdr-shift", nt * 110 * shift_deltas(tier).len() as u64).batch(64),
            Phase::new("trunc", total_len.div_ceil(512)).batch(8),
            Phase::new("mut1", total_slots.max(1)).batch(32),
            Phase::new("mut2", tier.pick(50_000, 600_000)).batch(64),
            // every INDEX-valued field inside the tables of every corpus font set to the values
            // around its limit (limit-1, limit, limit+1, field maximum): one idx = one font
            Phase::new("idx-bound", nt).batch(1),
            Phase::new("pl-corpus", np * 44).batch(4),
            Phase::new("pl-mut", tier.pick(45_000, 500_000)).batch(16),
            Phase::new("pl-gen", tier.pick(500_000, 6_000_000)).batch(512),
            Phase::new("pl-big", tier.pick(660, 11_000)).batch(2),
            Phase::new("pl-nest", nest * NEST_SHAPES as u64).batch(1),
        ];
        if tier == Tier::Thorough {
            v[1] = v[1].clone().exhaustive("all 2^16 values of each of the 12 header words x short base files x {raw, lf made consistent}");
            v[3] = v[3].clone().exhaustive("all 2^16 values of each of the 12 header words x every corpus font");
        }
        v
    }

    fn floors(&self, tier: Tier) -> Vec<(&'static str, u64)> {
        let q = tier == Tier::Quick;
        vec![
            ("tfm_inputs", if q { 1_000_000 } else { 40_000_000 }),
            ("pl_inputs", if q { 500_000 } else { 6_000_000 }),
            ("tfm_ok_clean", 1_000),
            ("tfm_ok_with_warnings", 10_000),
            ("tfm_err:InternalFileLengthIsTooBig", 1_000),
            ("tfm_err:InternalFileLengthIsTooSmall", 10),
            ("tfm_err:SubFileSizeIsNegative", 1_000),
            ("tfm_err:HeaderLengthIsTooSmall", 10),
            ("tfm_err:InvalidCharacterRange", 100),
            ("tfm_err:IncompleteSubFiles", 10),
            ("tfm_err:TooManyExtensibleCharacters", 10),
            ("tfm_err:InconsistentSubFileSizes", 1_000),
            ("pl_ok_clean", 1_000),
            ("pl_ok_with_warnings", 10_000),
            ("pl2tfm_output_readable", 100_000),
            ("hdr_short_cases", 200),
            ("hdr_corpus_cases", 1_000),
            ("hdr_shift_parsed", 1_000),
            ("trunc_inputs", 100_000),
            ("mut1_inputs", 100_000),
            ("pl_mut_cases", if q { 40_000 } else { 450_000 }),
            ("pl_mut:number", 1_000),
            ("pl_mut:drop", 1_000),
            ("pl_mut:duplicate", 1_000),
            ("pl_mut:label-undeclared", 500),
            ("pl_mut:ligtable-first", 500),
            ("pl_mut:drop-characters", 500),
            ("pl_mut:del-paren", 500),
            ("pl_nest_cases", 40),
            ("pl_nest_depth>=10000", 8),
            ("corpus_tfm_files", 90),
            ("corpus_pl_files", 95),
        ]
    }

    fn calibrate(&self, obs: &mut Obs) {
        // No reference model to calibrate. Check that the corpus is where we expect it and that
        // the harness reaches the real code: the recorded goldens must convert without panic.
        let c = corpus();
        for p in &c.problems {
            obs.inconclusive(format!("corpus file unreadable: {p}"));
        }
        obs.add("corpus_tfm_files", c.tfm.len() as u64);
        obs.add("corpus_pl_files", c.pl.len() as u64);
        if c.tfm.len() < 90 || c.pl.len() < 95 {
            obs.inconclusive(format!(
                "corpus not found or incomplete under {} ({} tfm, {} pl)",
                c.root.display(),
                c.tfm.len(),
                c.pl.len()
            ));
        }
    }

    fn watchdog_s(&self, tier: Tier) -> u64 {
        match tier {
            Tier::Quick => 900,
            Tier::Thorough => 5 * 3600,
        }
    }

    fn run_case(&self, phase: &str, idx: u64, rng: &mut Rng, obs: &mut Obs) {
        // wall time per phase is recorded as an observation only (it sizes the tiers); nothing
        // that is generated or decided depends on it
        let t0 = std::time::Instant::now();
        self.run_case_inner(phase, idx, rng, obs);
        obs.add(&format!("cpu_us:{phase}"), t0.elapsed().as_micros() as u64);
    }
}

impl M {
    fn run_case_inner(&self, phase: &str, idx: u64, rng: &mut Rng, obs: &mut Obs) {
        let c = corpus();
        if idx == 0 {
            // make the corpus size visible in the run's own counters (floors are checked on these)
            if phase == "known" {
                obs.add("corpus_tfm_files", c.tfm.len() as u64);
                obs.add("corpus_pl_files", c.pl.len() as u64);
            }
        }
        match phase {
            "known" => {
                let cases = known_cases();
                let (name, input) = &cases[idx as usize];
                let how = || json!({"fixed_reproducer": name});
                obs.nontrivial(&("known", *name));
                match input {
                    KnownInput::Tfm(b) => {
                        chain_from_tfm(obs, b, 0, &how);
                    }
                    KnownInput::Pl(t) => chain_from_pl(obs, t, &how),
                }
                if obs.wants_sample() {
                    obs.sample(json!({"fixed_reproducer": name}));
                }
            }
            "hdr-short" => {
                let templ = short_templates();
                let t = (idx / 24) as usize;
                let w = ((idx / 2) % 12) as usize;
                let consistent = idx % 2 == 1;
                let (tname, base) = &templ[t];
                let values = stride_values(obs.tier, idx);
                obs.count("hdr_short_cases");
                let mut n = 0u64;
                for &v in &values {
                    let mut b = base.clone();
                    if b.len() < 2 * w + 2 {
                        b.resize(2 * w + 2, 0);
                    }
                    set_word(&mut b, w, v);
                    if consistent && b.len() >= 24 && w != 0 {
                        // make lf agree with the other words (mod 2^16) and give the file the
                        // claimed length when that stays small; otherwise keep the short file
                        let lf = consistent_lf(&b);
                        set_word(&mut b, 0, lf as u16);
                        if (1..=64).contains(&lf) {
                            b.resize((lf as usize) * 4, 0);
                        }
                    } else if consistent && w == 0 {
                        // lf itself: give the file exactly the claimed length when small
                        let lf = v as i16 as i64;
                        if (1..=64).contains(&lf) {
                            b.resize((lf as usize) * 4, 0);
                        }
                    }
                    let how = || json!({"template": tname, "word": WORD_NAMES[w], "value": v, "lf_made_consistent": consistent});
                    chain_from_tfm(obs, &b, v as u64, &how);
                    n += 1;
                }
                obs.nontrivial_by_construction(n);
                if obs.wants_sample() {
                    obs.sample(json!({"template": tname, "word": WORD_NAMES[w], "lf_made_consistent": consistent, "values_tried": n}));
                }
            }
            "hdr-rand" => {
                const HOSTILE: [u16; 24] = [0, 1, 2, 3, 4, 6, 7, 12, 16, 17, 18, 64, 127, 128, 255, 256, 257, 1000, 8191, 16384, 32767, 32768, 65535, 65280];
                let len = *rng.pick(&[16usize, 20, 24, 28, 32, 40, 48, 64, 96, 128, 256]);
                let mut b = vec![0u8; len];
                if rng.chance(1, 3) {
                    for x in b.iter_mut() {
                        *x = rng.next_u32() as u8;
                    }
                }
                let nwords = (len / 2).min(12);
                for w in 0..nwords {
                    let v = match rng.below(10) {
                        0..=4 => *rng.pick(&HOSTILE),
                        5..=7 => rng.below(8) as u16,
                        8 => rng.below(300) as u16,
                        _ => rng.next_u32() as u16,
                    };
                    set_word(&mut b, w, v);
                }
                let mode = rng.below(4);
                if b.len() >= 24 && mode >= 1 {
                    let lf = consistent_lf(&b);
                    set_word(&mut b, 0, lf as u16);
                    if mode >= 2 && (1..=2048).contains(&lf) {
                        let old = b.len();
                        b.resize((lf as usize) * 4, 0);
                        if mode == 3 {
                            for x in b.iter_mut().skip(old.min(24)) {
                                *x = rng.next_u32() as u8;
                            }
                        }
                    }
                }
                obs.nontrivial(&b);
                let how = || json!({"random_header": true, "mode": mode});
                chain_from_tfm(obs, &b, idx, &how);
                if obs.wants_sample() {
                    obs.sample(json!({"random_header_hex": hex(&b[..b.len().min(24)]), "len": b.len()}));
                }
            }
            "hdr-corpus" => {
                if c.tfm.is_empty() {
                    obs.inconclusive("no corpus fonts");
                    return;
                }
                let f = (idx / 12) as usize % c.tfm.len();
                let w = (idx % 12) as usize;
                let (name, base) = &c.tfm[f];
                if base.len() < 24 {
                    obs.skip("corpus-font-shorter-than-24-bytes");
                    return;
                }
                obs.count("hdr_corpus_cases");
                let mut b = base.clone();
                let orig = get_word(&b, w);
                let values = stride_values(obs.tier, idx);
                let mut n = 0u64;
                for &v in &values {
                    set_word(&mut b, w, v);
                    let how = || json!({"corpus_font": name, "word": WORD_NAMES[w], "value": v, "original": orig});
                    chain_from_tfm(obs, &b, v as u64, &how);
                    n += 1;
                }
                obs.nontrivial_by_construction(n);
                if obs.wants_sample() {
                    obs.sample(json!({"corpus_font": name, "word": WORD_NAMES[w], "values_tried": n}));
                }
            }
            "hdr-shift" => {
                if c.tfm.is_empty() {
                    obs.inconclusive("no corpus fonts");
                    return;
                }
                let deltas = shift_deltas(obs.tier);
                let nd = deltas.len() as u64;
                let d = deltas[(idx % nd) as usize];
                let pair = (idx / nd) % 110;
                let f = ((idx / nd / 110) as usize) % c.tfm.len();
                // ordered pair (x, y) of distinct words among 1..=11
                let x = 1 + (pair / 10) as usize;
                let mut y = 1 + (pair % 10) as usize;
                if y >= x {
                    y += 1;
                }
                let (name, base) = &c.tfm[f];
                if base.len() < 24 {
                    obs.skip("corpus-font-shorter-than-24-bytes");
                    return;
                }
                let mut b = base.clone();
                // bc enters the total negatively
                let sx = if x == 2 { -1 } else { 1 };
                let sy = if y == 2 { -1 } else { 1 };
                let vx = get_word(&b, x) as i16 as i32 + sx * d;
                let vy = get_word(&b, y) as i16 as i32 - sy * d;
                set_word(&mut b, x, vx as u16);
                set_word(&mut b, y, vy as u16);
                obs.nontrivial(&(f, x, y, d));
                let how = || json!({"corpus_font": name, "shift": {"word_up": WORD_NAMES[x], "word_down": WORD_NAMES[y], "delta": d}});
                if chain_from_tfm(obs, &b, idx, &how) {
                    obs.count("hdr_shift_parsed");
                }
                if obs.wants_sample() {
                    obs.sample(how());
                }
            }
            "idx-bound" => {
                let (name, base) = &c.tfm[(idx as usize) % c.tfm.len()];
                let n = idx_bound_sweep(obs, name, base, idx, rng);
                obs.add("idx-bound:inputs", n);
                obs.nontrivial_by_construction(n.max(1));
            }
            "trunc" => {
                // idx enumerates 512-byte chunks of the concatenation of all corpus fonts
                let mut lo = idx * 512;
                let mut file = None;
                for (i, (_, b)) in c.tfm.iter().enumerate() {
                    if lo < b.len() as u64 {
                        file = Some(i);
                        break;
                    }
                    lo -= b.len() as u64;
                }
                let Some(f) = file else {
                    obs.skip("trunc-chunk-past-corpus-end");
                    return;
                };
                let (name, base) = &c.tfm[f];
                let hi = ((lo as usize) + 512).min(base.len());
                let mut n = 0u64;
                for len in (lo as usize)..hi {
                    let t = &base[..len];
                    let how = || json!({"corpus_font": name, "truncated_to": len});
                    chain_from_tfm(obs, t, len as u64, &how);
                    n += 1;
                    if len >= 2 {
                        // same prefix, lf patched to the words actually present
                        let mut p = t.to_vec();
                        set_word(&mut p, 0, (len / 4) as u16);
                        let how = || json!({"corpus_font": name, "truncated_to": len, "lf_patched_to": len / 4});
                        chain_from_tfm(obs, &p, len as u64, &how);
                        n += 1;
                    }
                }
                obs.add("trunc_inputs", n);
                obs.nontrivial_by_construction(n);
                if obs.wants_sample() {
                    obs.sample(json!({"corpus_font": name, "prefix_lengths": [lo, hi]}));
                }
            }
            "mut1" => {
                // idx enumerates mutation slots font by font
                let mut k = idx as usize;
                let mut file = None;
                for i in 0..c.tfm.len() {
                    let s = mut_slots(obs.tier, i);
                    if k < s {
                        file = Some((i, s));
                        break;
                    }
                    k -= s;
                }
                let Some((f, slots)) = file else {
                    obs.skip("mut1-slot-past-corpus-end");
                    return;
                };
                let (name, base) = &c.tfm[f];
                // slot -> position: all positions if affordable, else the first 64 bytes (sizes and
                // start of the header) exactly and the rest evenly spread with jitter
                let pos = if slots == base.len() || k < 64 {
                    k
                } else {
                    let rest = base.len() - 64;
                    let step = rest as f64 / (slots - 64) as f64;
                    let p = 64 + ((k - 64) as f64 * step) as usize + rng.usize_below(step.max(1.0) as usize);
                    p.min(base.len() - 1)
                };
                let orig = base[pos];
                let nvals = match obs.tier {
                    Tier::Quick => 3,
                    Tier::Thorough => 9,
                };
                let mut vals: Vec<u8> = vec![orig.wrapping_add(1), orig.wrapping_sub(1), orig ^ 0x80];
                for _ in 0..nvals {
                    vals.push(match rng.below(4) {
                        0 => *rng.pick(&[0u8, 1, 2, 3, 127, 128, 129, 254, 255]),
                        _ => rng.next_u32() as u8,
                    });
                }
                vals.sort_unstable();
                vals.dedup();
                vals.retain(|v| *v != orig);
                let mut b = base.clone();
                for &v in &vals {
                    b[pos] = v;
                    let how = || json!({"corpus_font": name, "byte": pos, "from": orig, "to": v});
                    chain_from_tfm(obs, &b, pos as u64 + v as u64, &how);
                    obs.nontrivial(&(f, pos, v));
                }
                obs.add("mut1_inputs", vals.len() as u64);
                if obs.wants_sample() {
                    obs.sample(json!({"corpus_font": name, "byte": pos, "from": orig, "to": vals}));
                }
            }
            "mut2" => {
                if c.tfm.is_empty() {
                    obs.inconclusive("no corpus fonts");
                    return;
                }
                // prefer small fonts (cost), but visit all
                let f = loop {
                    let f = rng.usize_below(c.tfm.len());
                    if c.tfm[f].1.len() < 12_000 || rng.chance(1, 40) {
                        break f;
                    }
                };
                let (name, base) = &c.tfm[f];
                if base.is_empty() {
                    obs.skip("empty-corpus-font");
                    return;
                }
                let mut b = base.clone();
                let p1 = if rng.coin() { rng.usize_below(b.len().min(64)) } else { rng.usize_below(b.len()) };
                let p2 = if rng.coin() {
                    (p1 + 1 + rng.usize_below(8)).min(b.len() - 1)
                } else {
                    rng.usize_below(b.len())
                };
                let v1 = rng.next_u32() as u8;
                let v2 = if rng.coin() { rng.next_u32() as u8 } else { *rng.pick(&[0u8, 1, 127, 128, 255]) };
                b[p1] = v1;
                b[p2] = v2;
                if rng.chance(1, 5) {
                    // and repair lf so that a size edit survives the consistency check
                    let lf = consistent_lf(&b);
                    if (1..=32767).contains(&lf) && (lf as usize) * 4 <= b.len() {
                        set_word(&mut b, 0, lf as u16);
                    }
                }
                obs.nontrivial(&(f, p1, v1, p2, v2));
                let how = || json!({"corpus_font": name, "bytes": [[p1, v1], [p2, v2]]});
                chain_from_tfm(obs, &b, idx, &how);
                if obs.wants_sample() {
                    obs.sample(how());
                }
            }
            "pl-corpus" => {
                if c.pl.is_empty() {
                    obs.inconclusive("no corpus property lists");
                    return;
                }
                let f = (idx / 44) as usize % c.pl.len();
                let variant = idx % 44;
                let (name, base) = &c.pl[f];
                let text: String = match variant {
                    0 => base.clone(),
                    1 => base.replace('\n', "\r\n"),
                    2 => base.to_ascii_lowercase(),
                    3 => base.replace('\n', " "),
                    k => {
                        // cut at one of 40 evenly spaced points
                        let mut cut = base.len() * (k as usize - 3) / 41;
                        while !base.is_char_boundary(cut) {
                            cut -= 1;
                        }
                        base[..cut].to_string()
                    }
                };
                obs.nontrivial(&(f, variant));
                let how = || json!({"corpus_pl": name, "variant": variant});
                chain_from_pl(obs, &text, &how);
                if obs.wants_sample() {
                    obs.sample(how());
                }
            }
            "pl-mut" => {
                if c.pl.is_empty() {
                    obs.inconclusive("no corpus property lists");
                    return;
                }
                // small files more often (cost), every file regularly
                let f = if rng.chance(1, 3) {
                    (idx as usize) % c.pl.len()
                } else {
                    loop {
                        let f = rng.usize_below(c.pl.len());
                        if c.pl[f].1.len() < 40_000 || rng.chance(1, 20) {
                            break f;
                        }
                    }
                };
                let d = rng.usize_below(c.pl.len());
                let (name, base) = &c.pl[f];
                let mut tree = plmut::parse(base);
                let donor = if c.pl[d].1.len() < 60_000 { plmut::parse(&c.pl[d].1) } else { vec![] };
                let mut log: plmut::Log = vec![];
                let n_tree = rng.range_usize(0, 3);
                for _ in 0..n_tree {
                    plmut::mutate_tree(rng, &mut tree, &donor, &mut log);
                }
                let mut text = String::new();
                plmut::render(&tree, &mut text);
                let n_text = if n_tree == 0 { rng.range_usize(1, 2) } else { rng.range_usize(0, 1) };
                for _ in 0..n_text {
                    plmut::mutate_text(rng, &mut text, &mut log);
                }
                obs.count("pl_mut_cases");
                for l in &log {
                    obs.count(&format!("pl_mut:{l}"));
                }
                obs.nontrivial(&text);
                let how = || json!({"corpus_pl": name, "mutations": log});
                chain_from_pl(obs, &text, &how);
                if obs.wants_sample() {
                    obs.sample(how());
                }
            }
            "pl-gen" => {
                let text = plmut::gen_pl(rng);
                obs.nontrivial(&text);
                let how = || json!({"generated": "grammar"});
                chain_from_pl(obs, &text, &how);
                if obs.wants_sample() {
                    obs.sample(json!({"generated": text_witness(&text)}));
                }
            }
            "pl-big" => {
                let (text, kind) = plmut::gen_big_pl(rng, idx);
                obs.count(&format!("pl_big:{kind}"));
                obs.nontrivial(&text);
                let how = || json!({"generated": kind});
                chain_from_pl(obs, &text, &how);
                if obs.wants_sample() {
                    obs.sample(json!({"generated": kind, "len": text.len()}));
                }
            }
            "pl-nest" => {
                let shape = (idx as usize) % NEST_SHAPES;
                let di = (idx as usize) / NEST_SHAPES;
                let depth = match obs.tier {
                    Tier::Quick => NEST_DEPTHS_QUICK[di.min(NEST_DEPTHS_QUICK.len() - 1)],
                    Tier::Thorough => NEST_DEPTHS_THOROUGH[di.min(NEST_DEPTHS_THOROUGH.len() - 1)],
                };
                let (text, sname) = nest_text(shape, depth);
                obs.count("pl_nest_cases");
                if depth >= 10_000 {
                    obs.count("pl_nest_depth>=10000");
                }
                obs.nontrivial(&(shape, depth));
                let how = || json!({"nesting_shape": sname, "depth": depth});
                chain_from_pl(obs, &text, &how);
                if obs.wants_sample() {
                    obs.sample(how());
                }
            }
            "probe-default-stack" => {
                // Development probe, not part of any tier (see NOTES.md): run one nesting case on
                // a thread with the default 8 MiB main-thread stack. A stack overflow kills the
                // process (SIGSEGV/SIGABRT), which is the observation.
                //   c10 --case probe-default-stack <shape + 8*depth>
                let shape = (idx % 8) as usize;
                let depth = (idx / 8) as usize;
                let (text, sname) = nest_text(shape, depth);
                println!("probe: shape {sname} depth {depth} on an 8 MiB stack");
                let h = std::thread::Builder::new()
                    .stack_size(8 << 20)
                    .spawn(move || {
                        let r = catch(|| tfm::algorithms::pl_to_tfm(&text));
                        match r {
                            Ok((b, w)) => println!("probe: returned {} bytes, {} warnings", b.len(), w.len()),
                            Err(p) => println!("probe: panic {}", p.signature()),
                        }
                    })
                    .expect("spawn");
                let _ = h.join();
            }
            other => obs.inconclusive(format!("unknown phase {other}")),
        }
    }

}


// ------------------------------------------------------------------------------------------------
// idx-bound: index-valued fields at and around their limits
// ------------------------------------------------------------------------------------------------

/// The twelve header words of a .tfm (TFtoPL §8): lf lh bc ec nw nh nd ni nl nk ne np.
fn header_words(b: &[u8]) -> Option<[usize; 12]> {
    if b.len() < 24 {
        return None;
    }
    let mut w = [0usize; 12];
    for (i, x) in w.iter_mut().enumerate() {
        *x = u16::from_be_bytes([b[2 * i], b[2 * i + 1]]) as usize;
    }
    Some(w)
}

/// For one font: walk its char_info, lig_kern and exten tables and set every field that is an
/// INDEX into another table (or a character code that must exist) to the values around its limit.
/// Each variant is one input to the TFM->PL->TFM chain under the panic oracle. Returns the number
/// of inputs tried. (A reader that checks `>` where it must check `>=` survives random byte
/// mutations - the exact limit is one value in 256 or 65536 - but not this sweep.)
fn idx_bound_sweep(obs: &mut Obs, name: &str, base: &[u8], idx: u64, rng: &mut Rng) -> u64 {
    let Some([lf, lh, bc, ec, nw, nh, nd, ni, nl, nk, ne, _np]) = header_words(base) else {
        obs.skip("idx-bound:file-too-short");
        return 0;
    };
    if lf * 4 != base.len() || ec < bc || ec > 255 {
        obs.skip("idx-bound:header-not-consistent");
        return 0;
    }
    let nc = ec - bc + 1;
    let char_info = 24 + 4 * lh;
    let lig_kern = char_info + 4 * (nc + nw + nh + nd + ni);
    let exten = lig_kern + 4 * (nl + nk);
    if exten + 4 * ne > base.len() {
        obs.skip("idx-bound:tables-past-end");
        return 0;
    }
    let around = |limit: usize, max: usize| -> Vec<usize> {
        let mut v = vec![limit.saturating_sub(1), limit, limit + 1, max, 0];
        v.retain(|x| *x <= max);
        v.sort_unstable();
        v.dedup();
        v
    };
    let mut n = 0u64;
    let mut try_variant = |obs: &mut Obs, bytes: &[u8], what: String| {
        let how = || json!({"corpus_font": name, "field_set_to_boundary": what});
        chain_from_tfm(obs, bytes, idx, &how);
    };
    // a bounded sample of table positions per font keeps the phase at a few thousand inputs per font
    let pick_positions = |rng: &mut Rng, count: usize, k: usize| -> Vec<usize> {
        if count <= k {
            (0..count).collect()
        } else {
            let mut v: Vec<usize> = (0..k).map(|_| rng.usize_below(count)).collect();
            v.push(0);
            v.push(count - 1);
            v.sort_unstable();
            v.dedup();
            v
        }
    };
    // ---- char_info words
    for c in pick_positions(rng, nc, 12) {
        let o = char_info + 4 * c;
        for v in around(nw, 255) {
            let mut b = base.to_vec();
            b[o] = v as u8;
            try_variant(obs, &b, format!("char {} width_index={v} (nw={nw})", bc + c));
            n += 1;
        }
        for v in around(nh, 15) {
            let mut b = base.to_vec();
            b[o + 1] = ((v as u8) << 4) | (b[o + 1] & 0x0f);
            try_variant(obs, &b, format!("char {} height_index={v} (nh={nh})", bc + c));
            n += 1;
        }
        for v in around(nd, 15) {
            let mut b = base.to_vec();
            b[o + 1] = (b[o + 1] & 0xf0) | (v as u8);
            try_variant(obs, &b, format!("char {} depth_index={v} (nd={nd})", bc + c));
            n += 1;
        }
        for v in around(ni, 63) {
            let mut b = base.to_vec();
            b[o + 2] = ((v as u8) << 2) | (b[o + 2] & 0x03);
            try_variant(obs, &b, format!("char {} italic_index={v} (ni={ni})", bc + c));
            n += 1;
        }
        // tag 1: lig/kern program start; tag 2: next larger; tag 3: extensible recipe
        for (tag, limits) in [(1u8, around(nl, 255)), (2, around(ec, 255)), (3, around(ne, 255))] {
            for v in limits {
                let mut b = base.to_vec();
                b[o + 2] = (b[o + 2] & 0xfc) | tag;
                b[o + 3] = v as u8;
                try_variant(obs, &b, format!("char {} tag={tag} remainder={v} (nl={nl} ec={ec} ne={ne})", bc + c));
                n += 1;
            }
            if tag == 2 && bc > 0 {
                let mut b = base.to_vec();
                b[o + 2] = (b[o + 2] & 0xfc) | 2;
                b[o + 3] = (bc - 1) as u8;
                try_variant(obs, &b, format!("char {} next_larger={} (below bc={bc})", bc + c, bc - 1));
                n += 1;
            }
        }
    }
    // ---- lig/kern words
    for j in pick_positions(rng, nl, 16) {
        let o = lig_kern + 4 * j;
        // entry-point redirect (skip byte > 128): target = 256*op + remainder
        for v in around(nl, 65535) {
            let mut b = base.to_vec();
            b[o] = 255;
            b[o + 2] = (v >> 8) as u8;
            b[o + 3] = (v & 255) as u8;
            try_variant(obs, &b, format!("lig/kern step {j}: redirect to {v} (nl={nl})"));
            n += 1;
        }
        // kern step (op >= 128): index = 256*(op-128) + remainder
        for v in around(nk, 32767) {
            let mut b = base.to_vec();
            b[o] &= 127;
            b[o + 2] = 128 + (v >> 8) as u8;
            b[o + 3] = (v & 255) as u8;
            try_variant(obs, &b, format!("lig/kern step {j}: kern index {v} (nk={nk})"));
            n += 1;
        }
        // ligature step: replacement and right character around the character range
        for v in [bc.saturating_sub(1), bc, ec, (ec + 1).min(255), 255] {
            let mut b = base.to_vec();
            b[o] &= 127;
            b[o + 2] = (rng.below(12) as u8).min(11);
            b[o + 3] = v as u8;
            try_variant(obs, &b, format!("lig/kern step {j}: ligature replacement char {v} (bc={bc} ec={ec})"));
            n += 1;
            let mut b = base.to_vec();
            b[o + 1] = v as u8;
            try_variant(obs, &b, format!("lig/kern step {j}: right char {v} (bc={bc} ec={ec})"));
            n += 1;
        }
        // skip amounts up to the end of the table and the field maximum
        for v in [nl.saturating_sub(j + 1).min(127), nl.saturating_sub(j).min(127), 127, 128] {
            let mut b = base.to_vec();
            b[o] = v as u8;
            try_variant(obs, &b, format!("lig/kern step {j}: skip byte {v} (nl={nl})"));
            n += 1;
        }
    }
    // ---- extensible recipes: four character codes each
    for e in pick_positions(rng, ne, 6) {
        let o = exten + 4 * e;
        for part in 0..4 {
            for v in [bc.saturating_sub(1), ec, (ec + 1).min(255), 255, 0] {
                let mut b = base.to_vec();
                b[o + part] = v as u8;
                try_variant(obs, &b, format!("exten {e} part {part} = char {v} (bc={bc} ec={ec})"));
                n += 1;
            }
        }
    }
    obs.count("idx-bound:fonts");
    n
}
