fn main() {
    vcore::run_main(&c10::MONITOR)
}
