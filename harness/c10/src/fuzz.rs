//! Entry points for the libFuzzer targets in `c10/fuzz` (thorough tier, stage script
//! /verif/stages/C10.sh). Same oracle as the monitor, without the `Obs` sink: a panic whose
//! signature starts with a listed `signature_prefix` of an open C10 finding is swallowed so that
//! coverage-guided exploration continues past the shallow known crashes; anything else (unlisted
//! panic, `Err(fmt::Error)`, PL->TFM output rejected by the reader outside the listed capacity
//! finding) writes a witness into `$C10_FUZZ_FINDINGS` and aborts, which makes libFuzzer keep the
//! input. The known-findings files are only read.

use std::sync::OnceLock;
use vcore::{catch, json, PanicInfo, Value};

fn known_prefixes() -> &'static Vec<String> {
    static K: OnceLock<Vec<String>> = OnceLock::new();
    K.get_or_init(|| {
        let root = std::env::var("VERIF_ROOT").unwrap_or_else(|_| "/verif".into());
        let mut files = vec![format!("{root}/known_findings.json")];
        if let Ok(rd) = std::fs::read_dir(format!("{root}/known_findings.d")) {
            for e in rd.flatten() {
                files.push(e.path().to_string_lossy().to_string());
            }
        }
        let mut out = vec![];
        for f in files {
            let Ok(t) = std::fs::read_to_string(&f) else { continue };
            let Ok(v) = serde_json::from_str::<Value>(&t) else { continue };
            for e in v["findings"].as_array().into_iter().flatten() {
                if e["property"] == "C10" && e["status"] == "open" {
                    if let Some(p) = e["signature_prefix"].as_str() {
                        out.push(p.to_string());
                    }
                }
            }
        }
        out
    })
}

fn report(signature: &str, detail: Value) -> ! {
    let dir = std::env::var("C10_FUZZ_FINDINGS").unwrap_or_else(|_| "/tmp/c10-fuzz-findings".into());
    let _ = std::fs::create_dir_all(&dir);
    let h = vcore::stable_hash(signature);
    let path = format!("{dir}/finding-{h:016x}.json");
    if !std::path::Path::new(&path).exists() {
        let body = json!({"signature": signature, "detail": detail});
        let _ = std::fs::write(&path, serde_json::to_string_pretty(&body).unwrap_or_default());
    }
    eprintln!("C10-FUZZ-FINDING {signature}");
    std::process::abort()
}

fn on_panic(p: &PanicInfo, direction: &str, input: Value) {
    if !p.in_repo() {
        report(
            &format!("harness-panic:{}:{}", p.file, p.message),
            json!({"direction": direction, "input": input}),
        );
    }
    let sig = p.signature();
    // The sanitizer build names frames differently (the innermost repo function comes out as a
    // bare identifier), so listed findings are matched on (source file, message prefix) here -
    // slightly coarser than the runner, which also compares the function path.
    let split = |s: &str| -> (String, String) {
        let file = s.strip_prefix("panic@").unwrap_or(s).split("::").next().unwrap_or("").to_string();
        let msg = s.split_once(" [").map(|(_, m)| m.trim_end_matches(']').to_string()).unwrap_or_default();
        (file, msg)
    };
    let (file, msg) = split(&sig);
    if known_prefixes().iter().any(|k| {
        let (kf, km) = split(k);
        kf == file && msg.starts_with(km.as_str())
    }) {
        return;
    }
    report(&sig, json!({"direction": direction, "input": input, "panic": {"file": p.file, "line": p.line, "message": p.message}}));
}

fn hex(b: &[u8]) -> String {
    b.iter().map(|x| format!("{x:02x}")).collect()
}

pub fn one_tfm(data: &[u8]) {
    let r = catch(|| tfm::algorithms::tfm_to_pl(data, 3, &|_| Default::default()));
    let out = match r {
        Err(p) => return on_panic(&p, "tfm_to_pl", json!({"hex": hex(data)})),
        Ok(Err(e)) => report("tfm_to_pl:returned-fmt-error", json!({"error": format!("{e:?}"), "hex": hex(data)})),
        Ok(Ok(o)) => o,
    };
    let r = catch(|| {
        for m in &out.error_messages {
            let _ = m.tftopl_message();
        }
        if let Err(e) = &out.pl_data {
            let _ = e.tftopl_message();
        }
    });
    if let Err(p) = r {
        return on_panic(&p, "tftopl_message", json!({"hex": hex(data)}));
    }
    if let Ok(pl) = out.pl_data {
        one_pl_inner(&pl, &json!({"pl_from_tfm_hex": hex(data)}), false);
    }
}

pub fn one_pl(text: &str) {
    one_pl_inner(text, &json!({"text": text}), true);
}

fn one_pl_inner(text: &str, input: &Value, back: bool) {
    let (bytes, warnings) = match catch(|| tfm::algorithms::pl_to_tfm(text)) {
        Err(p) => return on_panic(&p, "pl_to_tfm", input.clone()),
        Ok(v) => v,
    };
    let r = catch(|| {
        let len = warnings.len();
        for (i, w) in warnings.iter().enumerate() {
            if i < 48 || i + 16 >= len {
                let _ = w.pltotf_message(text);
            }
        }
    });
    if let Err(p) = r {
        return on_panic(&p, "pltotf_message", input.clone());
    }
    match catch(|| tfm::File::deserialize(&bytes)) {
        Err(p) => return on_panic(&p, "deserialize(pl_to_tfm(text))", input.clone()),
        Ok((Err(e), _)) => {
            // listed deviation C10-pl-output-exceeds-tfm-capacity (see lib.rs)
            let total = if bytes.len() >= 24 { crate::consistent_lf(&bytes) } else { 0 };
            let capacity = crate::variant_name(&e) == "InconsistentSubFileSizes"
                && total > 32767
                && crate::get_word(&bytes, 0) == 32767
                && bytes.len() as i64 == 4 * total;
            if !capacity {
                report(
                    &format!("pl_to_tfm-output-rejected-by-reader:{}", crate::variant_name(&e)),
                    json!({"reader_error": format!("{e:?}"), "input": input}),
                );
            }
        }
        Ok((Ok(mut f), dw)) => {
            if !dw.is_empty() {
                report(
                    &format!("pl_to_tfm-output-framing:{}", crate::variant_name(&dw[0])),
                    json!({"reader_warning": format!("{:?}", dw[0]), "input": input}),
                );
            }
            if let Err(p) = catch(|| f.validate_and_fix().len()) {
                return on_panic(&p, "validate(deserialize(pl_to_tfm(text)))", input.clone());
            }
        }
    }
    if back {
        let r = catch(|| tfm::algorithms::tfm_to_pl(&bytes, 3, &|_| Default::default()));
        match r {
            Err(p) => on_panic(&p, "tfm_to_pl(pl_to_tfm(text))", input.clone()),
            Ok(Err(e)) => report("tfm_to_pl:returned-fmt-error", json!({"error": format!("{e:?}"), "input": input})),
            Ok(Ok(_)) => {}
        }
    }
}
