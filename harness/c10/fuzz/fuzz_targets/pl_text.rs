#![no_main]
use libfuzzer_sys::fuzz_target;

fuzz_target!(|data: &[u8]| {
    if let Ok(text) = std::str::from_utf8(data) {
        c10::fuzz::one_pl(text);
    }
});
