#![no_main]
// Coverage-guided bytes -> tfm_to_pl (-> pl_to_tfm -> reader). The monitor's own oracle decides:
// panics at listed sites are counted and swallowed so that exploration continues past them, an
// unlisted panic or a rejected PL->TFM output writes a witness and aborts (libFuzzer keeps the input).
use libfuzzer_sys::fuzz_target;

fuzz_target!(|data: &[u8]| {
    c10::fuzz::one_tfm(data);
});
