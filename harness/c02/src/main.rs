fn main() {
    vcore::run_main(&c02::MONITOR)
}
