//! Monitor for property C02: macro parameters bind and substitute exactly as in TeX.
//! (design: /verif/DESIGN.md §6 C02; notes: ../NOTES.md)
//!
//! Per call of a generated macro the real VM is observed at two public places:
//!   * `TexlangState::post_macro_expansion_hook` (recorded by vstate as `Event::Macro`): the bound
//!     arguments and the expansion, as token values;
//!   * the character handler: the character stream produced by the expansion *and by the tokens
//!     that follow the call* (a tail with a marker, a group and a further macro call), plus the
//!     outcome of `VM::run` and the group depth afterwards.
//! The oracle is `vmodels::macrocall` (transcription of TeX §473-§477 and §389-§399) together with
//! a trivial executor for the delivered tokens. A second, declarative formulation of argument
//! binding must agree with the transcription on every call, else the call is INCONCLUSIVE.

use vcore::*;
use vmodels::macrocall::{
    declarative_call_spans, drop_unlexable_spaces, expand_all, lex_line, macro_call, parse_def,
    render, to_source, Call, MacroDef, Pat, Tok, TrimRule,
};
use vstate::{Event, Outcome, VmOptions};

pub struct M;
pub static MONITOR: M = M;

const FINDING_TRIM: &str = "C02-trim-braces-first-last";

type Ev = (String, Vec<String>, String);
type Vm = Box<vstate::texlang::vm::VM<vstate::VState>>;

fn ch(c: char) -> Tok {
    Tok::Ch(c)
}
fn cs(n: &str) -> Tok {
    Tok::cs(n)
}
fn grp(inner: &[Tok]) -> Vec<Tok> {
    let mut v = vec![Tok::Begin];
    v.extend_from_slice(inner);
    v.push(Tok::End);
    v
}
fn cat(parts: &[&[Tok]]) -> Vec<Tok> {
    parts.iter().flat_map(|p| p.iter().cloned()).collect()
}

/// A line of source under construction. Space tokens that TeX's lexer could not produce at the
/// position where they would land (after a control word, after a space, at the start of the
/// line) are dropped *here*, so that the token list the model sees is exactly what the real
/// lexer will produce from the rendered text.
struct Line {
    toks: Vec<Tok>,
    skip: bool,
}

impl Line {
    fn new() -> Line {
        Line {
            toks: vec![],
            skip: true,
        }
    }
    /// Append; returns what was actually appended.
    fn push(&mut self, piece: &[Tok]) -> Vec<Tok> {
        let kept = drop_unlexable_spaces(piece, self.skip);
        if let Some(last) = kept.last() {
            self.skip = matches!(last, Tok::Cs(_) | Tok::Space);
        }
        self.toks.extend(kept.iter().cloned());
        kept
    }
}

/// A macro definition as generated.
struct Spec {
    /// tokens before the macro name: `\def`, `\gdef`, `\long\def`, `\global\def`
    def_kw: Vec<Tok>,
    name: Tok,
    prefix: Vec<Tok>,
    /// delimiter of each parameter as written (empty = undelimited)
    delims: Vec<Vec<Tok>>,
    hash_brace: bool,
    /// replacement text as written (with `#` tokens)
    body: Vec<Tok>,
}

struct SpecInst {
    name: Tok,
    def_src: String,
    def: MacroDef,
    /// effective delimiter of each parameter (with the `{` of `#{` appended to the last one)
    eff_delims: Vec<Vec<Tok>>,
    hash_brace: bool,
}

impl Spec {
    fn instantiate(&self) -> Result<SpecInst, String> {
        let mut line = Line::new();
        line.push(&self.def_kw);
        line.push(std::slice::from_ref(&self.name));
        let start = line.toks.len();
        line.push(&self.prefix);
        for (i, d) in self.delims.iter().enumerate() {
            line.push(&[Tok::Param, ch(char::from(b'1' + i as u8))]);
            line.push(d);
        }
        if self.hash_brace {
            line.push(&[Tok::Param]);
        }
        line.push(&[Tok::Begin]);
        line.push(&self.body);
        line.push(&[Tok::End]);
        let def_src = to_source(&line.toks).ok_or("definition cannot be rendered")?;
        if lex_line(&def_src) != line.toks {
            return Err(format!("model lexer does not reproduce the definition: {def_src}"));
        }
        let (def, used) = parse_def(&line.toks[start..]).map_err(|e| format!("{e:?} in {def_src}"))?;
        if start + used != line.toks.len() {
            return Err(format!("definition ends early: {def_src}"));
        }
        // effective delimiters, read back from the model's pattern
        let mut eff: Vec<Vec<Tok>> = vec![];
        for p in &def.pattern {
            match p {
                Pat::Match => eff.push(vec![]),
                Pat::Lit(t) => {
                    if let Some(d) = eff.last_mut() {
                        d.push(t.clone())
                    }
                }
                Pat::EndMatch => {}
            }
        }
        Ok(SpecInst {
            name: self.name.clone(),
            def_src,
            def,
            eff_delims: eff,
            hash_brace: self.hash_brace,
        })
    }
}

/// What running the delivered tokens through the VM's main loop produces: characters are
/// printed, `{`/`}` open and close groups (`}` at depth 0 is the fatal error "there is no group
/// to end"), `\x`/`\y` are parameterless macros printing `X`/`Y`.
#[derive(Debug, PartialEq, Eq, Clone)]
struct Run {
    out: String,
    events: Vec<Ev>,
    err: Option<String>,
    depth: i64,
}

fn exec(first: Ev, toks: &[Tok]) -> Run {
    let mut r = Run {
        out: String::new(),
        events: vec![first],
        err: None,
        depth: 0,
    };
    for t in toks {
        match t {
            Tok::Ch(c) | Tok::Active(c) => r.out.push(*c),
            Tok::Space => r.out.push(' '),
            Tok::Param => r.out.push('#'),
            Tok::Begin => r.depth += 1,
            Tok::End => {
                if r.depth == 0 {
                    r.err = Some("there is no group to end".into());
                    return r;
                }
                r.depth -= 1;
            }
            Tok::Cs(n) => {
                let up = n.to_uppercase();
                r.events.push((render(std::slice::from_ref(t)), vec![], up.clone()));
                r.out.push_str(&up);
            }
        }
    }
    r
}

fn predict(name: &Tok, def: &MacroDef, stream: &[Tok], rule: TrimRule) -> Option<(Call, Run)> {
    let call = macro_call(def, stream, rule).ok()?;
    let first: Ev = (
        render(std::slice::from_ref(name)),
        call.args.iter().map(|a| render(a)).collect(),
        render(&call.expansion),
    );
    let mut toks = call.expansion.clone();
    toks.extend_from_slice(&stream[call.consumed..]);
    let run = exec(first, &toks);
    Some((call, run))
}

const PREAMBLE: &str = "\\def\\x{X}\\def\\y{Y}%";

fn fresh_vm(def_src: &str, obs: &mut Obs) -> Option<Vm> {
    obs.count("vm_built");
    let opts = VmOptions {
        record_macros: true,
        ..Default::default()
    };
    let src = format!("{PREAMBLE}\n{def_src}%");
    let r = catch(|| {
        let mut vm = vstate::new_vm(&opts);
        let o = vstate::run(&mut vm, "def.tex", &src);
        let out = vstate::take_out(&mut vm);
        let ev = vstate::take_events(&mut vm);
        (vm, o, out, ev)
    });
    match r {
        Err(p) => {
            obs.repo_panic(&p, json!({"source": src}));
            None
        }
        Ok((vm, o, out, ev)) => {
            if !o.is_ok() || !out.is_empty() || !ev.is_empty() {
                obs.violation(
                    "C02:definition-not-silent",
                    json!({"source": src, "outcome": format!("{o:?}"), "out": out, "events": format!("{ev:?}")}),
                );
                return None;
            }
            Some(vm)
        }
    }
}

fn observed_events(ev: Vec<Event>) -> Vec<Ev> {
    ev.into_iter()
        .map(|e| match e {
            Event::Macro {
                name,
                args,
                expansion,
            } => (name, args, expansion),
            Event::Recovered(t) => ("!recovered".to_string(), vec![t], String::new()),
            other => ("!event".to_string(), vec![format!("{other:?}")], String::new()),
        })
        .collect()
}

fn is_single_group(a: &[Tok]) -> bool {
    if a.first() != Some(&Tok::Begin) {
        return false;
    }
    let mut depth = 0i64;
    for (i, t) in a.iter().enumerate() {
        match t {
            Tok::Begin => depth += 1,
            Tok::End => {
                depth -= 1;
                if depth == 0 {
                    return i + 1 == a.len();
                }
            }
            _ => {}
        }
    }
    false
}

/// Check one call. `intended[i]` is the argument text generated for parameter i. Returns false
/// when the VM must not be reused (error, panic).
#[allow(clippy::too_many_arguments)]
fn check_call(
    vm_slot: &mut Option<Vm>,
    inst: &SpecInst,
    intended: &[Vec<Tok>],
    tail_variant: usize,
    obs: &mut Obs,
    class: &str,
) {
    // ---- build the call line -------------------------------------------------------------
    let mut line = Line::new();
    line.push(std::slice::from_ref(&inst.name));
    if matches!(inst.name, Tok::Active(_)) {
        line.skip = false;
    }
    let prefix: Vec<Tok> = inst
        .def
        .pattern
        .iter()
        .take_while(|p| matches!(p, Pat::Lit(_)))
        .filter_map(|p| match p {
            Pat::Lit(t) => Some(t.clone()),
            _ => None,
        })
        .collect();
    let has_params = !inst.eff_delims.is_empty();
    // for a macro without parameters the whole pattern (incl. the `{` of `#{`) is prefix
    line.push(&prefix);
    let mut kept_args: Vec<Vec<Tok>> = vec![];
    for (i, d) in inst.eff_delims.iter().enumerate() {
        kept_args.push(line.push(&intended[i]));
        line.push(d);
    }
    let call_len = line.toks.len() - 1;
    let mut tail: Vec<Tok> = vec![];
    if inst.hash_brace {
        tail.extend([ch('h'), Tok::End]);
    }
    match tail_variant % 3 {
        0 => tail.push(ch('|')),
        1 => tail.extend(cat(&[&[ch('|')], &grp(&[ch('k')]), &[cs("y"), ch(';')]])),
        _ => tail.extend([Tok::Space, ch('|'), cs("y")]),
    }
    line.push(&tail);
    let call_src = match to_source(&line.toks) {
        Some(s) => s,
        None => {
            obs.inconclusive("call line cannot be rendered");
            return;
        }
    };
    if lex_line(&call_src) != line.toks {
        obs.inconclusive(format!("model lexer does not reproduce the call line {call_src}"));
        return;
    }
    let stream = &line.toks[1..];

    // ---- stay inside the quantifier: the call must bind exactly the intended arguments ----
    let decl = declarative_call_spans(&inst.def, stream);
    let tex = macro_call(&inst.def, stream, TrimRule::Tex);
    let (decl_call, spans) = match decl {
        Ok(x) => x,
        Err(_) => {
            obs.skip("call-not-matching");
            return;
        }
    };
    let mut in_domain = decl_call.consumed == call_len && spans.len() == kept_args.len();
    if in_domain {
        for (i, (a, b)) in spans.iter().enumerate() {
            let want: &[Tok] = if inst.eff_delims[i].is_empty() {
                let lead = kept_args[i].iter().take_while(|t| **t == Tok::Space).count();
                &kept_args[i][lead..]
            } else {
                &kept_args[i]
            };
            if &stream[*a..*b] != want {
                in_domain = false;
            }
        }
    }
    if !in_domain {
        obs.skip("argument-contains-delimiter-or-is-not-one-item");
        return;
    }
    match &tex {
        Ok(c) if *c == decl_call => {}
        _ => {
            obs.inconclusive(format!(
                "two formulations of argument binding disagree on {} / {}",
                inst.def_src, call_src
            ));
            return;
        }
    }

    // ---- predictions -----------------------------------------------------------------------
    let (call, want) = match predict(&inst.name, &inst.def, stream, TrimRule::Tex) {
        Some(x) => x,
        None => {
            obs.inconclusive("model failed after validation");
            return;
        }
    };
    if want.err.is_some() || want.depth != 0 {
        obs.inconclusive(format!("generated call is not balanced: {call_src}"));
        return;
    }

    // ---- run the real code -----------------------------------------------------------------
    if vm_slot.is_none() {
        *vm_slot = fresh_vm(&inst.def_src, obs);
    }
    let Some(vm) = vm_slot.as_mut() else { return };
    let src = format!("{call_src}%");
    let res = catch(|| {
        let o = vstate::run(vm, "call.tex", &src);
        let out = vstate::take_out(vm);
        let ev = vstate::take_events(vm);
        let depth = vm.verif_snapshot().commands_groups as i64;
        (o, out, ev, depth)
    });
    let (o, out, ev, depth) = match res {
        Ok(x) => x,
        Err(p) => {
            obs.repo_panic(&p, json!({"def": inst.def_src, "call": call_src}));
            *vm_slot = None;
            return;
        }
    };
    let got = Run {
        out,
        events: observed_events(ev),
        err: match &o {
            Outcome::Ok => None,
            Outcome::Err { title, .. } => Some(title.clone()),
        },
        depth,
    };
    if got.err.is_some() || got.depth != 0 {
        *vm_slot = None; // leftover input / open groups: do not reuse
        obs.count("vm_dropped_after_error");
    }

    // ---- what was observed (evidence) ------------------------------------------------------
    obs.count("calls");
    obs.count(&format!("calls:{class}"));
    obs.count(&format!("calls:params={}", inst.eff_delims.len()));
    obs.add("events_observed", got.events.len() as u64);
    obs.add("output_chars_observed", got.out.chars().count() as u64);
    let mut trigger = false;
    for (i, a) in kept_args.iter().enumerate() {
        let delimited = !inst.eff_delims[i].is_empty();
        let single = is_single_group(if delimited {
            a
        } else {
            let lead = a.iter().take_while(|t| **t == Tok::Space).count();
            &a[lead..]
        });
        match (delimited, single) {
            (true, true) => obs.count("arg:delimited:single-group-stripped"),
            (true, false) => {
                if a.len() >= 2 && a[0] == Tok::Begin && a[a.len() - 1] == Tok::End {
                    obs.count("arg:delimited:several-groups-not-stripped");
                    trigger = true;
                } else if a.is_empty() {
                    obs.count("arg:delimited:empty");
                } else if a.contains(&Tok::Begin) {
                    obs.count("arg:delimited:mixed-with-group");
                } else {
                    obs.count("arg:delimited:plain");
                }
                if a.first() == Some(&Tok::Space) {
                    obs.count("arg:delimited:leading-space-kept");
                }
            }
            (false, true) => obs.count("arg:undelimited:group"),
            (false, false) => obs.count("arg:undelimited:token"),
        }
        if !delimited && a.first() == Some(&Tok::Space) {
            obs.count("arg:undelimited:leading-space-skipped");
        }
        if delimited {
            let d = &inst.eff_delims[i];
            if d.len() >= 2 && !a.is_empty() && a[a.len() - 1] == d[0] {
                obs.count("arg:delimited:ends-with-partial-delimiter");
            }
            let mut depth = 0;
            for (j, t) in a.iter().enumerate() {
                match t {
                    Tok::Begin => depth += 1,
                    Tok::End => depth -= 1,
                    _ => {}
                }
                if depth > 0 && a[j..].starts_with(d) {
                    obs.count("arg:delimited:delimiter-inside-braces");
                    break;
                }
            }
        }
    }
    if inst.hash_brace {
        obs.count("calls:hash-brace");
    }
    if !prefix.is_empty() && has_params {
        obs.count("calls:with-prefix");
    }
    obs.nontrivial(&(&inst.def_src, &call_src));
    if obs.wants_sample() {
        obs.sample(json!({
            "def": inst.def_src, "call": call_src,
            "observed": {"events": got.events, "out": got.out, "error": got.err},
            "model": {"args": call.args.iter().map(|a| render(a)).collect::<Vec<_>>(),
                      "expansion": render(&call.expansion), "out": want.out},
        }));
    }

    // ---- verdict ---------------------------------------------------------------------------
    if got == want {
        return;
    }
    let detail = |dev: Option<&Run>| {
        json!({
            "def": inst.def_src, "call": call_src,
            "observed": {"events": got.events, "out": got.out, "error": got.err, "group_depth": got.depth},
            "tex": {"events": want.events, "out": want.out, "error": want.err, "group_depth": want.depth},
            "deviation_model": dev.map(|d| json!({"events": d.events, "out": d.out, "error": d.err})),
        })
    };
    if trigger {
        if let Some((_, dev)) = predict(&inst.name, &inst.def, stream, TrimRule::FirstLastOfDelimited) {
            if got == dev {
                obs.known(FINDING_TRIM, detail(Some(&dev)));
                return;
            }
        }
    }
    // classify the first difference for a stable signature
    let what = if got.events.first() != want.events.first() {
        match (got.events.first(), want.events.first()) {
            (Some(g), Some(w)) if g.1 != w.1 => "bound-arguments-differ",
            (Some(_), Some(_)) => "expansion-differs",
            (None, _) => "macro-hook-not-called",
            _ => "events-differ",
        }
    } else if got.events != want.events {
        "tokens-after-call-changed(events)"
    } else if got.err != want.err {
        "unexpected-error"
    } else if got.out != want.out {
        "character-stream-differs"
    } else {
        "group-depth-differs"
    };
    obs.violation(format!("C02:{what}"), detail(None));
}

// ------------------------------------------------------------------------------------------------
// coverage-guided stage
// ------------------------------------------------------------------------------------------------

/// Entry point of the libFuzzer target `c02_def_and_call` (harness/vfuzz). Line 1 is a definition `\def\a<parameter
/// text>{<body>}`, line 2 a call line starting with `\a`. Both must be inside the model's domain (text that the model
/// lexer turns into tokens which render back to the same text; no active characters; a parameter text `parse_def`
/// accepts; a call on which the two formulations of TeX's argument binding agree; only `\x`/`\y` delivered to the main
/// loop; balanced result) - everything else is skipped. Then the real VM defines the macro and runs the call, and the
/// bound arguments, the expansion, the following macro expansions, the characters delivered and the group depth must be
/// the model's (`predict` + `exec`, the oracle of all generated phases).
pub fn fuzz_one(data: &[u8], obs: &mut Obs) {
    let Ok(text) = std::str::from_utf8(data) else {
        return;
    };
    let mut it = text.split('\n');
    let (Some(def_line), Some(call_line)) = (it.next(), it.next()) else {
        return;
    };
    // the model lexer reads the fuzzer's text; what the VM gets is the *rendering* of those tokens, which must lex back
    // to the same tokens (the discipline of every generated phase)
    let in_domain = |src: &str| -> Option<(Vec<Tok>, String)> {
        if !src.is_ascii() {
            return None;
        }
        let t = lex_line(src);
        let rendered = to_source(&t)?;
        if lex_line(&rendered) != t || t.iter().any(|x| matches!(x, Tok::Active(_))) {
            return None;
        }
        Some((t, rendered))
    };
    let (Some((dt, def_src)), Some((ct, call_src))) = (in_domain(def_line), in_domain(call_line)) else {
        obs.skip("fuzz:text-outside-the-model-lexer");
        return;
    };
    let (def_line, call_line) = (def_src.as_str(), call_src.as_str());
    let name = cs("a");
    if dt.len() < 4 || dt[0] != cs("def") || dt[1] != name || ct.first() != Some(&name) {
        obs.skip("fuzz:not-a-definition-and-call-of-a");
        return;
    }
    let Ok((def, used)) = parse_def(&dt[2..]) else {
        obs.skip("fuzz:parameter-text-rejected-by-model");
        return;
    };
    if 2 + used != dt.len() || dt[2..].contains(&name) || ct[1..].contains(&name) {
        obs.skip("fuzz:definition-ends-early-or-recursive");
        return;
    }
    let stream = &ct[1..];
    let (decl, tex) = (declarative_call_spans(&def, stream), macro_call(&def, stream, TrimRule::Tex));
    match (&decl, &tex) {
        (Ok((d, _)), Ok(c)) if d == c => {}
        (Err(_), Err(_)) => {
            obs.skip("fuzz:call-not-matching");
            return;
        }
        _ => {
            obs.inconclusive(format!("two formulations of argument binding disagree on {def_line} / {call_line}"));
            return;
        }
    }
    let Some((call, want)) = predict(&name, &def, stream, TrimRule::Tex) else {
        return;
    };
    let delivered_ok = call
        .expansion
        .iter()
        .chain(stream[call.consumed..].iter())
        .all(|t| !matches!(t, Tok::Cs(n) if n != "x" && n != "y"));
    if !delivered_ok || want.err.is_some() || want.depth != 0 {
        obs.skip("fuzz:delivers-undefined-control-sequences-or-unbalanced");
        return;
    }
    let Some(mut vm) = fresh_vm(def_line, obs) else {
        return;
    };
    let src = format!("{call_line}%");
    let res = catch(|| {
        let o = vstate::run(&mut vm, "call.tex", &src);
        let out = vstate::take_out(&mut vm);
        let ev = vstate::take_events(&mut vm);
        let depth = vm.verif_snapshot().commands_groups as i64;
        (o, out, ev, depth)
    });
    let (o, out, ev, depth) = match res {
        Ok(x) => x,
        Err(p) => {
            obs.repo_panic(&p, json!({"def": def_line, "call": call_line}));
            return;
        }
    };
    let got = Run {
        out,
        events: observed_events(ev),
        err: match &o {
            Outcome::Ok => None,
            Outcome::Err { title, .. } => Some(title.clone()),
        },
        depth,
    };
    obs.count("calls:fuzz");
    if got == want {
        return;
    }
    let detail = json!({
        "def": def_line, "call": call_line,
        "observed": {"events": got.events, "out": got.out, "error": got.err, "group_depth": got.depth},
        "tex": {"events": want.events, "out": want.out, "error": want.err, "group_depth": want.depth},
    });
    if let Some((_, dev)) = predict(&name, &def, stream, TrimRule::FirstLastOfDelimited) {
        if dev != want && got == dev {
            obs.known(FINDING_TRIM, detail);
            return;
        }
    }
    let what = if got.events.first() != want.events.first() {
        match (got.events.first(), want.events.first()) {
            (Some(g), Some(w)) if g.1 != w.1 => "bound-arguments-differ",
            (Some(_), Some(_)) => "expansion-differs",
            (None, _) => "macro-hook-not-called",
            _ => "events-differ",
        }
    } else if got.events != want.events {
        "tokens-after-call-changed(events)"
    } else if got.err != want.err {
        "unexpected-error"
    } else if got.out != want.out {
        "character-stream-differs"
    } else {
        "group-depth-differs"
    };
    obs.violation(format!("C02:{what}"), detail);
}

/// Seed corpus (definitions and calls of the random phase, renamed to `\a`) and dictionary for the libFuzzer target.
pub fn fuzz_seeds() -> vcore::fuzzglue::Seeds {
    let mut inputs = vec![];
    let seeds: &[(&str, &str)] = &[
        ("\\def\\a#1{[#1]}", "\\a x|"),
        ("\\def\\a#1#2{(#1)(#2)}", "\\a {pq} r|"),
        ("\\def\\a#1.{<#1>}", "\\a ab{c.d}e.|"),
        ("\\def\\a#1ab{[#1]}", "\\a a{x}b ab!"),
        ("\\def\\a#1\\q#2\\s{#2#1}", "\\a u{v}\\q{w}\\s|"),
        ("\\def\\a p#1#{(#1)}", "\\a pq{h}|"),
        ("\\def\\a#1#2 {(#1)(#2)}", "\\a x y !"),
        ("\\def\\a#1aaabc{[#1]}", "\\a aaabaabcZaaabc!"),
        ("\\def\\a#1#2#3#4#5#6#7#8#9{#9#1}", "\\a 123456789|"),
        ("\\def\\a#1.{#1\\x}", "\\a {{a}{b}}.\\y|"),
    ];
    for (d, c) in seeds {
        inputs.push(format!("{d}\n{c}").into_bytes());
    }
    let dictionary = [
        "\\def\\a", "\\a", "#1", "#2", "#3", "#{", "{", "}", "\\x", "\\y", "\\q", "\\s", " ", ".", "ab", "aaabc", "{}", "{{", "}}", "\n", "|", "##",
    ]
    .iter()
    .map(|s| s.to_string())
    .collect();
    vcore::fuzzglue::Seeds { inputs, dictionary }
}

// ------------------------------------------------------------------------------------------------
// enumerated workload
// ------------------------------------------------------------------------------------------------

const N_BODIES: u64 = 8;

fn body_variant(v: u64, n: usize) -> Vec<Tok> {
    let p = |i: usize| vec![Tok::Param, ch(char::from(b'0' + i as u8))];
    let mut b = vec![];
    match v {
        0 => {
            b.push(ch('['));
            for i in 1..=n {
                if i > 1 {
                    b.push(ch('|'));
                }
                b.extend(p(i));
            }
            b.push(ch(']'));
        }
        1 => {
            for i in (1..=n).rev() {
                b.extend(p(i));
            }
            b.push(ch('/'));
            if n > 0 {
                b.extend(p(1));
            }
        }
        2 => {
            for i in 1..=n {
                b.push(Tok::Begin);
                b.extend(p(i));
            }
            b.push(ch('c'));
            for _ in 0..n {
                b.push(Tok::End);
            }
            b.push(ch('x'));
        }
        3 => {
            b.extend([Tok::Param, Tok::Param, ch('[')]);
            if n > 0 {
                b.extend(p(1));
            }
            b.extend([ch(']'), Tok::Param, Tok::Param, ch('1')]);
        }
        4 => {}
        5 => {
            for i in 1..=n {
                b.extend(p(i));
            }
        }
        6 => {
            b.push(ch('z'));
            if n > 0 {
                b.extend(p(n));
            }
        }
        _ => {
            b.push(cs("y"));
            if n > 0 {
                b.extend(p(1));
            }
            b.push(Tok::Space);
            if n > 0 {
                b.extend(p(n));
            }
            b.push(cs("x"));
        }
    }
    b
}

fn prefix_variant(v: u64) -> Vec<Tok> {
    match v {
        0 => vec![],
        1 => vec![ch('a')],
        _ => vec![ch('a'), ch('b')],
    }
}

const N_DELIM_KINDS: u64 = 5;
fn delim_kind(k: u64) -> Vec<Tok> {
    match k {
        0 => vec![],
        1 => vec![ch('.')],
        2 => vec![ch('a'), ch('b')],
        3 => vec![ch('a'), ch('a'), ch('b')],
        _ => vec![cs("x")],
    }
}

fn similar(t: &Tok) -> Tok {
    match t {
        Tok::Ch('.') => ch(','),
        Tok::Cs(n) if n == "x" => cs("y"),
        _ => ch('x'),
    }
}

const ND: usize = 17;
const NU: usize = 12;
const NB: usize = 6;
const CORE_D: [usize; 8] = [0, 1, 2, 3, 4, 5, 6, 7];
const CORE_U: [usize; 6] = [0, 1, 2, 4, 5, 7];

/// Argument shapes for a parameter delimited by `d` (effective delimiter, may end with `{`).
fn delimited_shape(k: usize, d: &[Tok], l: [char; 3]) -> Vec<Tok> {
    let (x, y, z) = (ch(l[0]), ch(l[1]), ch(l[2]));
    // the delimiter made brace-balanced, for use inside a group
    let mut dbal = d.to_vec();
    if d.last() == Some(&Tok::Begin) {
        dbal.push(Tok::End);
    }
    match k {
        0 => vec![],
        1 => vec![x],
        2 => grp(&[]),
        3 => grp(&[x]),
        4 => cat(&[&grp(&[x]), &grp(&[y])]),
        5 => cat(&[&[x], &grp(&[y])]),
        6 => cat(&[&grp(&[x]), &[y]]),
        7 => grp(&grp(&[x])),
        8 => vec![Tok::Space, x],
        9 => grp(&dbal),
        10 => {
            if d.len() >= 2 {
                d[..d.len() - 1].to_vec()
            } else {
                vec![similar(&d[0])]
            }
        }
        11 => cat(&[&grp(&[x]), &[y], &grp(&[z])]),
        12 => vec![x, Tok::Space, y],
        13 => cat(&[&grp(&[x]), &[Tok::Space]]),
        14 => {
            if d.len() >= 3 {
                vec![d[0].clone()]
            } else if d.len() == 2 {
                vec![d[0].clone(), d[0].clone()]
            } else {
                vec![x.clone(), x]
            }
        }
        15 => cat(&[&[x], &grp(&dbal), &[y]]),
        _ => {
            // a failed partial match that needs more than one fall-back step of a KMP matcher:
            // for `aab` the argument `aaxab` (then the real delimiter follows)
            if d.len() >= 2 {
                cat(&[&d[..d.len() - 1], &[x], &d[1..d.len() - usize::from(d.last() == Some(&Tok::Begin))]])
            } else {
                vec![x.clone(), y, x]
            }
        }
    }
}

/// Shapes for the last parameter when it is delimited by the `{` of `#{` alone: no group can
/// occur at depth 0 of such an argument.
fn brace_delimited_shape(k: usize, l: [char; 3]) -> Vec<Tok> {
    let (x, y) = (ch(l[0]), ch(l[1]));
    match k {
        0 => vec![],
        1 => vec![x],
        2 => vec![x, y],
        3 => vec![Tok::Space, x],
        4 => vec![x, Tok::Space, y],
        _ => vec![cs("y")],
    }
}

fn undelimited_shape(k: usize, l: [char; 3]) -> Vec<Tok> {
    let (x, y, z) = (ch(l[0]), ch(l[1]), ch(l[2]));
    match k {
        0 => vec![x],
        1 => grp(&[]),
        2 => grp(&[x]),
        3 => grp(&[x, y]),
        4 => grp(&grp(&[x])),
        5 => vec![Tok::Space, x],
        6 => cat(&[&[Tok::Space], &grp(&[x])]),
        7 => grp(&[Tok::Space, x]),
        8 => vec![cs("y")],
        9 => grp(&cat(&[&[x], &grp(&[y]), &[z]])),
        10 => grp(&[ch('a'), ch('.'), ch('b')]),
        _ => grp(&grp(&[])),
    }
}

const LETTERS: [[char; 3]; 3] = [['p', 'q', 'r'], ['s', 't', 'u'], ['v', 'w', 'm']];

fn shapes_for(d: &[Tok], core: bool) -> Vec<usize> {
    if d.is_empty() {
        if core {
            CORE_U.to_vec()
        } else {
            (0..NU).collect()
        }
    } else if d == [Tok::Begin] {
        (0..NB).collect()
    } else if core {
        CORE_D.to_vec()
    } else {
        (0..ND).collect()
    }
}

fn shape(d: &[Tok], k: usize, l: [char; 3]) -> Vec<Tok> {
    if d.is_empty() {
        undelimited_shape(k, l)
    } else if d == [Tok::Begin] {
        brace_delimited_shape(k, l)
    } else {
        delimited_shape(k, d, l)
    }
}

fn run_enum_spec(spec: &Spec, core: bool, salt: u64, obs: &mut Obs, class: &str) {
    let inst = match spec.instantiate() {
        Ok(i) => i,
        Err(e) => {
            obs.inconclusive(e);
            return;
        }
    };
    let lists: Vec<Vec<usize>> = inst.eff_delims.iter().map(|d| shapes_for(d, core)).collect();
    let total: usize = lists.iter().map(|l| l.len()).product();
    let mut vm: Option<Vm> = None;
    for t in 0..total {
        let mut rem = t;
        let mut intended = vec![];
        for (i, l) in lists.iter().enumerate() {
            let k = l[rem % l.len()];
            rem /= l.len();
            intended.push(shape(&inst.eff_delims[i], k, LETTERS[i % 3]));
        }
        check_call(&mut vm, &inst, &intended, (t as u64 + salt) as usize, obs, class);
    }
}

fn def_kw_variant(v: u64) -> Vec<Tok> {
    match v % 5 {
        3 => vec![cs("gdef")],
        _ => vec![cs("def")],
    }
}

const ENUM12_CASES: u64 = 3 * 2 * 31 * N_BODIES;
const ENUM3_CASES: u64 = 3 * 2 * 125 * 2;

fn enum12_spec(idx: u64) -> Spec {
    let mut i = idx;
    let body = i % N_BODIES;
    i /= N_BODIES;
    let hash = i % 2 == 1;
    i /= 2;
    let prefix = i % 3;
    i /= 3;
    let delims: Vec<Vec<Tok>> = match i {
        0 => vec![],
        1..=5 => vec![delim_kind(i - 1)],
        _ => {
            let j = i - 6;
            vec![delim_kind(j / N_DELIM_KINDS), delim_kind(j % N_DELIM_KINDS)]
        }
    };
    let n = delims.len();
    Spec {
        def_kw: def_kw_variant(idx),
        name: cs("a"),
        prefix: prefix_variant(prefix),
        delims,
        hash_brace: hash,
        body: body_variant(body, n),
    }
}

fn enum3_spec(idx: u64) -> Spec {
    let mut i = idx;
    let body = if i % 2 == 0 { 0 } else { 2 };
    i /= 2;
    let hash = i % 2 == 1;
    i /= 2;
    let prefix = i % 3;
    i /= 3;
    let delims = vec![
        delim_kind(i / 25),
        delim_kind((i / 5) % 5),
        delim_kind(i % 5),
    ];
    Spec {
        def_kw: def_kw_variant(idx),
        name: cs("a"),
        prefix: prefix_variant(prefix),
        delims,
        hash_brace: hash,
        body: body_variant(body, 3),
    }
}

// ------------------------------------------------------------------------------------------------
// random workload
// ------------------------------------------------------------------------------------------------

fn random_delim_tok(rng: &mut Rng) -> Tok {
    match rng.below(10) {
        0 | 1 => ch('a'),
        2 | 3 => ch('b'),
        4 => ch('.'),
        5 => ch(','),
        6 => cs("x"),
        7 => cs("y"),
        8 => Tok::Space,
        _ => ch(':'),
    }
}

fn random_body(rng: &mut Rng, n: usize, depth: u32) -> Vec<Tok> {
    let len = rng.below(if depth == 0 { 13 } else { 5 });
    let mut b = vec![];
    for _ in 0..len {
        match rng.below(20) {
            0..=7 if n > 0 => {
                let k = 1 + rng.usize_below(n);
                b.extend([Tok::Param, ch(char::from(b'0' + k as u8))]);
            }
            8 => b.extend([Tok::Param, Tok::Param]),
            9 | 10 if depth < 3 => b.extend(grp(&random_body(rng, n, depth + 1))),
            11 => b.push(cs(if rng.coin() { "x" } else { "y" })),
            12 => b.push(Tok::Space),
            13 => b.push(ch(*rng.pick(&['1', '2', '9']))),
            _ => b.push(ch(*rng.pick(&['c', 'd', 'e', 'f', 'g', '-', '[', ']', 'a', 'b', '.']))),
        }
    }
    b
}

fn random_balanced(rng: &mut Rng, d: &[Tok], depth: u32) -> Vec<Tok> {
    let items = rng.below(if depth == 0 { 5 } else { 4 });
    let mut a = vec![];
    for _ in 0..items {
        match rng.below(16) {
            0..=3 => a.push(ch(*rng.pick(&['a', 'b', 'p', 'q', 'c']))),
            4 => a.push(ch(*rng.pick(&['.', ',', ':']))),
            5 => a.push(Tok::Space),
            6 => a.push(cs(if rng.coin() { "x" } else { "y" })),
            7..=10 if depth < 3 => {
                let inner = random_balanced(rng, d, depth + 1);
                a.extend(grp(&inner));
            }
            11 if depth > 0 && !d.is_empty() => {
                // the delimiter itself, legal inside braces
                a.extend(d.iter().cloned());
                if d.last() == Some(&Tok::Begin) {
                    a.push(Tok::End);
                }
            }
            12 if !d.is_empty() => {
                // a proper prefix of the delimiter
                let k = rng.usize_below(d.len());
                a.extend(d[..k].iter().cloned());
            }
            _ => a.push(ch(*rng.pick(&['r', 's', 't', 'a', 'b']))),
        }
    }
    a
}

fn random_arg(rng: &mut Rng, d: &[Tok]) -> Vec<Tok> {
    let l = [
        *rng.pick(&['p', 'q', 'a']),
        *rng.pick(&['r', 's', 'b']),
        *rng.pick(&['t', 'u', 'a']),
    ];
    if d.is_empty() {
        match rng.below(10) {
            0..=2 => undelimited_shape(rng.usize_below(NU), l),
            3..=5 => vec![match rng.below(4) {
                0 => ch('.'),
                1 => cs("x"),
                _ => ch(l[0]),
            }],
            _ => {
                let mut a = vec![];
                if rng.chance(1, 4) {
                    a.push(Tok::Space);
                }
                a.extend(grp(&random_balanced(rng, d, 1)));
                a
            }
        }
    } else if d == [Tok::Begin] {
        brace_delimited_shape(rng.usize_below(NB), l)
    } else if rng.chance(1, 3) {
        delimited_shape(rng.usize_below(ND), d, l)
    } else {
        random_balanced(rng, d, 0)
    }
}

/// Would a parameter delimited by `d` (empty = undelimited), taken in isolation, bind exactly `a`?
/// (Pre-filter for the random generator; the complete call is validated again in `check_call`.)
fn arg_valid_alone(d: &[Tok], a: &[Tok]) -> bool {
    let mut pattern = vec![Pat::Match];
    pattern.extend(d.iter().cloned().map(Pat::Lit));
    pattern.push(Pat::EndMatch);
    let def = MacroDef {
        pattern,
        body: vec![],
        nparams: 1,
    };
    let mut stream = a.to_vec();
    stream.extend(d.iter().cloned());
    stream.push(ch('|'));
    match declarative_call_spans(&def, &stream) {
        Ok((c, spans)) => {
            let lead = if d.is_empty() {
                a.iter().take_while(|t| **t == Tok::Space).count()
            } else {
                0
            };
            c.consumed == a.len() + d.len() && spans == vec![(lead, a.len())]
        }
        Err(_) => false,
    }
}

/// A one-parameter macro whose delimiter is a word of 3-8 letters over {a,b}, biased to words
/// with long borders (aaab, aabaab, abab...).
fn kmp_spec(rng: &mut Rng) -> Spec {
    let len = rng.range_usize(3, 8);
    let mut d: Vec<char> = vec![];
    if rng.chance(2, 3) {
        // periodic start, then a break: the classic bad case for a wrong prefix function
        let period = rng.range_usize(1, 3);
        let unit: Vec<char> = (0..period).map(|_| if rng.coin() { 'a' } else { 'b' }).collect();
        for i in 0..len {
            d.push(unit[i % period]);
        }
        let k = rng.range_usize(len.saturating_sub(2), len - 1);
        d[k] = if d[k] == 'a' { 'b' } else { 'a' };
    } else {
        for _ in 0..len {
            d.push(if rng.coin() { 'a' } else { 'b' });
        }
    }
    let two = rng.chance(1, 4);
    let mut delims = vec![d.iter().map(|c| ch(*c)).collect::<Vec<Tok>>()];
    if two {
        delims.push(vec![ch('.')]);
    }
    let mut body = vec![ch('['), Tok::Param, ch('1'), ch(']')];
    if two {
        body.extend([ch('('), Tok::Param, ch('2'), ch(')')]);
    }
    Spec {
        def_kw: vec![cs("def")],
        name: cs("a"),
        prefix: vec![],
        delims,
        hash_brace: false,
        body,
    }
}

/// An argument over {a,b} assembled from proper prefixes of the delimiter each followed by a
/// letter that breaks the match (near misses and partial repeats).
fn kmp_arg(rng: &mut Rng, d: &[Tok]) -> Vec<Tok> {
    let mut a = vec![];
    if d.iter().any(|t| !matches!(t, Tok::Ch(_))) || d.len() < 2 {
        return random_balanced(rng, d, 0);
    }
    for _ in 0..rng.range_usize(0, 5) {
        let j = rng.range_usize(1, d.len() - 1);
        a.extend(d[..j].iter().cloned());
        if rng.chance(3, 4) {
            // the letter that does NOT continue the delimiter
            let next = &d[j];
            a.push(if *next == ch('a') { ch('b') } else { ch('a') });
        }
    }
    a
}

fn random_spec(rng: &mut Rng) -> Spec {
    let n = [0usize, 1, 2, 3, 4, 5, 6, 7, 8, 9][rng.weighted(&[1, 3, 3, 3, 2, 2, 1, 1, 1, 4])];
    let plen = rng.weighted(&[5, 3, 2, 1]);
    let prefix: Vec<Tok> = (0..plen).map(|_| random_delim_tok(rng)).collect();
    let mut delims = vec![];
    for _ in 0..n {
        let dl = rng.weighted(&[4, 3, 2, 1]);
        delims.push((0..dl).map(|_| random_delim_tok(rng)).collect::<Vec<Tok>>());
    }
    let def_kw = match rng.below(20) {
        0..=11 => vec![cs("def")],
        12..=16 => vec![cs("gdef")],
        17 | 18 => vec![cs("long"), cs("def")],
        _ => vec![cs("global"), cs("def")],
    };
    let name = match rng.below(20) {
        0 | 1 => Tok::Active('~'),
        2 => cs("mac"),
        _ => cs("a"),
    };
    Spec {
        def_kw,
        name,
        prefix,
        delims,
        hash_brace: rng.chance(1, 4),
        body: random_body(rng, n, 0),
    }
}

// ------------------------------------------------------------------------------------------------
// calibration: the model against the repository's own unit-test table
// ------------------------------------------------------------------------------------------------

/// (name, input, expected tokens) transcribed from the `expansion_equality_tests` of
/// crates/texlang-stdlib/src/def.rs (TeXbook exercises 20.1-20.6 among them) and the
/// `\expandafter`-free macro cases of crates/texlang-stdlib/src/expansion.rs.
const CALIBRATION: &[(&str, &str, &str)] = &[
    ("output_is_correct", r"\def\A{abc}\A", "abc"),
    ("output_twice", r"\def\A{abc}\A\A", "abcabc"),
    ("one_undelimited_parameter", r"\def\A#1{a-#1-b}\A1", "a-1-b"),
    ("one_undelimited_parameter_multiple_times", r"\def\A#1{#1 #1 #1}\A1", "1 1 1"),
    ("one_undelimited_parameter_multiple_tokens", r"\def\A#1{a-#1-b}\A{123}", "a-123-b"),
    ("two_undelimited_parameters", r"\def\A#1#2{#2-#1}\A56", "6-5"),
    ("two_undelimited_parameters_multiple_token_inputs", r"\def\A#1#2{#2-#1}\A{abc}{xyz}", "xyz-abc"),
    ("consume_prefix_correctly", r"\def\A fgh{567}\A fghi", "567i"),
    ("one_undelimited_parameter_with_prefix", r"\def\A abc#1{y#1z}\A abcdefg", "ydzefg"),
    ("one_delimited_parameter", r"\def\A #1xxx{y#1z}\A abcxxx", "yabcz"),
    ("one_delimited_parameter_empty", r"\def\A #1xxx{y#1z}\A xxx", "yz"),
    ("one_delimited_parameter_with_scope", r"\def\A #1xxx{#1}\A abc{123xxx}xxx", "abc{123xxx}"),
    ("one_delimited_parameter_with_prefix", r"\def\A a#1c{x#1y}\A abcdef", "xbydef"),
    ("two_delimited_parameters_with_prefix", r"\def\A a#1c#2e{x#2y#1z}\A abcdef", "xdybzf"),
    ("one_delimited_parameter_grouped_value", r"\def\A #1c{x#1y}\A {Hello}c", "xHelloy"),
    ("parameter_brace_special_case", r"\def\A #{Mint says }\A{hello}", "Mint says {hello}"),
    (
        "texbook_exercise_20_2",
        r"\def\a{\b}\def\b{A\def\a{B\def\a{C\def\a{\b}}}}\def\puzzle{\a\a\a\a\a}\puzzle",
        "ABCAB",
    ),
    ("texbook_exercise_20_3_part_1", r"\def\row#1{(#1_1,\ldots,#1_n)}\row{\bf x}", r"(\bf x_1,\ldots,\bf x_n)"),
    ("texbook_exercise_20_3_part_2", r"\def\row#1{(#1_1,\ldots,#1_n)}\row{{\bf x}}", r"({\bf x}_1,\ldots,{\bf x}_n)"),
    ("texbook_exercise_20_5", r"\def\a#1{\def\b##1{##1#1}}\a!\b{Hello}", "Hello!"),
    ("texbook_exercise_20_5_example_below", r"\def\a#1#{\hbox to #1}\a3pt{x}", r"\hbox to 3pt{x}"),
    ("texbook_exercise_20_6", r"\def\b#1{And #1, World!}\def\a#{\b}\a{Hello}", "And Hello, World!"),
    ("space_in_undelimited_param_1", r"\def\Hello#1#2{Hello-#1-#2-World}\Hello A B C", "Hello-A-B-World C"),
    ("space_in_undelimited_param_2", r"\def\Space{ }\def\Hello#1#2{Hello-#1-#2-World}\Hello\Space B C", "Hello- -B-World C"),
    ("expandafter_and_noexpand_1", r"\def\a#1\b{Hello '#1'}\def\b{World}\a\b", "Hello ''"),
    ("expandafter_and_noexpand_2", r"\def\a#1\b{Hello '#1'}\def\b{World}\a\b\b", "Hello ''World"),
    // TeXbook p.203
    (
        "texbook_p203",
        r"\def\cs AB#1#2C$#3\$ {#3{ab#1}#1 c##\x #2}\cs AB {\Look}C${And\$ }{look}\$ 5",
        r"{And\$ }{look}{ab\Look}\Look\space c#\x5",
    ),
];

impl Monitor for M {
    fn id(&self) -> &'static str {
        "C02"
    }

    fn rule(&self) -> String {
        "A case is one \\def/\\gdef (prefix x up to 9 parameters, each undelimited or delimited, optional #{, \
         replacement text over literals, #n, ##, nested groups) run in one VM with many calls; each call is one \
         evaluation. enum12: every spec with prefix in {e,a,ab}, 0-2 parameters, delimiter in {none, ., ab, aab, \\x}, \
         optional #{, 8 replacement texts, times every tuple of the 12 (undelimited) / 17 (delimited) argument shapes \
         (empty, token, {}, {x}, {x}{y}, x{y}, {x}y, {{x}}, leading/trailing space, delimiter inside braces, partial \
         delimiter prefixes such as aa|aab, ...). enum3: the same with 3 parameters and the 8/6 core shapes. random: \
         random specs with 0-9 parameters, random delimiters (also spaces and control sequences) and random balanced \
         arguments. A call counts only if both formulations of the model bind exactly the generated arguments (no \
         delimiter at depth 0); it is non-trivial and distinct by (definition text, call text)."
            .into()
    }

    fn assumptions(&self) -> Vec<String> {
        vec![
            "Oracle = own transcription of TeX §473-§477/§389-§399 (vmodels::macrocall), calibrated against the def.rs unit-test table and TeXbook p.203; a declarative second formulation must agree on every call.".into(),
            "Arguments never contain the delimiter at depth 0, \\par or unbalanced braces; prefix always matches (the property's quantifier).".into(),
            "Braces are not visible in the character stream (the VM opens/closes groups); they are checked through the expansion reported by post_macro_expansion_hook, the absence of 'no group to end' and the group depth after the call.".into(),
            "\\x and \\y are parameterless macros printing X and Y; fixed plain catcodes; every source line ends with %.".into(),
        ]
    }

    fn phases(&self, tier: Tier) -> Vec<Phase> {
        let mut v = vec![Phase::new("enum12", ENUM12_CASES).batch(8).exhaustive(
            "all definitions with prefix in {empty,a,ab}, 0-2 parameters each delimited by one of {none, ., ab, aab, \\x}, optional #{, 8 replacement texts, called with every tuple of the 12/17 enumerated argument shapes",
        )];
        match tier {
            Tier::Quick => v.push(Phase::new("enum3", ENUM3_CASES / 10).batch(4)),
            Tier::Thorough => v.push(Phase::new("enum3", ENUM3_CASES).batch(4).exhaustive(
                "all definitions with prefix in {empty,a,ab}, 3 parameters each delimited by one of {none, ., ab, aab, \\x}, optional #{, 2 replacement texts, called with every triple of the 8/6 core argument shapes",
            )),
        }
        v.push(Phase::new("random", tier.pick(15_000, 1_500_000)).batch(64));
        // delimiters of 3-8 tokens over {a,b} (self-overlapping ones included) against arguments
        // built from near misses: what the KMP prefix function of the delimiter matcher is for
        v.push(Phase::new("kmp", tier.pick(12_000, 600_000)).batch(64));
        // calls ASSEMBLED by another macro: only there can several space tokens stand in a row in
        // front of an argument (the lexer never produces two consecutive spaces)
        v.push(
            Phase::new("assembled", 4 * 3 * 4)
                .batch(8)
                .exhaustive("wrapper macros putting 0..3 space tokens (from arguments and from the replacement text) in front of an undelimited / delimited / second argument of 4 shapes"),
        );
        v
    }

    fn floors(&self, tier: Tier) -> Vec<(&'static str, u64)> {
        let s = tier.pick(1, 4);
        vec![
            ("calls", 150_000 * s),
            ("calls:enum12", 100_000),
            ("calls:random", 20_000 * s),
            ("calls:params=9", 500 * s),
            ("calls:hash-brace", 20_000),
            ("calls:with-prefix", 20_000),
            ("arg:delimited:single-group-stripped", 10_000),
            ("arg:delimited:several-groups-not-stripped", 10_000),
            ("arg:delimited:mixed-with-group", 10_000),
            ("arg:delimited:empty", 5_000),
            ("arg:delimited:leading-space-kept", 2_000),
            ("arg:delimited:ends-with-partial-delimiter", 5_000),
            ("arg:delimited:delimiter-inside-braces", 5_000),
            ("arg:undelimited:group", 10_000),
            ("arg:undelimited:token", 10_000),
            ("arg:undelimited:leading-space-skipped", 2_000),
            ("events_observed", 200_000),
        ]
    }

    fn calibrate(&self, obs: &mut Obs) {
        for (name, input, want) in CALIBRATION {
            let got = expand_all(&lex_line(input), 100_000);
            let want_toks: Vec<Tok> = lex_line(want)
                .into_iter()
                .map(|t| if t == cs("space") { Tok::Space } else { t })
                .collect();
            match got {
                Ok(g) if g == want_toks => obs.count("calibration_cases_agreeing"),
                other => obs.inconclusive(format!(
                    "calibration: model disagrees with repo unit test {name}: got {:?}, want {}",
                    other.map(|g| render(&g)),
                    render(&want_toks)
                )),
            }
        }
    }

    fn run_case(&self, phase: &str, idx: u64, rng: &mut Rng, obs: &mut Obs) {
        match phase {
            "enum12" => run_enum_spec(&enum12_spec(idx), false, idx, obs, "enum12"),
            "enum3" => {
                let real = if obs.tier == Tier::Quick { idx * 10 + (obs.seed % 10) } else { idx };
                run_enum_spec(&enum3_spec(real % ENUM3_CASES), true, idx, obs, "enum3")
            }
            "random" => {
                let spec = random_spec(rng);
                let inst = match spec.instantiate() {
                    Ok(i) => i,
                    Err(e) => {
                        // e.g. a delimiter that starts with a space directly after the macro name
                        // is dropped by the lexer and the definition is a different one: still fine,
                        // but an unrenderable definition is a generator problem
                        obs.inconclusive(e);
                        return;
                    }
                };
                let mut vm: Option<Vm> = None;
                for c in 0..4 {
                    let mut intended: Vec<Vec<Tok>> = vec![];
                    for d in &inst.eff_delims {
                        let mut a = random_arg(rng, d);
                        let mut tries = 0;
                        while !arg_valid_alone(d, &a) && tries < 8 {
                            a = random_arg(rng, d);
                            tries += 1;
                        }
                        if !arg_valid_alone(d, &a) {
                            obs.count("random:argument-replaced-by-fallback");
                            a = if d.is_empty() { vec![ch('p')] } else { vec![] };
                        }
                        intended.push(a);
                    }
                    check_call(&mut vm, &inst, &intended, c + rng.usize_below(3), obs, "random");
                }
            }
            "kmp" => {
                let spec = kmp_spec(rng);
                let inst = match spec.instantiate() {
                    Ok(i) => i,
                    Err(e) => {
                        obs.inconclusive(e);
                        return;
                    }
                };
                let mut vm: Option<Vm> = None;
                for c in 0..4 {
                    let mut intended: Vec<Vec<Tok>> = vec![];
                    for d in &inst.eff_delims {
                        let mut a = kmp_arg(rng, d);
                        let mut tries = 0;
                        while !arg_valid_alone(d, &a) && tries < 12 {
                            a = kmp_arg(rng, d);
                            tries += 1;
                        }
                        if !arg_valid_alone(d, &a) {
                            obs.count("kmp:argument-replaced-by-fallback");
                            a = vec![];
                        } else if a.len() >= d.len() {
                            obs.count("kmp:arguments_at_least_as_long_as_delimiter");
                        }
                        intended.push(a);
                    }
                    obs.count(&format!("kmp:delimiter_len_{}", inst.eff_delims[0].len()));
                    check_call(&mut vm, &inst, &intended, c + rng.usize_below(3), obs, "kmp");
                }
            }
            "assembled" => assembled_case(idx, obs),
            _ => obs.inconclusive(format!("unknown phase {phase}")),
        }
    }
}

/// `\W` assembles a call of `\a` with n space tokens (each passed to `\W` as an argument `{ }`)
/// in front of the argument. TeX (§392-393): an UNDELIMITED parameter skips every space token in
/// front of its argument; a DELIMITED one keeps them (and then keeps the braces of a group too).
fn assembled_case(idx: u64, obs: &mut Obs) {
    let n = (idx % 4) as usize;
    let kind = (idx / 4) % 3; // 0 undelimited first, 1 delimited, 2 undelimited second parameter
    let shape = (idx / 12) % 4;
    // (source text of the argument, what it prints once bound and delivered)
    let (arg_src, arg_out) = match shape {
        0 => ("x", "x"),
        1 => ("{xy}", "xy"),
        2 => ("{}", ""),
        _ => ("{{x}}", "x"),
    };
    let params: String = (1..=n).map(|i| format!("#{i}")).collect();
    let spaces_args = "{ }".repeat(n);
    let (def_a, call_a, tail, expected) = match kind {
        0 => (
            "\\def\\a#1{[#1]}".to_string(),
            format!("\\a{params}"),
            format!("{arg_src};"),
            format!("[{arg_out}];"),
        ),
        1 => (
            "\\def\\a#1.{[#1]}".to_string(),
            format!("\\a{params}"),
            format!("{arg_src}.;"),
            format!("[{}{arg_out}];", " ".repeat(n)),
        ),
        _ => (
            "\\def\\a#1#2{[#1|#2]}".to_string(),
            format!("\\a q{params}"),
            format!("{arg_src};"),
            format!("[q|{arg_out}];"),
        ),
    };
    let src = format!("{def_a}\\def\\W{params}{{{call_a}}}\\W {spaces_args}{tail}");
    let opts = VmOptions::default();
    let src2 = src.clone();
    let r = catch(move || vstate::run_program(&opts, &src2));
    obs.count("assembled:calls");
    obs.count(&format!("assembled:spaces_in_front_{n}"));
    match r {
        Err(p) => obs.repo_panic(&p, json!({"source": src})),
        Ok((o, out, _vm)) => {
            let got = out.trim_end().to_string();
            if !o.is_ok() || got != expected {
                obs.violation(
                    "C02:assembled-call-binds-differently-from-TeX",
                    json!({"source": src, "expected": expected, "got": got, "outcome": format!("{o:?}"),
                           "rule": "undelimited parameters skip ALL space tokens in front of the argument (TeX §392-393), delimited ones keep them"}),
                );
            } else {
                obs.nontrivial(&src);
                if obs.wants_sample() {
                    obs.sample(json!({"source": src, "output": got}));
                }
            }
        }
    }
}
