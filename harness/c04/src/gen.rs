//! Workload generators for C04: a synthetic font (width by char) and hostile paragraph lists.

use crate::judge::Instance;
use boxworks::ds;
use boxworks_knuthplass as kp;
use common::{GlueOrder, Scaled};
use std::rc::Rc;
use vcore::Rng;

pub const PT: i32 = 65536;

/// Width is a pure function of (char, font). Capitals are exactly 5pt wide in font 0 (the known
/// reproducers and the grid style rely on it); lower-case letters get uneven widths.
pub struct SynthFont;

pub fn synth_width(c: char, font: u32) -> Option<i32> {
    let base = if c.is_ascii_uppercase() {
        5 * PT
    } else if c.is_ascii_lowercase() {
        let k = (c as u32 - 'a' as u32).wrapping_mul(2654435761);
        (2 + (k % 7) as i32) * PT + ((k >> 8) % 50000) as i32
    } else if c == '-' {
        3 * PT + 21845
    } else if c == '.' || c == ',' {
        2 * PT + 50973
    } else {
        return None;
    };
    Some(match font {
        0 => base,
        1 => base + PT / 2,
        _ => base + (font as i32 % 5) * 7001,
    })
}

impl boxworks::FontRepo for SynthFont {
    fn width(&self, c: char, font: u32) -> Option<Scaled> {
        synth_width(c, font).map(Scaled)
    }
    fn height(&self, _c: char, _font: u32) -> Option<Scaled> {
        Some(Scaled(7 * PT))
    }
    fn depth(&self, _c: char, _font: u32) -> Option<Scaled> {
        Some(Scaled(2 * PT))
    }
}

pub fn ch(c: char, font: u32) -> ds::Horizontal {
    ds::Horizontal::Char(ds::Char { char: c, font })
}

pub fn glue(w: i32, st: i32, so: GlueOrder, sh: i32) -> ds::Horizontal {
    ds::Horizontal::Glue(ds::Glue {
        value: common::Glue { width: Scaled(w), stretch: Scaled(st), stretch_order: so, shrink: Scaled(sh), shrink_order: GlueOrder::Normal },
        kind: ds::GlueKind::Normal,
    })
}

pub fn kern(w: i32, kind: ds::KernKind) -> ds::Horizontal {
    ds::Horizontal::Kern(ds::Kern { width: Scaled(w), kind })
}

pub fn penalty(p: i32) -> ds::Horizontal {
    ds::Horizontal::Penalty(ds::Penalty(p))
}

pub fn par_end(list: &mut Vec<ds::Horizontal>) {
    list.push(penalty(10000));
    list.push(glue(0, PT, GlueOrder::Fil, 0));
}

#[derive(Clone, Copy, PartialEq, Eq, Debug)]
pub enum Style {
    /// Text-like, every legal breakpoint is followed by a non-discardable item (no known-finding trigger).
    Clean,
    /// Text-like with runs of discardables, explicit kerns before glue, math, forced breaks.
    Hostile,
    /// Every item drawn independently.
    Soup,
    /// All dimensions multiples of 1pt, 5pt characters: exact boundary hits.
    Grid,
}

fn rand_letter(rng: &mut Rng, grid: bool) -> char {
    if grid {
        (b'A' + rng.below(26) as u8) as char
    } else {
        (b'a' + rng.below(26) as u8) as char
    }
}

fn boxlike(rng: &mut Rng, grid: bool) -> ds::Horizontal {
    let font = if grid { 0 } else { rng.below(2) as u32 };
    match rng.below(if grid { 1 } else { 24 }) {
        0..=19 => ch(rand_letter(rng, grid), font),
        20 => ds::Horizontal::Ligature(ds::Ligature {
            char: rand_letter(rng, grid),
            font,
            original_chars: Rc::from("fi"),
            includes_left_boundary: false,
            includes_right_boundary: false,
        }),
        21 => ds::Horizontal::HBox(ds::HBox { width: Scaled(rng.range_i32(0, 12 * PT)), height: Scaled(5 * PT), ..Default::default() }),
        22 => ds::Horizontal::Rule(ds::Rule { width: Scaled(rng.range_i32(0, 4 * PT)), height: Scaled(PT), depth: Scaled(0) }),
        _ => ds::Horizontal::VBox(ds::VBox { width: Scaled(rng.range_i32(0, 10 * PT)), ..Default::default() }),
    }
}

fn delem(rng: &mut Rng, grid: bool) -> ds::DiscretionaryElem {
    let font = if grid { 0 } else { rng.below(2) as u32 };
    match rng.below(10) {
        0 => ds::DiscretionaryElem::Kern(ds::Kern { width: Scaled(if grid { PT } else { rng.range_i32(-PT, 2 * PT) }), kind: ds::KernKind::Normal }),
        1 if !grid => ds::DiscretionaryElem::Rule(ds::Rule { width: Scaled(rng.range_i32(0, 3 * PT)), height: Scaled(PT), depth: Scaled(0) }),
        2 if !grid => ds::DiscretionaryElem::Char(ds::Char { char: '-', font }),
        _ => ds::DiscretionaryElem::Char(ds::Char { char: rand_letter(rng, grid), font }),
    }
}

/// A discretionary followed by its replaced items.
fn push_disc(rng: &mut Rng, grid: bool, out: &mut Vec<ds::Horizontal>) {
    let pre_n = rng.weighted(&[3, 5, 2]);
    let post_n = rng.weighted(&[6, 3, 1]);
    let rep_n = rng.weighted(&[6, 3, 1]);
    let pre: Vec<_> = (0..pre_n).map(|_| delem(rng, grid)).collect();
    let post: Vec<_> = (0..post_n).map(|_| delem(rng, grid)).collect();
    out.push(ds::Horizontal::Discretionary(ds::Discretionary { pre_break: pre, post_break: post, replace_count: rep_n as u32 }));
    for _ in 0..rep_n {
        if rng.chance(1, 6) {
            // any kind of kern may stand among the replaced nodes (TeX §841 adds the width of every kern node)
            let kind = *rng.pick(&[ds::KernKind::Normal, ds::KernKind::Normal, ds::KernKind::Explicit, ds::KernKind::Accent, ds::KernKind::Math]);
            out.push(kern(if grid { PT } else { rng.range_i32(-PT / 2, PT) }, kind));
        } else {
            out.push(boxlike(rng, grid));
        }
    }
}

fn space(rng: &mut Rng, grid: bool) -> ds::Horizontal {
    if grid {
        let w = rng.range_i32(1, 5) * PT;
        let st = rng.range_i32(0, 4) * PT;
        let sh = rng.range_i32(0, 2) * PT;
        return glue(w, st, GlueOrder::Normal, sh);
    }
    match rng.below(20) {
        0 => glue(rng.range_i32(2 * PT, 6 * PT), 0, GlueOrder::Normal, 0),
        1 => glue(rng.range_i32(0, 4 * PT), rng.range_i32(0, 2 * PT), *rng.pick(&[GlueOrder::Fil, GlueOrder::Fill, GlueOrder::Filll]), rng.range_i32(0, PT)),
        2 => glue(0, 0, GlueOrder::Normal, 0),
        3 => glue(rng.range_i32(3 * PT, 5 * PT), rng.range_i32(PT, 3 * PT), GlueOrder::Normal, 0),
        4 => glue(rng.range_i32(3 * PT, 5 * PT), 0, GlueOrder::Fil, rng.range_i32(0, 2 * PT)),
        _ => glue(rng.range_i32(3 * PT, 5 * PT), rng.range_i32(PT / 2, 3 * PT), GlueOrder::Normal, rng.range_i32(PT / 4, 2 * PT)),
    }
}

fn rand_penalty(rng: &mut Rng) -> i32 {
    match rng.below(16) {
        0 => 0,
        1 => 10000,
        2 => -10000,
        3 => 9999,
        4 => -9999,
        5 => 20000,
        6 => -20000,
        7 | 8 => rng.range_i32(-300, 300),
        9 => rng.range_i32(-10000, 10000),
        10 => 50,
        11 => -50,
        _ => rng.range_i32(0, 1000),
    }
}

fn push_word(rng: &mut Rng, grid: bool, discs: bool, out: &mut Vec<ds::Horizontal>) {
    let len = rng.range_usize(1, 6);
    for k in 0..len {
        out.push(boxlike(rng, grid));
        if k + 1 < len {
            if discs && rng.chance(1, 5) {
                push_disc(rng, grid, out);
                if !matches!(out.last(), Some(ds::Horizontal::Char(_))) {
                    out.push(boxlike(rng, grid));
                }
            } else if rng.chance(1, 10) {
                out.push(kern(if grid { PT } else { rng.range_i32(-PT, PT) }, *rng.pick(&[ds::KernKind::Normal, ds::KernKind::Accent, ds::KernKind::Math])));
            }
        }
    }
}

fn text_like(rng: &mut Rng, style: Style) -> Vec<ds::Horizontal> {
    let grid = style == Style::Grid;
    let hostile = style == Style::Hostile || (grid && rng.chance(1, 3));
    let n_words = match rng.below(10) {
        0 => 1,
        1..=5 => rng.range_usize(2, 7),
        6..=8 => rng.range_usize(5, 12),
        _ => rng.range_usize(10, 16),
    };
    let discs = rng.chance(2, 3);
    let mut out = vec![];
    if hostile && rng.chance(1, 8) {
        out.push(space(rng, grid)); // glue at the very beginning is not a legal breakpoint
    }
    let mut in_math = false;
    for w in 0..n_words {
        push_word(rng, grid, discs, &mut out);
        if w + 1 == n_words {
            break;
        }
        // the gap
        if !hostile {
            match rng.below(12) {
                // "box penalty box": a penalty break followed by a non-discardable
                0 => out.push(penalty(rand_penalty(rng))),
                // explicit kern not followed by glue: not a breakpoint
                1 => out.push(kern(rng.range_i32(0, 3 * PT), ds::KernKind::Explicit)),
                // math with a word inside, math-off followed by a box
                2 => {
                    out.push(ds::Horizontal::Math(ds::Math::Before));
                    push_word(rng, grid, false, &mut out);
                    if rng.coin() {
                        out.push(space(rng, grid)); // glue inside math: not a breakpoint
                        push_word(rng, grid, false, &mut out);
                    }
                    out.push(ds::Horizontal::Math(ds::Math::After));
                }
                // a penalty *before* the glue (e.g. after punctuation): glue after a penalty is not
                // a break, but then the penalty break is followed by glue -> only with zero glue
                _ => out.push(space(rng, grid)),
            }
        } else {
            match rng.below(16) {
                0 => {
                    out.push(penalty(rand_penalty(rng)));
                    out.push(space(rng, grid));
                }
                1 => {
                    out.push(space(rng, grid));
                    out.push(penalty(rand_penalty(rng)));
                    out.push(space(rng, grid));
                }
                2 => {
                    out.push(space(rng, grid));
                    out.push(space(rng, grid));
                }
                3 | 4 => {
                    out.push(kern(if grid { rng.range_i32(0, 4) * PT } else { rng.range_i32(-PT, 5 * PT) }, ds::KernKind::Explicit));
                    out.push(space(rng, grid));
                }
                5 => {
                    out.push(space(rng, grid));
                    out.push(kern(rng.range_i32(0, 3 * PT), ds::KernKind::Explicit));
                    out.push(space(rng, grid));
                }
                6 => {
                    if in_math {
                        out.push(ds::Horizontal::Math(ds::Math::After));
                        in_math = false;
                        out.push(space(rng, grid));
                    } else {
                        out.push(space(rng, grid));
                        out.push(ds::Horizontal::Math(ds::Math::Before));
                        in_math = true;
                    }
                }
                7 => out.push(penalty(rand_penalty(rng))),
                8 => {
                    out.push(penalty(-10000));
                    if rng.coin() {
                        out.push(space(rng, grid));
                    }
                }
                9 => {
                    // empty-post-break discretionary followed by glue
                    out.push(ds::Horizontal::Discretionary(ds::Discretionary {
                        pre_break: if rng.coin() { vec![delem(rng, grid)] } else { vec![] },
                        post_break: vec![],
                        replace_count: 0,
                    }));
                    out.push(space(rng, grid));
                }
                10 => {
                    out.push(kern(rng.range_i32(0, 2 * PT), ds::KernKind::Normal));
                    out.push(space(rng, grid));
                }
                _ => out.push(space(rng, grid)),
            }
        }
    }
    if in_math {
        out.push(ds::Horizontal::Math(ds::Math::After));
    }
    match rng.below(8) {
        0 => {}
        1 => out.push(space(rng, grid)),
        _ => par_end(&mut out),
    }
    out
}

fn soup(rng: &mut Rng) -> Vec<ds::Horizontal> {
    let n = rng.range_usize(5, 60);
    let mut out = vec![];
    while out.len() < n {
        match rng.weighted(&[40, 22, 5, 5, 10, 3, 3, 6]) {
            0 => out.push(boxlike(rng, false)),
            1 => out.push(space(rng, false)),
            2 => out.push(kern(rng.range_i32(-PT, 4 * PT), ds::KernKind::Explicit)),
            3 => out.push(kern(rng.range_i32(-PT, 2 * PT), *rng.pick(&[ds::KernKind::Normal, ds::KernKind::Accent, ds::KernKind::Math]))),
            4 => out.push(penalty(rand_penalty(rng))),
            5 => out.push(ds::Horizontal::Math(ds::Math::Before)),
            6 => out.push(ds::Horizontal::Math(ds::Math::After)),
            _ => push_disc(rng, false, &mut out),
        }
    }
    if rng.chance(2, 3) {
        par_end(&mut out);
    }
    out
}

pub fn natural_width(list: &[ds::Horizontal]) -> i64 {
    use boxworks::FontRepo;
    let f = SynthFont;
    list.iter()
        .map(|e| {
            use ds::Horizontal as H;
            (match e {
                H::Char(c) => f.width(c.char, c.font).map(|s| s.0).unwrap_or(0),
                H::Ligature(l) => f.width(l.char, l.font).map(|s| s.0).unwrap_or(0),
                H::HBox(b) => b.width.0,
                H::VBox(b) => b.width.0,
                H::Rule(r) => r.width.0,
                H::Glue(g) => g.value.width.0,
                H::Kern(k) => k.width.0,
                _ => 0,
            }) as i64
        })
        .sum()
}

pub fn rand_tolerance(rng: &mut Rng) -> i32 {
    match rng.below(40) {
        0 => -1,
        1 | 2 => 0,
        3..=9 => 100,
        10..=22 => 200,
        23..=28 => 1000,
        29..=37 => 10000,
        _ => rng.range_i32(1, 400),
    }
}

pub fn rand_params(rng: &mut Rng, grid: bool) -> kp::Params {
    let mut p = kp::Params::plain_tex_defaults();
    if rng.chance(3, 4) {
        p.line_penalty = *rng.pick(&[10, 10, 0, 1, 50, 200, -5, 9990]);
        p.hyphen_penalty = match rng.below(10) {
            0 => 0,
            1 => 10000,
            2 => -10000,
            3 => rng.range_i32(-500, 2000),
            4 => 9999,
            // beyond the range: TeX clamps every break penalty (<= -10000 forces, >= 10000 forbids)
            5 => *rng.pick(&[-10001, -20000, 10001, 30000]),
            _ => 50,
        };
        p.ex_hyphen_penalty = match rng.below(10) {
            0 => 0,
            1 => 10000,
            2 => -10000,
            3 => rng.range_i32(-500, 2000),
            4 => *rng.pick(&[-10001, -20000, 10001, 30000]),
            _ => 50,
        };
        p.adj_demerits = match rng.below(8) {
            0 => 0,
            1 => -10000,
            2 => rng.range_i32(-30000, 30000),
            3 => 100,
            4 => 2_000_000,
            _ => 10000,
        };
        p.double_hyphen_demerits = match rng.below(6) {
            0 => 0,
            1 => -100000,
            2 => rng.range_i32(-20000, 20000),
            _ => 10000,
        };
        p.final_hyphen_demerits = match rng.below(6) {
            0 => 0,
            1 => -5000,
            2 => rng.range_i32(-20000, 20000),
            _ => 5000,
        };
    }
    p.looseness = match rng.below(20) {
        0 | 1 => 1,
        2 | 3 => -1,
        4 => 2,
        5 => -2,
        _ => 0,
    };
    if rng.chance(1, 5) {
        let unit = if grid { PT } else { 1 };
        let skip = |rng: &mut Rng| common::Glue {
            width: Scaled(rng.range_i32(0, 10 * PT / unit) * unit),
            stretch: Scaled(if rng.coin() { 0 } else { rng.range_i32(0, 20 * PT / unit) * unit }),
            // every order of infinity: \leftskip/\rightskip are added to each line's totals
            // order by order (TeX.2021.827), together with whatever the line itself contains
            stretch_order: match rng.below(10) {
                0 | 1 => GlueOrder::Fil,
                2 => GlueOrder::Fill,
                3 => GlueOrder::Filll,
                _ => GlueOrder::Normal,
            },
            shrink: Scaled(if rng.coin() { 0 } else { rng.range_i32(0, 2 * PT / unit) * unit }),
            shrink_order: GlueOrder::Normal,
        };
        if rng.coin() {
            p.right_skip = skip(rng);
        }
        if rng.chance(1, 3) {
            p.left_skip = skip(rng);
        }
    }
    p
}

/// Infinite stretch that cancels: TeX adds the stretch of \leftskip/\rightskip to each line's own totals *order by order*
/// (TeX.2021.827) and a line is "infinitely stretchable" iff some infinite total is NON-ZERO (TeX.2021.852). A line whose own
/// glue carries exactly -s (or +s) of the order in which the skips carry s is the only place where the sign of that addition
/// is observable (found by the mutation campaign: `Diffs + background` with one component subtracted survived everything
/// else). The same idiom without skips is \hfil\hfilneg: a pair of glues whose infinite stretch sums to zero inside a line.
fn cancelling_glue(rng: &mut Rng, params: &kp::Params, list: &mut [ds::Horizontal]) {
    let glue_positions: Vec<usize> = list
        .iter()
        .enumerate()
        .filter(|(i, e)| matches!(e, ds::Horizontal::Glue(_)) && *i + 2 < list.len())
        .map(|(i, _)| i)
        .collect();
    if glue_positions.is_empty() {
        return;
    }
    let mut bg = [0_i64; 4];
    for g in [&params.left_skip, &params.right_skip] {
        bg[g.stretch_order as usize] += g.stretch.0 as i64;
    }
    let set = |list: &mut [ds::Horizontal], at: usize, order: GlueOrder, stretch: i64| {
        if let ds::Horizontal::Glue(g) = &mut list[at] {
            g.value.stretch = Scaled(stretch as i32);
            g.value.stretch_order = order;
        }
    };
    let orders = [GlueOrder::Normal, GlueOrder::Fil, GlueOrder::Fill, GlueOrder::Filll];
    if let Some(o) = (1..4).find(|&o| bg[o] != 0) {
        if rng.coin() {
            let s = if rng.coin() { -bg[o] } else { bg[o] };
            for _ in 0..rng.range_usize(1, 3) {
                let at = *rng.pick(&glue_positions);
                set(list, at, orders[o], s);
            }
        }
    } else if rng.chance(1, 12) && glue_positions.len() >= 2 {
        let o = rng.range_usize(1, 3);
        let s = rng.range_i32(1, 3 * PT) as i64;
        let k = rng.below(glue_positions.len() as u64 - 1) as usize;
        set(list, glue_positions[k], orders[o], s);
        set(list, glue_positions[k + 1], orders[o], -s);
    }
}

pub fn rand_instance(rng: &mut Rng, style: Style) -> Instance {
    let list = match style {
        Style::Soup => soup(rng),
        s => text_like(rng, s),
    };
    let grid = style == Style::Grid;
    let params = rand_params(rng, grid);
    let mut list = list;
    cancelling_glue(rng, &params, &mut list);
    let nat = natural_width(&list).max(PT as i64);
    // aim for 1..6 lines
    let lines = rng.range_i64(1, 6);
    let base = (nat / lines).clamp(5 * PT as i64, 400 * PT as i64);
    let n_w = rng.weighted(&[6, 2, 1, 1]) + 1;
    let widths: Vec<Scaled> = (0..n_w)
        .map(|_| {
            let f = rng.range_i64(70, 135);
            let w = base * f / 100;
            Scaled(if grid { ((w / PT as i64).max(5) as i32) * PT } else { w as i32 })
        })
        .collect();
    let emergency = if rng.chance(1, 10) { Scaled(rng.range_i32(0, 10 * PT)) } else { Scaled::ZERO };
    Instance { list, params, widths, tolerance: rand_tolerance(rng), emergency }
}

// ------------------------------------------------------------------------------------------
// enumerated sub-space: all lists over a 7-letter alphabet of item kinds

pub const ENUM_ALPHABET: usize = 7;

pub fn enum_item(code: u64) -> ds::Horizontal {
    match code {
        0 => ch('A', 0),
        1 => glue(5 * PT, 3 * PT, GlueOrder::Normal, PT),
        2 => glue(4 * PT, 0, GlueOrder::Normal, 0),
        3 => kern(4 * PT, ds::KernKind::Explicit),
        4 => penalty(0),
        5 => penalty(-10000),
        _ => ds::Horizontal::Discretionary(ds::Discretionary {
            pre_break: vec![ds::DiscretionaryElem::Char(ds::Char { char: 'B', font: 0 })],
            post_break: vec![],
            replace_count: 0,
        }),
    }
}
