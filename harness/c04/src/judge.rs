//! Observation of the real line breaker and its judgement against a `vmodels::knuthplass::Model`.

use boxworks::ds;
use boxworks_knuthplass as kp;
use common::{GlueOrder, Scaled};
use vcore::*;
use vmodels::knuthplass as model;
use vmodels::knuthplass::{Expected, Item, Model, Rule, Solution, Totals};

// ------------------------------------------------------------------------------------------
// the instance handed to the real code

pub struct Instance {
    pub list: Vec<ds::Horizontal>,
    pub params: kp::Params,
    pub widths: Vec<Scaled>,
    pub tolerance: i32,
    pub emergency: Scaled,
}

pub struct NoHyphenation;
impl boxworks::Hyphenator for NoHyphenation {
    fn hyphenate(&self, _list: &mut Vec<ds::Horizontal>) {}
}

#[derive(Clone, Debug)]
pub enum Ev {
    Fb { elem: usize, badness: i32, penalty: i32, demerits: i32, artificial: bool, prev: usize },
    Node { idx: usize, line: usize, class: u8, hyphenated: bool, total: i32, artificial: bool, prev: usize },
    Selected(usize),
}

#[derive(Default)]
struct Recorder {
    ev: Vec<Ev>,
}

impl kp::debug::Logger for Recorder {
    fn log_attempt(&mut self, _attempt: kp::debug::Attempt) {}
    fn log_feasible_breakpoint(&mut self, _list: &[ds::Horizontal], fb: kp::debug::FeasibleBreakpoint) {
        self.ev.push(Ev::Fb {
            elem: fb.elem_index,
            badness: fb.badness,
            penalty: fb.penalty,
            demerits: fb.demerits,
            artificial: fb.artificial_demerits,
            prev: fb.previous_node_index,
        });
    }
    fn log_new_active_node(&mut self, an: kp::debug::NewActiveNode) {
        self.ev.push(Ev::Node {
            idx: an.node_index,
            line: an.line_number,
            class: an.fitness_class,
            hyphenated: an.hyphenated,
            total: an.total_demerits,
            artificial: an.artificial_demerits,
            prev: an.previous_node_index,
        });
    }
    fn log_selected_node(&mut self, node_index: usize) {
        self.ev.push(Ev::Selected(node_index));
    }
}

pub struct Observation {
    pub events: Vec<Ev>,
    pub result: Option<Vec<usize>>,
}

/// vcore finds the repo frame of a panic from the backtrace; a repo function inlined into the
/// monitor leaves no frame with a /repo path although the panic location is a repo file.
pub fn locate_inlined_repo_panic(mut p: PanicInfo) -> PanicInfo {
    if !p.budget && !p.in_harness && p.repo_file.is_empty() {
        let root = repo_dir();
        if let Ok(rel) = std::path::Path::new(&p.file).strip_prefix(&root) {
            p.repo_file = rel.display().to_string();
            p.repo_function = "(inlined)".to_string();
        }
    }
    p
}

/// Run the real `break_line_single_attempt` once.
pub fn observe<F: boxworks::FontRepo>(inst: &Instance, font: &F, force_solution: bool) -> Result<Observation, PanicInfo> {
    let mut rec = Recorder::default();
    let r = catch(|| {
        let mut lb = kp::LineBreaker {
            params: &inst.params,
            line_widths: &inst.widths,
            line_indents: &[],
            debug_logger: Some(&mut rec),
            hyphenator: &NoHyphenation,
        };
        lb.break_line_single_attempt(&inst.list, font, inst.tolerance, inst.emergency, force_solution)
    });
    match r {
        Ok(result) => Ok(Observation { events: rec.ev, result }),
        Err(p) => Err(locate_inlined_repo_panic(p)),
    }
}

// ------------------------------------------------------------------------------------------
// conversion to the model's vocabulary

pub fn ord_of(o: GlueOrder) -> u8 {
    match o {
        GlueOrder::Normal => 0,
        GlueOrder::Fil => 1,
        GlueOrder::Fill => 2,
        GlueOrder::Filll => 3,
    }
}

fn delem_width<F: boxworks::FontRepo>(e: &ds::DiscretionaryElem, font: &F) -> i64 {
    use ds::DiscretionaryElem as D;
    (match e {
        D::Char(c) => font.width(c.char, c.font).unwrap_or(Scaled::ZERO).0,
        D::Ligature(l) => font.width(l.char, l.font).unwrap_or(Scaled::ZERO).0,
        D::HBox(b) => b.width.0,
        D::VBox(b) => b.width.0,
        D::Rule(r) => r.width.0,
        D::Kern(k) => k.width.0,
    }) as i64
}

/// Err = a node kind outside the property's quantifier (or outside what the code implements).
pub fn to_items<F: boxworks::FontRepo>(list: &[ds::Horizontal], font: &F) -> Result<Vec<Item>, String> {
    let mut out = Vec::with_capacity(list.len());
    for e in list {
        use ds::Horizontal as H;
        out.push(match e {
            H::Char(c) => Item::Box { w: font.width(c.char, c.font).unwrap_or(Scaled::ZERO).0 },
            H::Ligature(l) => Item::Box { w: font.width(l.char, l.font).unwrap_or(Scaled::ZERO).0 },
            H::HBox(b) => Item::Box { w: b.width.0 },
            H::VBox(b) => Item::Box { w: b.width.0 },
            H::Rule(r) => Item::Box { w: r.width.0 },
            H::Glue(g) => {
                if g.value.shrink_order != GlueOrder::Normal && g.value.shrink.0 != 0 {
                    return Err("infinite shrink in a paragraph (TeX §825 reports an error)".into());
                }
                Item::Glue {
                    w: g.value.width.0,
                    stretch: g.value.stretch.0,
                    stretch_order: ord_of(g.value.stretch_order),
                    shrink: g.value.shrink.0,
                }
            }
            H::Kern(k) => Item::Kern { w: k.width.0, explicit: k.kind == ds::KernKind::Explicit },
            H::Penalty(p) => Item::Penalty(p.0),
            H::Math(ds::Math::Before) => Item::MathOn,
            H::Math(ds::Math::After) => Item::MathOff,
            H::Discretionary(d) => {
                let pre: i64 = d.pre_break.iter().map(|e| delem_width(e, font)).sum();
                let post: i64 = d.post_break.iter().map(|e| delem_width(e, font)).sum();
                Item::Disc {
                    pre_w: pre as i32,
                    pre_empty: d.pre_break.is_empty(),
                    post_w: post as i32,
                    post_empty: d.post_break.is_empty(),
                    replace: d.replace_count as usize,
                }
            }
            H::Mark(_) | H::Insertion(_) | H::Adjust(_) | H::Whatsit(_) => {
                return Err("mark/insertion/adjust/whatsit nodes are outside the quantifier".into())
            }
        });
    }
    Ok(out)
}

fn glue_totals(g: &common::Glue) -> Result<Totals, String> {
    if g.shrink_order != GlueOrder::Normal && g.shrink.0 != 0 {
        return Err("infinite shrink in \\leftskip/\\rightskip".into());
    }
    let mut t = Totals::default();
    t.w = g.width.0 as i64;
    t.stretch[ord_of(g.stretch_order) as usize] = g.stretch.0 as i64;
    t.shrink = g.shrink.0 as i64;
    Ok(t)
}

pub fn to_params(inst: &Instance) -> Result<model::Params, String> {
    let mut bg = glue_totals(&inst.params.left_skip)?.add(&glue_totals(&inst.params.right_skip)?);
    bg.stretch[0] += inst.emergency.0 as i64;
    Ok(model::Params {
        line_widths: inst.widths.iter().map(|w| w.0).collect(),
        tolerance: inst.tolerance,
        line_penalty: inst.params.line_penalty,
        hyphen_penalty: inst.params.hyphen_penalty,
        ex_hyphen_penalty: inst.params.ex_hyphen_penalty,
        adj_demerits: inst.params.adj_demerits,
        double_hyphen_demerits: inst.params.double_hyphen_demerits,
        final_hyphen_demerits: inst.params.final_hyphen_demerits,
        looseness: inst.params.looseness,
        background: bg,
    })
}

// ------------------------------------------------------------------------------------------
// judgement

pub enum Verdict {
    Pass(Stats),
    Fail { sig: &'static str, detail: Value },
    /// Outside the property's quantifier under this model (counted, not failed).
    Skip(&'static str),
    /// The two evaluators disagree: the case cannot be decided.
    Inconclusive(String),
}

#[derive(Default, Clone, Debug)]
pub struct Stats {
    pub feasible: bool,
    pub lines: usize,
    pub n_breaks: usize,
    pub n_fb: usize,
    pub n_nodes: usize,
    pub brute_checked: bool,
    pub line_counts_available: usize,
    pub result_none_because_looseness: bool,
    pub forced_observation_judged: bool,
    pub forced_lines: usize,
    pub badness_seen: Vec<i32>,
    pub multi_class_breaks: usize,
    pub classes_seen: [bool; 4],
    pub ties_possible: bool,
    pub hyphen_demerits_applied: bool,
    pub adj_applied: bool,
    pub forced_break_inside: bool,
    pub artificial_in_final_pass: bool,
}

pub struct Prepared {
    pub model: Model,
    pub sol: Solution,
}

/// Model construction + the per-model domain checks + both evaluators.
pub fn prepare(items: &[Item], params: &model::Params, rule: Rule) -> Result<Prepared, Verdict> {
    let m = match Model::new(items.to_vec(), params.clone(), rule) {
        Ok(m) => m,
        Err(_) => return Err(Verdict::Skip("list outside the model's domain")),
    };
    if !m.monotone() {
        return Err(Verdict::Skip("overfull(a,b) not upward closed in b"));
    }
    let sol = m.solve_dp();
    if sol.max_abs_total >= 1_000_000_000 {
        // TeX's own arithmetic (awful_bad = 2^30-1) gives out here
        return Err(Verdict::Skip("total demerits reach awful_bad"));
    }
    if let Some(brute) = m.solve_brute(12) {
        let dp: std::collections::BTreeMap<usize, i64> = sol.best_by_lines.iter().map(|(l, v)| (*l, v.0)).collect();
        if dp != brute {
            return Err(Verdict::Inconclusive(format!(
                "DP and brute-force evaluators disagree: dp={dp:?} brute={brute:?}"
            )));
        }
    }
    Ok(Prepared { model: m, sol })
}

#[derive(Clone, Copy)]
struct NodeInfo {
    brk: Option<usize>,
    lines: usize,
    class: u8,
    hyph: bool,
    total: i64,
}

fn ev_json(events: &[Ev]) -> Value {
    Value::Array(
        events
            .iter()
            .take(400)
            .map(|e| match e {
                Ev::Fb { elem, badness, penalty, demerits, artificial, prev } => {
                    json!(format!("@{elem} via @@{prev} b={badness} p={penalty} d={demerits}{}", if *artificial { " artificial" } else { "" }))
                }
                Ev::Node { idx, line, class, hyphenated, total, prev, .. } => {
                    json!(format!("@@{idx}: line {line}.{class}{} t={total} -> @@{prev}", if *hyphenated { "-" } else { "" }))
                }
                Ev::Selected(i) => json!(format!("selected @@{i}")),
            })
            .collect(),
    )
}

fn fail(sig: &'static str, m: &Model, o: &Observation, what: Value) -> Verdict {
    Verdict::Fail {
        sig,
        detail: json!({
            "rule": format!("{:?}", m.rule),
            "what": what,
            "legal_breakpoints": m.breaks.iter().map(|b| json!({"pos": b.pos, "penalty": b.penalty, "kind": format!("{:?}", b.kind)})).collect::<Vec<_>>(),
            "trace": ev_json(&o.events),
            "result": o.result,
        }),
    }
}

/// Judge one observation (trace + result) against a prepared model.
pub fn judge(p: &Prepared, o: &Observation, final_pass: bool, st: &mut Stats) -> Option<Verdict> {
    let m = &p.model;
    let nb = m.breaks.len();
    let mut nodes: Vec<NodeInfo> = vec![NodeInfo { brk: None, lines: 0, class: model::DECENT, hyph: false, total: 0 }];
    let mut logged: std::collections::HashSet<(usize, usize)> = Default::default();
    // feasible breaks logged at the current element: (prev node, class, total, lines)
    let mut cur_elem: Option<usize> = None;
    let mut cur_fbs: Vec<(usize, u8, i64, usize)> = vec![];
    let mut selected: Option<usize> = None;
    let mut artificial_here = false;
    let forced_positions: Vec<usize> = m.breaks.iter().filter(|b| b.forced).map(|b| b.pos).collect();

    for ev in &o.events {
        match *ev {
            Ev::Fb { elem, badness, penalty, demerits, artificial, prev } => {
                if cur_elem != Some(elem) {
                    if let Some(c) = cur_elem {
                        if elem < c {
                            return Some(fail("trace-goes-backwards", m, o, json!({"elem": elem})));
                        }
                    }
                    cur_elem = Some(elem);
                    cur_fbs.clear();
                    artificial_here = false;
                }
                let Some(bi) = m.break_at.get(elem).copied().flatten() else {
                    return Some(fail("feasible-break-logged-at-illegal-position", m, o, json!({"elem": elem})));
                };
                let Some(pn) = nodes.get(prev).copied() else {
                    return Some(fail("trace-refers-to-unknown-node", m, o, json!({"elem": elem, "prev": prev})));
                };
                let a_pos = pn.brk.map(|a| m.breaks[a].pos);
                if let Some(ap) = a_pos {
                    if ap >= elem {
                        return Some(fail("line-ends-before-it-starts", m, o, json!({"elem": elem, "prev": prev})));
                    }
                }
                if forced_positions.iter().any(|f| *f < elem && a_pos.map(|ap| *f > ap).unwrap_or(true)) {
                    return Some(fail("line-skips-a-forced-break", m, o, json!({"elem": elem, "prev": prev})));
                }
                let e = m.line(pn.brk, bi, pn.lines + 1);
                if artificial_here {
                    return Some(fail("further-break-logged-after-an-artificial-one", m, o, json!({"elem": elem, "prev": prev})));
                }
                if artificial {
                    // TeX §854: in the final pass the last remaining active node may not be lost; if it
                    // is about to be deactivated (overfull line or forced break) before any candidate was
                    // found, the break is recorded with zero demerits.
                    if !final_pass {
                        return Some(fail("artificial-demerits-outside-the-final-pass", m, o, json!({"elem": elem, "prev": prev})));
                    }
                    if !(e.overfull || m.breaks[bi].forced) || !cur_fbs.is_empty() || demerits != 0 || badness != e.badness {
                        return Some(fail(
                            "artificial-demerits-without-tex-reason",
                            m,
                            o,
                            json!({"elem": elem, "prev": prev, "model_badness": e.badness, "overfull": e.overfull, "forced": m.breaks[bi].forced,
                                   "other_breaks_here": cur_fbs.len(), "logged_demerits": demerits, "logged_badness": badness}),
                        ));
                    }
                    logged.insert((prev, bi));
                    cur_fbs.push((prev, e.class, pn.total, pn.lines + 1));
                    artificial_here = true;
                    st.artificial_in_final_pass = true;
                    st.n_fb += 1;
                    continue;
                }
                if e.badness != badness {
                    return Some(fail(
                        "badness-differs-from-definition",
                        m,
                        o,
                        json!({"elem": elem, "prev_node": prev, "line_from": a_pos, "line_number": pn.lines + 1,
                               "logged_badness": badness, "model_badness": e.badness, "model_line_width": e.width, "model_shortfall": e.shortfall}),
                    ));
                }
                if !e.feasible {
                    return Some(fail("infeasible-break-logged-as-feasible", m, o, json!({"elem": elem, "prev": prev, "badness": badness, "threshold": m.threshold()})));
                }
                if penalty != m.breaks[bi].penalty {
                    return Some(fail("penalty-differs", m, o, json!({"elem": elem, "logged": penalty, "model": m.breaks[bi].penalty})));
                }
                let d = m.demerits(e.badness, bi, pn.class, e.class, pn.hyph);
                if d != demerits as i64 {
                    return Some(fail(
                        "demerits-differ-from-definition",
                        m,
                        o,
                        json!({"elem": elem, "prev_node": prev, "logged_demerits": demerits, "model_demerits": d, "badness": badness,
                               "prev_class": pn.class, "class": e.class, "prev_hyphenated": pn.hyph, "hyphenated": m.breaks[bi].hyphenated}),
                    ));
                }
                if !logged.insert((prev, bi)) {
                    return Some(fail("feasible-break-logged-twice", m, o, json!({"elem": elem, "prev": prev})));
                }
                cur_fbs.push((prev, e.class, pn.total + d, pn.lines + 1));
                st.n_fb += 1;
                if st.badness_seen.len() < 4096 {
                    st.badness_seen.push(badness);
                }
                st.classes_seen[e.class as usize] = true;
                if m.breaks[bi].hyphenated && pn.hyph {
                    st.hyphen_demerits_applied = true;
                }
                if (e.class as i32 - pn.class as i32).abs() > 1 {
                    st.adj_applied = true;
                }
            }
            Ev::Node { idx, line, class, hyphenated, total, artificial, prev } => {
                let Some(elem) = cur_elem else {
                    return Some(fail("new-node-before-any-feasible-break", m, o, json!({"idx": idx})));
                };
                let bi = m.break_at[elem].expect("checked at the feasible break");
                if idx != nodes.len() {
                    return Some(fail("node-index-not-sequential", m, o, json!({"idx": idx, "expected": nodes.len()})));
                }
                if artificial != artificial_here {
                    return Some(fail("new-node-artificial-flag-wrong", m, o, json!({"idx": idx})));
                }
                let Some(fb) = cur_fbs.iter().find(|f| f.0 == prev && f.1 == class).copied() else {
                    return Some(fail(
                        "new-node-without-matching-feasible-break",
                        m,
                        o,
                        json!({"idx": idx, "prev": prev, "class": class, "feasible_breaks_here": cur_fbs.iter().map(|f| json!([f.0, f.1, f.2, f.3])).collect::<Vec<_>>()}),
                    ));
                };
                if fb.3 != line {
                    return Some(fail("new-node-line-number-wrong", m, o, json!({"idx": idx, "logged": line, "model": fb.3})));
                }
                if fb.2 != total as i64 {
                    return Some(fail("new-node-total-demerits-wrong", m, o, json!({"idx": idx, "logged": total, "model": fb.2})));
                }
                if hyphenated != m.breaks[bi].hyphenated {
                    return Some(fail("new-node-hyphenated-flag-wrong", m, o, json!({"idx": idx})));
                }
                // the candidate kept for a (line, class) must be the cheapest one offered
                if let Some(better) = cur_fbs.iter().find(|f| f.1 == class && f.3 == line && f.2 < fb.2) {
                    return Some(fail(
                        "candidate-kept-for-class-is-not-minimal",
                        m,
                        o,
                        json!({"idx": idx, "kept_total": fb.2, "cheaper_prev": better.0, "cheaper_total": better.2}),
                    ));
                }
                nodes.push(NodeInfo { brk: Some(bi), lines: line, class, hyph: hyphenated, total: total as i64 });
                st.n_nodes += 1;
            }
            Ev::Selected(i) => selected = Some(i),
        }
    }

    // completeness: every node must have been offered every feasible line end up to the point
    // where TeX deactivates it (first overfull line end, or the next forced break)
    for (k, n) in nodes.iter().enumerate() {
        let from = n.brk.map(|a| a + 1).unwrap_or(0);
        for bi in from..nb {
            let e = m.line(n.brk, bi, n.lines + 1);
            if e.feasible && !logged.contains(&(k, bi)) {
                return Some(fail(
                    "feasible-line-never-considered",
                    m,
                    o,
                    json!({"node": k, "from": n.brk.map(|a| m.breaks[a].pos), "to": m.breaks[bi].pos, "line_number": n.lines + 1,
                           "model_badness": e.badness, "threshold": m.threshold()}),
                ));
            }
            if e.overfull || m.breaks[bi].forced {
                break;
            }
        }
    }

    // result
    let exp = m.expected(&p.sol, final_pass);
    st.feasible = p.sol.feasible();
    st.n_breaks = nb;
    st.line_counts_available = p.sol.best_by_lines.len();
    st.forced_break_inside = m.breaks.iter().take(nb - 1).any(|b| b.forced);
    match (&o.result, &exp) {
        (None, Expected::NoSolution) => {
            st.result_none_because_looseness = p.sol.feasible();
        }
        (None, Expected::NoneOrOneOf(_)) => {
            st.result_none_because_looseness = true;
            st.ties_possible = true;
        }
        (None, Expected::OneOf(v)) => {
            return Some(fail(
                "no-breakpoints-although-a-feasible-sequence-exists",
                m,
                o,
                json!({"model_optimum": v, "witness": p.sol.best_by_lines.get(&v[0].0).map(|x| x.1.clone())}),
            ));
        }
        (Some(seq), Expected::NoSolution) => {
            let why = if p.sol.feasible() { "requested looseness not reachable in a non-final pass (TeX §873 gives the pass up)" } else { "no feasible sequence exists" };
            return Some(fail(
                if p.sol.feasible() { "breakpoints-returned-although-looseness-unreachable" } else { "breakpoints-returned-although-no-feasible-sequence" },
                m,
                o,
                json!({"why": why, "returned": seq, "judged": format!("{:?}", m.evaluate_positions(seq)), "available_line_counts": p.sol.best_by_lines.iter().map(|(l, v)| (*l, v.0)).collect::<Vec<_>>()}),
            ));
        }
        (Some(seq), Expected::OneOf(v)) | (Some(seq), Expected::NoneOrOneOf(v)) => {
            let (lines, total) = match m.evaluate_positions(seq) {
                Ok(x) => x,
                Err(why) => return Some(fail("returned-sequence-is-not-feasible", m, o, json!({"why": why, "returned": seq}))),
            };
            if !v.contains(&(lines, total)) {
                let sig = if v.iter().any(|e| e.0 == lines) || m.params.looseness == 0 {
                    "returned-sequence-is-not-demerit-optimal"
                } else {
                    "looseness-line-count-wrong"
                };
                return Some(fail(
                    sig,
                    m,
                    o,
                    json!({"returned": seq, "returned_lines": lines, "returned_total": total, "acceptable": v,
                           "available_line_counts": p.sol.best_by_lines.iter().map(|(l, v)| (*l, v.0)).collect::<Vec<_>>(),
                           "witness": v.first().and_then(|e| p.sol.best_by_lines.get(&e.0)).map(|x| x.1.clone())}),
                ));
            }
            if v.len() > 1 {
                st.ties_possible = true;
            }
            // the selected node's chain must be the returned sequence
            if let Some(sel) = selected {
                let mut chain = vec![];
                let mut k = sel;
                let mut guard = 0;
                while k != 0 && guard < 100_000 {
                    guard += 1;
                    let Some(n) = nodes.get(k) else { break };
                    chain.push(m.breaks[n.brk.expect("non-start node")].pos);
                    // predecessor: the node whose feasible break created it
                    k = match o.events.iter().find_map(|e| match e {
                        Ev::Node { idx, prev, .. } if *idx == k => Some(*prev),
                        _ => None,
                    }) {
                        Some(p) => p,
                        None => break,
                    };
                }
                chain.reverse();
                if &chain != seq {
                    return Some(fail("selected-node-chain-differs-from-result", m, o, json!({"chain": chain, "returned": seq})));
                }
                if !st.artificial_in_final_pass && nodes.get(sel).map(|n| n.total) != Some(total) {
                    return Some(fail("selected-node-total-differs-from-sequence-total", m, o, json!({"selected": sel, "sequence_total": total})));
                }
            } else {
                return Some(fail("no-selected-node-logged", m, o, Value::Null));
            }
            if final_pass {
                st.forced_lines = lines;
            } else {
                st.lines = lines;
            }
        }
    }
    None
}

/// Judge the unforced observation and - if given and if the model says a feasible sequence exists -
/// the forced (final-pass) observation as well.
pub fn judge_all(
    items: &[Item],
    params: &model::Params,
    rule: Rule,
    unforced: &Observation,
    forced: Option<&Result<Observation, PanicInfo>>,
) -> Verdict {
    let p = match prepare(items, params, rule) {
        Ok(p) => p,
        Err(v) => return v,
    };
    let mut st = Stats::default();
    st.brute_checked = p.model.breaks.len() - 1 - p.model.breaks.iter().take(p.model.breaks.len() - 1).filter(|b| b.forced).count() <= 12;
    if let Some(v) = judge(&p, unforced, false, &mut st) {
        return v;
    }
    if let (Some(f), true) = (forced, p.sol.feasible()) {
        match f {
            Ok(o) => {
                let mut st2 = Stats::default();
                if let Some(v) = judge(&p, o, true, &mut st2) {
                    return match v {
                        Verdict::Fail { sig, detail } => Verdict::Fail {
                            sig,
                            detail: json!({"observation": "force_solution=true (final pass) on a feasible instance", "detail": detail}),
                        },
                        other => other,
                    };
                }
                st.forced_observation_judged = true;
                st.forced_lines = st2.forced_lines;
            }
            Err(pi) => {
                return Verdict::Fail {
                    sig: "panic-in-final-pass-on-feasible-instance",
                    detail: json!({"panic": pi.signature(), "message": pi.message}),
                }
            }
        }
    }
    // multi-class evidence
    let mut per_elem: std::collections::BTreeMap<usize, u32> = Default::default();
    for e in &unforced.events {
        if let Ev::Node { .. } = e {
            // counted below through cur position; cheap approximation: consecutive nodes
        }
        if let Ev::Fb { elem, .. } = e {
            per_elem.entry(*elem).or_insert(0);
        }
    }
    let mut last_elem = None;
    for e in &unforced.events {
        match e {
            Ev::Fb { elem, .. } => last_elem = Some(*elem),
            Ev::Node { .. } => {
                if let Some(le) = last_elem {
                    *per_elem.entry(le).or_insert(0) += 1;
                }
            }
            _ => {}
        }
    }
    st.multi_class_breaks = per_elem.values().filter(|c| **c > 1).count();
    Verdict::Pass(st)
}
