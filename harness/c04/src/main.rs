fn main() {
    vcore::run_main(&c04::MONITOR)
}
