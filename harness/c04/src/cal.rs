//! (1) Calibration of the MODEL against the TeX-produced `\tracingparagraphs` logs in
//! `boxworks-knuthplass/testdata` (no code under test involved: the lists are built with the
//! repository's text pre-processor and hyphenator, the numbers come from TeX's logs), and
//! (2) the 'books' phase, which runs the real line breaker on the same excerpts at random widths.

use crate::judge::{to_items, to_params, Instance};
use crate::{check_instance, Tally};
use boxworks::ds;
use boxworks::TextPreprocessor;
use boxworks_knuthplass as kp;
use boxworks_text as bwt;
use common::Scaled;
use std::cell::RefCell;
use std::rc::Rc;
use vcore::*;
use vmodels::knuthplass as model;
use vmodels::knuthplass::{BreakKind, Model, Rule};

// ------------------------------------------------------------------------------------------
// building the paragraphs the way the repository's tests do

pub struct Typesetter {
    pub font_repo: bwt::TfmFontRepo,
    lig_kern: tfm::ligkern::CompiledProgram,
    hyphenator: boxworks_hyphenate::Hyphenator,
}

impl Typesetter {
    pub fn load() -> Result<Typesetter, String> {
        let path = repo_dir().join("crates/tfm/corpus/computer-modern/cmr10.tfm");
        let bytes = std::fs::read(&path).map_err(|e| format!("cannot read {}: {e}", path.display()))?;
        let mut file = tfm::File::deserialize(&bytes).0.map_err(|_| "cmr10.tfm does not deserialize".to_string())?;
        let lig_kern = tfm::ligkern::CompiledProgram::compile_from_tfm_file(&mut file).0;
        let mut font_repo: bwt::TfmFontRepo = Default::default();
        font_repo.register_font(0, file);
        let hyphenator = boxworks_hyphenate::Hyphenator::plain_tex_en_us(lig_kern.clone());
        Ok(Typesetter { font_repo, lig_kern, hyphenator })
    }

    /// The horizontal list of the paragraph as `LineBreaker::break_line` hands it to the first
    /// pass (TeX §816: final glue removed, `\penalty10000\parfillskip` appended).
    pub fn paragraph(&self, text: &str, text_params: bwt::Params, par_fill_skip: common::Glue) -> Result<Vec<ds::Horizontal>, String> {
        let path = repo_dir().join("crates/tfm/corpus/computer-modern/cmr10.tfm");
        let bytes = std::fs::read(&path).map_err(|e| format!("{e}"))?;
        let file = tfm::File::deserialize(&bytes).0.map_err(|_| "tfm".to_string())?;
        let mut tp = bwt::TextPreprocessorImpl::new(text_params);
        tp.register_font(0, &file, self.lig_kern.clone());
        tp.activate_font(0);
        let mut list = vec![];
        for word in text.split_ascii_whitespace() {
            tp.add_word(word.trim_matches(' '), &mut list);
            tp.add_space(&mut list);
        }
        if matches!(list.last(), Some(ds::Horizontal::Glue(_))) {
            list.pop();
        }
        list.push(ds::Horizontal::Penalty(ds::Penalty::INFINITE));
        list.push(ds::Horizontal::Glue(ds::Glue { kind: ds::GlueKind::Normal, value: par_fill_skip }));
        Ok(list)
    }

    pub fn hyphenated(&self, list: &[ds::Horizontal]) -> Vec<ds::Horizontal> {
        use boxworks::Hyphenator;
        let mut l = list.to_vec();
        self.hyphenator.hyphenate(&mut l);
        l
    }
}

fn read_testdata(name: &str) -> Result<String, String> {
    let p = repo_dir().join("crates/boxworks-knuthplass/testdata").join(name);
    std::fs::read_to_string(&p).map_err(|e| format!("cannot read {}: {e}", p.display()))
}

// ------------------------------------------------------------------------------------------
// the golden table (transcribed from the `tests!` table in boxworks-knuthplass/src/lib.rs)

struct Golden {
    name: &'static str,
    input: &'static str,
    widths: &'static [&'static str],
    log: &'static str,
    want: &'static str,
    set: fn(&mut kp::Params, &mut bwt::Params),
}

fn pt(s: &str) -> Scaled {
    Scaled::parse_from_string(s).expect("dimension literal")
}

fn goldens() -> Vec<Golden> {
    fn none(_: &mut kp::Params, _: &mut bwt::Params) {}
    let g = |name, input, widths, log, want, set| Golden { name, input, widths, log, want, set };
    vec![
        g("wolf_hall_5in", "wolf_hall_input.txt", &["5in"], "wolf_hall_5in_log.txt", "wolf_hall_5in_want.txt", none),
        g("wolf_hall_3in", "wolf_hall_input.txt", &["3in"], "wolf_hall_3in_log.txt", "wolf_hall_3in_want.txt", none),
        g("wolf_hall_2in", "wolf_hall_input.txt", &["2in"], "wolf_hall_2in_log.txt", "wolf_hall_2in_want.txt", none),
        g("wolf_hall_1in", "wolf_hall_input.txt", &["1in"], "wolf_hall_1in_log.txt", "wolf_hall_1in_want.txt", none),
        g("wolf_hall_emergency_stretch", "wolf_hall_input.txt", &["1in"], "wolf_hall_emergency_stretch_log.txt", "wolf_hall_emergency_stretch_want.txt", |p, _| {
            p.emergency_stretch = pt("10.0pt")
        }),
        g("wolf_hall_emergency_stretch_2", "wolf_hall_input.txt", &["3in"], "wolf_hall_emergency_stretch_2_log.txt", "wolf_hall_emergency_stretch_2_want.txt", |p, _| {
            p.emergency_stretch = pt("10.0pt")
        }),
        g("wolf_hall_variable_widths", "wolf_hall_input.txt", &["5in", "4in", "3in", "4in"], "wolf_hall_variable_widths_log.txt", "wolf_hall_variable_widths_want.txt", none),
        g("farewell_to_arms_looseness_plus_1", "farewell_to_arms_input.txt", &["3in"], "farewell_to_arms_looseness_plus_1_log.txt", "farewell_to_arms_looseness_plus_1_want.txt", |p, _| p.looseness = 1),
        g("farewell_to_arms_looseness_minus_1", "farewell_to_arms_input.txt", &["5in"], "farewell_to_arms_looseness_minus_1_log.txt", "farewell_to_arms_looseness_minus_1_want.txt", |p, _| p.looseness = -1),
        g("wolf_hall_ragged_right", "wolf_hall_input.txt", &["5in"], "wolf_hall_ragged_right_log.txt", "wolf_hall_ragged_right.txt", |p, t| {
            t.space_skip = common::Glue { width: pt("3.33298pt"), ..Default::default() };
            t.extra_space_skip = common::Glue { width: pt("5.0pt"), ..Default::default() };
            p.right_skip = common::Glue { stretch: pt("20.00003pt"), ..Default::default() };
        }),
        g("wolf_hall_adj_demerits", "wolf_hall_input.txt", &["3in"], "wolf_hall_adj_demerits_log.txt", "wolf_hall_adj_demerits_want.txt", |p, _| p.adj_demerits = -10000),
        g("wolf_hall_broken_penalty", "wolf_hall_input.txt", &["3in"], "wolf_hall_broken_penalty_log.txt", "wolf_hall_broken_penalty_want.txt", |p, _| p.broken_penalty = 500),
        g("wolf_hall_club_penalty", "wolf_hall_input.txt", &["3in"], "wolf_hall_club_penalty_log.txt", "wolf_hall_club_penalty_want.txt", |p, _| p.club_penalty = 1000),
        g("wolf_hall_double_hyphen_demerits", "wolf_hall_input.txt", &["3in"], "wolf_hall_double_hyphen_demerits_log.txt", "wolf_hall_double_hyphen_demerits_want.txt", |p, _| {
            p.double_hyphen_demerits = -100000
        }),
        g("wolf_hall_stone_eyed", "wolf_hall_stone_eyed_input.txt", &["3in"], "wolf_hall_stone_eyed_log.txt", "wolf_hall_stone_eyed_want.txt", none),
        g("wolf_hall_ex_hyphen_penalty", "wolf_hall_stone_eyed_input.txt", &["3in"], "wolf_hall_ex_hyphen_penalty_log.txt", "wolf_hall_ex_hyphen_penalty_want.txt", |p, _| {
            p.ex_hyphen_penalty = -10000
        }),
        g("wolf_hall_final_hyphen_demerits", "wolf_hall_input.txt", &["3in"], "wolf_hall_final_hyphen_demerits_log.txt", "wolf_hall_final_hyphen_demerits_want.txt", |p, _| {
            p.final_hyphen_demerits = 0
        }),
        g("wolf_hall_final_widow_penalty", "wolf_hall_input.txt", &["3in"], "wolf_hall_final_widow_penalty_log.txt", "wolf_hall_final_widow_penalty_want.txt", |p, _| {
            p.final_widow_penalty = 1000
        }),
        g("wolf_hall_hyphen_penalty", "wolf_hall_input.txt", &["3in"], "wolf_hall_hyphen_penalty_log.txt", "wolf_hall_hyphen_penalty_want.txt", |p, _| p.hyphen_penalty = 10000),
        g("wolf_hall_inter_line_penalty", "wolf_hall_input.txt", &["3in"], "wolf_hall_inter_line_penalty_log.txt", "wolf_hall_inter_line_penalty_want.txt", |p, _| {
            p.inter_line_penalty = 100
        }),
        g("wolf_hall_left_skip", "wolf_hall_input.txt", &["3in"], "wolf_hall_left_skip_log.txt", "wolf_hall_left_skip_want.txt", |p, _| {
            p.left_skip = common::Glue { width: pt("20.0pt"), ..Default::default() }
        }),
        g("wolf_hall_line_penalty", "wolf_hall_input.txt", &["3in"], "wolf_hall_line_penalty_log.txt", "wolf_hall_line_penalty_want.txt", |p, _| p.line_penalty = 100),
        g("wolf_hall_par_fill_skip", "wolf_hall_input.txt", &["3in"], "wolf_hall_par_fill_skip_log.txt", "wolf_hall_par_fill_skip_want.txt", |p, _| p.par_fill_skip = common::Glue::ZERO),
        g("wolf_hall_pre_tolerance", "wolf_hall_input.txt", &["3in"], "wolf_hall_pre_tolerance_log.txt", "wolf_hall_pre_tolerance_want.txt", |p, _| p.pre_tolerance = 10000),
        g("wolf_hall_right_skip", "wolf_hall_input.txt", &["3in"], "wolf_hall_right_skip_log.txt", "wolf_hall_right_skip_want.txt", |p, _| {
            p.right_skip = common::Glue { stretch: pt("20.00003pt"), ..Default::default() }
        }),
        g("wolf_hall_tolerance", "wolf_hall_input.txt", &["3in"], "wolf_hall_tolerance_log.txt", "wolf_hall_tolerance_want.txt", |p, _| p.tolerance = 45),
        g("alice_paragraph_1_10in", "alice_paragraph_1.txt", &["10in"], "alice_paragraph_1_log.txt", "alice_paragraph_1_want.txt", none),
        g("alice_paragraph_2_10in", "alice_paragraph_2.txt", &["10in"], "alice_paragraph_2_log.txt", "alice_paragraph_2_want.txt", none),
    ]
}

// ------------------------------------------------------------------------------------------
// parsing TeX's \tracingparagraphs output

#[derive(Debug, Clone)]
enum Tok {
    Fb { kind: &'static str, prev: usize, b: Option<i32>, p: i32, d: Option<i32> },
    Node { idx: usize, line: usize, class: u8, hyph: bool, total: i64, prev: usize },
}

struct Pass {
    name: String,
    toks: Vec<Tok>,
}

fn num_or_star(s: &str) -> Result<Option<i32>, String> {
    if s == "*" {
        Ok(None)
    } else {
        s.parse::<i32>().map(Some).map_err(|_| format!("bad number {s:?}"))
    }
}

fn parse_log(text: &str) -> Result<Vec<Pass>, String> {
    let mut passes: Vec<Pass> = vec![];
    for raw in text.lines() {
        let l = raw.trim();
        if l.is_empty() {
            continue;
        }
        if let Some(name) = l.strip_prefix('@') {
            if name == "firstpass" || name == "secondpass" || name == "emergencypass" {
                passes.push(Pass { name: name.to_string(), toks: vec![] });
                continue;
            }
        }
        let Some(pass) = passes.last_mut() else {
            continue;
        };
        if let Some(rest) = l.strip_prefix("@@") {
            // "@@1: line 1.1- t=1444 -> @@0"
            let (idx, rest) = rest.split_once(": line ").ok_or_else(|| format!("bad node line {l:?}"))?;
            let (lc, rest) = rest.split_once(" t=").ok_or_else(|| format!("bad node line {l:?}"))?;
            let (t, prev) = rest.split_once(" -> @@").ok_or_else(|| format!("bad node line {l:?}"))?;
            let (line, class) = lc.split_once('.').ok_or_else(|| format!("bad node line {l:?}"))?;
            let hyph = class.ends_with('-');
            let class = class.trim_end_matches('-');
            pass.toks.push(Tok::Node {
                idx: idx.parse().map_err(|_| format!("bad node line {l:?}"))?,
                line: line.parse().map_err(|_| format!("bad node line {l:?}"))?,
                class: class.parse().map_err(|_| format!("bad node line {l:?}"))?,
                hyph,
                total: t.parse().map_err(|_| format!("bad node line {l:?}"))?,
                prev: prev.parse().map_err(|_| format!("bad node line {l:?}"))?,
            });
        } else if l.starts_with('@') && l.contains(" via @@") {
            // "@ via @@0 b=28 p=0 d=1444" / "@\discretionary via @@1 b=4 p=50 d=12696" / "@\par via ..."
            let (head, rest) = l.split_once(" via @@").ok_or_else(|| format!("bad break line {l:?}"))?;
            let kind = match head {
                "@" => "",
                "@\\discretionary" => "disc",
                "@\\par" => "par",
                _ => return Err(format!("unknown break kind in {l:?}")),
            };
            let mut it = rest.split_whitespace();
            let prev = it.next().ok_or("prev")?.parse().map_err(|_| format!("bad break line {l:?}"))?;
            let b = num_or_star(it.next().and_then(|s| s.strip_prefix("b=")).ok_or("b=")?)?;
            let p = it.next().and_then(|s| s.strip_prefix("p=")).ok_or("p=")?.parse().map_err(|_| format!("bad break line {l:?}"))?;
            let d = num_or_star(it.next().and_then(|s| s.strip_prefix("d=")).ok_or("d=")?)?;
            pass.toks.push(Tok::Fb { kind, prev, b, p, d });
        }
        // anything else is the printed text of the paragraph
    }
    Ok(passes)
}

// ------------------------------------------------------------------------------------------
// replaying a golden pass against the model

#[derive(Clone, Copy)]
struct GNode {
    idx: usize,
    brk: Option<usize>,
    lines: usize,
    class: u8,
    hyph: bool,
    total: i64,
}

struct ReplayOutcome {
    /// nodes created at the final break: (line, total); if the final break itself was recorded with
    /// artificial (zero) demerits the model's demerits of that last line are added back
    final_nodes: Vec<(usize, i64)>,
    /// an artificial break somewhere before the end of the paragraph: totals are not comparable
    artificial: bool,
}

fn replay_pass(m: &Model, pass: &Pass, final_pass: bool, obs: &mut Obs) -> Result<ReplayOutcome, String> {
    let nb = m.breaks.len();
    let mut active: Vec<GNode> = vec![GNode { idx: 0, brk: None, lines: 0, class: model::DECENT, hyph: false, total: 0 }];
    let mut all_nodes: Vec<GNode> = active.clone();
    let mut pos = 0usize;
    let mut artificial = false;
    let mut final_shift: i64 = 0;
    let mut final_nodes = vec![];
    for j in 0..nb {
        if active.is_empty() {
            break;
        }
        let br = &m.breaks[j];
        let kind = match br.kind {
            BreakKind::Disc => "disc",
            BreakKind::Final => "par",
            _ => "",
        };
        // what the definitions predict for the nodes TeX still keeps active
        let mut pred: Vec<(usize, i32, i32, i64, u8)> = vec![];
        let mut deact: Vec<usize> = vec![];
        for n in &active {
            let e = m.line(n.brk, j, n.lines + 1);
            if e.feasible {
                pred.push((n.idx, e.badness, br.penalty, m.demerits(e.badness, j, n.class, e.class, n.hyph), e.class));
            }
            if e.overfull || br.forced {
                deact.push(n.idx);
            }
        }
        let mut new_nodes: Vec<GNode> = vec![];
        // TeX §854: in the final pass, when the last node of the active list is about to be
        // deactivated (overfull line or forced break), every other node has just been deactivated
        // and no candidate has been found, its break is recorded with artificial (zero) demerits.
        let art_from: Option<GNode> = if final_pass {
            let last = *active.last().expect("non-empty");
            let e = m.line(last.brk, j, last.lines + 1);
            let others_gone = active.iter().all(|n| n.idx == last.idx || deact.contains(&n.idx));
            let others_feasible = pred.iter().any(|x| x.0 != last.idx);
            if (e.overfull || br.forced) && others_gone && !others_feasible {
                Some(last)
            } else {
                None
            }
        } else {
            None
        };
        if let Some(last) = art_from {
            let e = m.line(last.brk, j, last.lines + 1);
            match pass.toks.get(pos) {
                Some(Tok::Fb { d: None, kind: k, prev, b, p }) if *k == kind && *prev == last.idx && *p == br.penalty && (b.is_none() && e.overfull || *b == Some(e.badness)) => pos += 1,
                other => {
                    return Err(format!(
                        "breakpoint {} (pos {}): expected an artificial-demerits break via @@{} (b={}), golden has {other:?}",
                        j, br.pos, last.idx, e.badness
                    ))
                }
            }
            if j == nb - 1 && e.feasible {
                // every complete sequence ends with this very line: adding its true demerits back
                // makes the totals comparable with the model's
                final_shift = m.demerits(e.badness, j, last.class, e.class, last.hyph);
            } else {
                artificial = true;
            }
            obs.count("cal:kp artificial-demerit breaks equal to TeX's log");
            while let Some(Tok::Node { idx, line, class, hyph, total, prev }) = pass.toks.get(pos) {
                if *prev != last.idx || *total != last.total || *line != last.lines + 1 || *class != e.class || *hyph != br.hyphenated {
                    return Err(format!("breakpoint {} (pos {}): node after artificial break differs: golden {:?}, model line {} class {} t={}", j, br.pos, pass.toks.get(pos), last.lines + 1, e.class, last.total));
                }
                new_nodes.push(GNode { idx: *idx, brk: Some(j), lines: *line, class: *class, hyph: *hyph, total: *total });
                pos += 1;
            }
        } else if pred.is_empty() {
            // no feasible break here: TeX prints nothing
        } else {
            let mut seen = 0usize;
            let mut got_fbs: Vec<(usize, Option<i32>, i32, Option<i32>)> = vec![];
            let mut got_nodes: Vec<Tok> = vec![];
            loop {
                match pass.toks.get(pos) {
                    Some(Tok::Fb { kind: k, prev, b, p, d }) if seen < pred.len() => {
                        if *k != kind {
                            return Err(format!("breakpoint {} (pos {}, {:?}): golden break kind {k:?} differs from the model's {kind:?}", j, br.pos, br.kind));
                        }
                        got_fbs.push((*prev, *b, *p, *d));
                        seen += 1;
                        pos += 1;
                    }
                    Some(t @ Tok::Node { .. }) => {
                        got_nodes.push(t.clone());
                        pos += 1;
                    }
                    _ => break,
                }
            }
            if seen != pred.len() {
                return Err(format!(
                    "breakpoint {} (pos {}): the model predicts {} feasible breaks {:?}, the golden log has {} {:?}",
                    j,
                    br.pos,
                    pred.len(),
                    pred,
                    seen,
                    got_fbs
                ));
            }
            for (prev, b, p, d) in &got_fbs {
                let Some(pr) = pred.iter().find(|x| x.0 == *prev) else {
                    return Err(format!("breakpoint {} (pos {}): golden break via @@{prev} is not feasible in the model; predicted {:?}", j, br.pos, pred));
                };
                if Some(pr.1) != *b || pr.2 != *p || Some(pr.3) != d.map(|x| x as i64) {
                    return Err(format!(
                        "breakpoint {} (pos {}) via @@{prev}: golden b={b:?} p={p} d={d:?}, model b={} p={} d={}",
                        j, br.pos, pr.1, pr.2, pr.3
                    ));
                }
                obs.count("cal:kp feasible breaks equal to TeX's log (b, p, d)");
            }
            for t in got_nodes {
                let Tok::Node { idx, line, class, hyph, total, prev } = t else { continue };
                let Some(pr) = pred.iter().find(|x| x.0 == prev && x.4 == class) else {
                    return Err(format!("breakpoint {} (pos {}): golden node @@{idx} (class {class}) has no matching predicted break via @@{prev}: {:?}", j, br.pos, pred));
                };
                let pn = all_nodes.iter().find(|n| n.idx == prev).ok_or("unknown prev node")?;
                if pn.total + pr.3 != total || pn.lines + 1 != line || hyph != br.hyphenated {
                    return Err(format!("breakpoint {} (pos {}): golden node @@{idx} line {line} t={total}; model line {} t={}", j, br.pos, pn.lines + 1, pn.total + pr.3));
                }
                obs.count("cal:kp new active nodes equal to TeX's log (line, class, total)");
                new_nodes.push(GNode { idx, brk: Some(j), lines: line, class, hyph, total });
            }
        }
        active.retain(|n| !deact.contains(&n.idx));
        for n in new_nodes {
            if j == nb - 1 {
                final_nodes.push((n.lines, n.total + final_shift));
            }
            all_nodes.push(n);
            active.push(n);
        }
    }
    if pos != pass.toks.len() {
        return Err(format!("golden log has {} more events than the model predicts; next: {:?}", pass.toks.len() - pos, pass.toks.get(pos)));
    }
    Ok(ReplayOutcome { final_nodes, artificial })
}

fn count_lines_in_want(text: &str) -> Option<usize> {
    let parsed = catch(|| boxworks::lang::parse_horizontal_list(text).ok()).ok()??;
    for top in &parsed {
        if let ds::Horizontal::VBox(vb) = top {
            return Some(vb.list.iter().filter(|v| matches!(v, ds::Vertical::HBox(_))).count());
        }
    }
    None
}

pub fn calibrate(obs: &mut Obs) {
    // VERIF_CAL_VERBOSE=1 prints the details of calibration mismatches (development aid)
    let was_verbose = obs.verbose;
    if std::env::var("VERIF_CAL_VERBOSE").is_ok() {
        obs.verbose = true;
    }
    calibrate_impl(obs);
    obs.verbose = was_verbose;
}

fn calibrate_impl(obs: &mut Obs) {
    let ts = match Typesetter::load() {
        Ok(t) => t,
        Err(e) => {
            obs.inconclusive(format!("calibration: {e}"));
            return;
        }
    };
    for g in goldens() {
        let (input, log) = match (read_testdata(g.input), read_testdata(g.log)) {
            (Ok(a), Ok(b)) => (a, b),
            (Err(e), _) | (_, Err(e)) => {
                obs.inconclusive(format!("calibration: {e}"));
                continue;
            }
        };
        let mut params = kp::Params::plain_tex_defaults();
        let mut tparams = bwt::Params::plain_tex_defaults();
        (g.set)(&mut params, &mut tparams);
        let widths: Vec<Scaled> = g.widths.iter().map(|w| pt(w)).collect();
        let plain = match ts.paragraph(&input, tparams, params.par_fill_skip) {
            Ok(l) => l,
            Err(e) => {
                obs.inconclusive(format!("calibration: {e}"));
                continue;
            }
        };
        let hyph = ts.hyphenated(&plain);
        let passes = match parse_log(&log) {
            Ok(p) => p,
            Err(e) => {
                obs.violation("golden-log-unparsable", json!({"golden": g.name, "error": e}));
                continue;
            }
        };
        obs.count("cal:kp golden logs");
        let n_passes = passes.len();
        for (pi, pass) in passes.iter().enumerate() {
            let (list, tol, emergency) = match pass.name.as_str() {
                "firstpass" => (&plain, params.pre_tolerance, Scaled::ZERO),
                "secondpass" => (&hyph, params.tolerance, Scaled::ZERO),
                _ => (&hyph, params.tolerance, params.emergency_stretch),
            };
            let final_pass = pass.name == "emergencypass" || (pass.name == "secondpass" && params.emergency_stretch.is_zero());
            let inst = Instance {
                list: list.clone(),
                params: kp::Params { ..clone_params(&params) },
                widths: widths.clone(),
                tolerance: tol,
                emergency,
            };
            let items = match to_items(&inst.list, &ts.font_repo) {
                Ok(i) => i,
                Err(e) => {
                    obs.violation("golden-list-unconvertible", json!({"golden": g.name, "error": e}));
                    continue;
                }
            };
            let mp = to_params(&inst).expect("finite shrink");
            let m = match Model::new(items, mp, Rule::Tex) {
                Ok(m) => m,
                Err(e) => {
                    obs.violation("golden-list-outside-model-domain", json!({"golden": g.name, "error": e}));
                    continue;
                }
            };
            obs.count("cal:kp golden passes replayed");
            match replay_pass(&m, pass, final_pass, obs) {
                Err(e) => {
                    obs.violation("kp-model-vs-tex-golden-log", json!({"golden": g.name, "pass": pass.name, "error": e}));
                }
                Ok(out) => {
                    // the optimum
                    let last = pi + 1 == n_passes;
                    if out.artificial {
                        obs.count("cal:kp passes with artificial demerits (optimum not compared)");
                        continue;
                    }
                    if !m.monotone() {
                        obs.count("cal:kp non-monotone golden passes (optimum not compared)");
                        continue;
                    }
                    let sol = m.solve_dp();
                    let exp = m.expected(&sol, final_pass);
                    if !last {
                        // TeX went on to another pass: this one must have failed by the definitions too
                        match exp {
                            model::Expected::NoSolution | model::Expected::NoneOrOneOf(_) => obs.count("cal:kp failed passes: model agrees that no acceptable sequence exists"),
                            model::Expected::OneOf(v) => {
                                obs.violation("kp-model-finds-solution-where-tex-gave-up", json!({"golden": g.name, "pass": pass.name, "model": v}));
                            }
                        }
                        continue;
                    }
                    let golden_choice: Option<(usize, i64)> = if params.looseness == 0 {
                        out.final_nodes.iter().min_by_key(|n| n.1).copied()
                    } else {
                        let want_lines = read_testdata(g.want).ok().and_then(|t| count_lines_in_want(&t));
                        want_lines.and_then(|wl| out.final_nodes.iter().filter(|n| n.0 == wl).min_by_key(|n| n.1).copied())
                    };
                    let ok = match (&exp, golden_choice) {
                        (model::Expected::OneOf(v), Some(c)) | (model::Expected::NoneOrOneOf(v), Some(c)) => {
                            if params.looseness == 0 {
                                v.iter().any(|e| e.1 == c.1)
                            } else {
                                v.contains(&c)
                            }
                        }
                        _ => false,
                    };
                    if ok {
                        obs.count("cal:kp optimum equals TeX's choice (total demerits, line count under looseness)");
                    } else {
                        obs.violation(
                            "kp-model-optimum-vs-tex-golden",
                            json!({"golden": g.name, "pass": pass.name, "model_expected": format!("{exp:?}"), "tex": golden_choice, "final_nodes": out.final_nodes}),
                        );
                    }
                }
            }
        }
    }
}

fn clone_params(p: &kp::Params) -> kp::Params {
    kp::Params {
        adj_demerits: p.adj_demerits,
        broken_penalty: p.broken_penalty,
        double_hyphen_demerits: p.double_hyphen_demerits,
        club_penalty: p.club_penalty,
        emergency_stretch: p.emergency_stretch,
        ex_hyphen_penalty: p.ex_hyphen_penalty,
        final_hyphen_demerits: p.final_hyphen_demerits,
        final_widow_penalty: p.final_widow_penalty,
        hyphen_penalty: p.hyphen_penalty,
        inter_line_penalty: p.inter_line_penalty,
        left_skip: p.left_skip,
        line_penalty: p.line_penalty,
        looseness: p.looseness,
        par_fill_skip: p.par_fill_skip,
        pre_tolerance: p.pre_tolerance,
        right_skip: p.right_skip,
        tolerance: p.tolerance,
    }
}

// ------------------------------------------------------------------------------------------
// the 'books' phase

struct Books {
    ts: Typesetter,
    /// (plain, hyphenated) per excerpt
    lists: Vec<(Vec<ds::Horizontal>, Vec<ds::Horizontal>)>,
}

thread_local! {
    static BOOKS: RefCell<Option<Rc<Result<Books, String>>>> = const { RefCell::new(None) };
}

const EXCERPTS: [&str; 4] = ["wolf_hall_input.txt", "farewell_to_arms_input.txt", "alice_paragraph_1.txt", "alice_paragraph_2.txt"];

fn books() -> Rc<Result<Books, String>> {
    BOOKS.with(|b| {
        let mut b = b.borrow_mut();
        if b.is_none() {
            let r = (|| {
                let ts = Typesetter::load()?;
                let mut lists = vec![];
                for e in EXCERPTS {
                    let text = read_testdata(e)?;
                    let plain = ts.paragraph(&text, bwt::Params::plain_tex_defaults(), kp::Params::plain_tex_defaults().par_fill_skip)?;
                    let hy = ts.hyphenated(&plain);
                    lists.push((plain, hy));
                }
                Ok(Books { ts, lists })
            })();
            *b = Some(Rc::new(r));
        }
        b.as_ref().expect("set above").clone()
    })
}

pub fn books_case(idx: u64, rng: &mut Rng, obs: &mut Obs, tally: &mut Tally) {
    let b = books();
    let b = match &*b {
        Ok(b) => b,
        Err(e) => {
            obs.inconclusive(format!("books: {e}"));
            return;
        }
    };
    let which = (idx % EXCERPTS.len() as u64) as usize;
    let hyphenated = (idx / EXCERPTS.len() as u64) % 2 == 1;
    let list = if hyphenated { b.lists[which].1.clone() } else { b.lists[which].0.clone() };
    let mut params = kp::Params::plain_tex_defaults();
    if rng.chance(1, 2) {
        let r = crate::gen::rand_params(rng, false);
        params.line_penalty = r.line_penalty.min(200);
        params.hyphen_penalty = r.hyphen_penalty;
        params.ex_hyphen_penalty = r.ex_hyphen_penalty;
        params.adj_demerits = r.adj_demerits;
        params.double_hyphen_demerits = r.double_hyphen_demerits;
        params.final_hyphen_demerits = r.final_hyphen_demerits;
        params.looseness = r.looseness;
        params.right_skip = r.right_skip;
        params.left_skip = r.left_skip;
    }
    let n_w = rng.weighted(&[6, 2, 1, 1]) + 1;
    let base = rng.range_i32(72 * 65536, 720 * 65536);
    let widths: Vec<Scaled> = (0..n_w).map(|k| Scaled(if k == 0 { base } else { (base as i64 * rng.range_i64(70, 130) / 100) as i32 })).collect();
    let tolerance = match rng.below(10) {
        0 | 1 => 100,
        2..=5 => 200,
        6 | 7 => 1000,
        8 => rng.range_i32(20, 500),
        _ => 10000,
    };
    let inst = Instance { list, params, widths, tolerance, emergency: if rng.chance(1, 8) { Scaled(rng.range_i32(0, 20 * 65536)) } else { Scaled::ZERO } };
    tally.hit(if hyphenated { "books:hyphenated-list" } else { "books:plain-list" });
    if check_instance(&inst, &b.ts.font_repo, obs, tally, false) {
        tally.hit("books:instances-judged");
    }
}
