//! Monitor for property C04 — a Knuth–Plass breaking pass returns breakpoints iff a feasible
//! sequence exists, and the result is demerit-optimal under TeX's definition; looseness
//! (DESIGN.md §6 C04; TeX: The Program §813–§890).
//!
//! Observed events: the return value of the real
//! `boxworks_knuthplass::LineBreaker::break_line_single_attempt(list, font_repo, tolerance,
//! emergency_stretch, force_solution=false)` and the complete `debug::Logger` trace (every feasible
//! breakpoint, every new active node, the selected node); for non-zero looseness additionally the
//! same call with `force_solution=true` (TeX's final pass) on instances the model finds feasible.
//!
//! Oracle: `vmodels::knuthplass` — an evaluator written from the definitions (legal breakpoints,
//! line material with discarding, badness, fitness classes, demerits, looseness) with a DP and a
//! brute-force enumerator that must agree. Checks: (1) online trace check: every logged feasible
//! breakpoint carries exactly the model's badness, penalty and demerits for its (predecessor, elem)
//! pair, every new node's class/line/total follows from a logged break and is the cheapest offered
//! for its (line, class), and every feasible line end was offered to every node while TeX keeps it
//! active; (2) optimality: `Some(bps)` is feasible with exactly the minimal total, `None` ⇔ no
//! feasible sequence; (3) looseness per §875 / §873.
//!
//! Known findings are attributed by trigger predicate + deviation model (`Rule::Deviation`).

pub mod cal;
pub mod gen;
pub mod judge;

use boxworks::ds;
use boxworks_knuthplass as kp;
use common::{GlueOrder, Scaled};
use gen::{Style, SynthFont, PT};
use judge::{judge_all, observe, to_items, to_params, Instance, Observation, Stats, Verdict};
use vcore::*;
use vmodels::knuthplass as model;
use vmodels::knuthplass::{Item, Model, Rule};

pub struct M;
pub static MONITOR: M = M;

pub const KNOWN_KERN: &str = "C04-explicit-kern-break-width-sign";
pub const KNOWN_RUN: &str = "C04-discardables-after-break-not-discarded";

#[derive(Default)]
pub struct Tally(std::collections::BTreeMap<String, u64>);
impl Tally {
    pub fn hit(&mut self, k: &str) {
        self.add(k, 1)
    }
    pub fn add(&mut self, k: &str, n: u64) {
        if let Some(v) = self.0.get_mut(k) {
            *v += n;
        } else {
            self.0.insert(k.to_string(), n);
        }
    }
    pub fn flush(self, obs: &mut Obs) {
        for (k, v) in self.0 {
            obs.add(&k, v);
        }
    }
}

pub fn describe(list: &[ds::Horizontal]) -> Vec<String> {
    const O: [&str; 4] = ["", "fil", "fill", "filll"];
    list.iter()
        .enumerate()
        .map(|(i, e)| {
            use ds::Horizontal as H;
            let s = match e {
                H::Char(c) => format!("char {:?} f{}", c.char, c.font),
                H::Ligature(l) => format!("lig {:?} f{}", l.char, l.font),
                H::HBox(b) => format!("hbox w={}", b.width.0),
                H::VBox(b) => format!("vbox w={}", b.width.0),
                H::Rule(r) => format!("rule w={}", r.width.0),
                H::Glue(g) => format!(
                    "glue {} plus {}{} minus {}",
                    g.value.width.0,
                    g.value.stretch.0,
                    O[judge::ord_of(g.value.stretch_order) as usize],
                    g.value.shrink.0
                ),
                H::Kern(k) => format!("kern {} {:?}", k.width.0, k.kind),
                H::Penalty(p) => format!("penalty {}", p.0),
                H::Math(m) => format!("math {m:?}"),
                H::Discretionary(d) => format!(
                    "disc pre={} post={} replace={}",
                    d.pre_break.len(),
                    d.post_break.len(),
                    d.replace_count
                ),
                _ => "other".to_string(),
            };
            format!("{i}: {s}")
        })
        .collect()
}

fn instance_json(inst: &Instance) -> Value {
    let p = &inst.params;
    json!({
        "list": describe(&inst.list),
        "line_widths": inst.widths.iter().map(|w| w.0).collect::<Vec<_>>(),
        "tolerance": inst.tolerance,
        "emergency_stretch": inst.emergency.0,
        "params": {
            "line_penalty": p.line_penalty, "hyphen_penalty": p.hyphen_penalty, "ex_hyphen_penalty": p.ex_hyphen_penalty,
            "adj_demerits": p.adj_demerits, "double_hyphen_demerits": p.double_hyphen_demerits,
            "final_hyphen_demerits": p.final_hyphen_demerits, "looseness": p.looseness,
            "left_skip": format!("{}", p.left_skip), "right_skip": format!("{}", p.right_skip),
        },
    })
}

fn record_stats(st: &Stats, inst: &Instance, tally: &mut Tally) {
    tally.hit("instances:judged");
    tally.hit(if st.feasible { "result:feasible-instance" } else { "result:infeasible-instance(None expected and returned)" });
    if st.feasible && st.lines > 0 {
        tally.hit(match st.lines {
            1 => "result:lines=1",
            2 => "result:lines=2",
            3 => "result:lines=3",
            4 | 5 => "result:lines=4-5",
            _ => "result:lines>=6",
        });
    }
    tally.add("trace:feasible-breaks-checked", st.n_fb as u64);
    tally.add("trace:new-active-nodes-checked", st.n_nodes as u64);
    tally.add("trace:breakpoints-with-several-fitness-classes", st.multi_class_breaks as u64);
    if st.brute_checked {
        tally.hit("model:dp-cross-checked-by-brute-force");
    }
    if st.line_counts_available > 1 {
        tally.hit("model:several-line-counts-feasible");
    }
    if st.ties_possible {
        tally.hit("result:equal-demerit-optima-with-different-line-counts");
    }
    if st.forced_break_inside {
        tally.hit("class:forced-break-inside-paragraph");
    }
    if st.hyphen_demerits_applied {
        tally.hit("class:double-or-final-hyphen-demerits-applied");
    }
    if st.adj_applied {
        tally.hit("class:adj-demerits-applied");
    }
    for (c, seen) in st.classes_seen.iter().enumerate() {
        if *seen {
            tally.hit(["class:very-loose-line", "class:loose-line", "class:decent-line", "class:tight-line"][c]);
        }
    }
    for b in &st.badness_seen {
        match *b {
            12 => tally.hit("boundary:badness=12"),
            13 => tally.hit("boundary:badness=13"),
            99 => tally.hit("boundary:badness=99"),
            100 => tally.hit("boundary:badness=100"),
            10000 => tally.hit("boundary:badness=10000"),
            _ => {}
        }
        if *b == inst.tolerance {
            tally.hit("boundary:badness=tolerance");
        }
    }
    if inst.params.looseness != 0 {
        tally.hit("looseness:nonzero");
        if st.feasible {
            if st.result_none_because_looseness {
                tally.hit("looseness:unreachable-pass-gives-up");
            } else {
                tally.hit("looseness:reached-exactly");
            }
            if st.forced_observation_judged {
                tally.hit("looseness:final-pass-judged");
                if st.result_none_because_looseness {
                    tally.hit("looseness:final-pass-settles-for-closest");
                }
            }
        }
    }
    if inst.widths.len() > 1 {
        tally.hit("class:line-widths-vary");
        if st.lines > inst.widths.len() {
            tally.hit("class:more-lines-than-width-entries");
        }
        if st.lines > 0 && st.lines + 1 >= inst.widths.len() && st.lines <= inst.widths.len() {
            tally.hit("class:easy-line-boundary");
        }
    }
}

// ------------------------------------------------------------------------------------------
// coverage-guided stage
// ------------------------------------------------------------------------------------------

/// Entry point of the libFuzzer target `c04_paragraph` (harness/vfuzz). Line 1 holds comma separated integers: tolerance,
/// \linepenalty, \hyphenpenalty, \exhyphenpenalty, \adjdemerits, \doublehyphendemerits, \finalhyphendemerits,
/// \looseness, emergency stretch (sp), then one to four line widths (sp); the rest is a horizontal list in the Box
/// language (parsed by the repository's own parser). The instance goes through `check_instance`, the oracle of every
/// generated phase (the independent model decides feasibility and the optimum, the online trace check follows the
/// breaker's own log); lists outside the quantifier are skipped there.
pub fn fuzz_one(data: &[u8], obs: &mut Obs) {
    let Ok(text) = std::str::from_utf8(data) else {
        return;
    };
    let Some((header, body)) = text.split_once('\n') else {
        return;
    };
    let nums: Vec<i64> = header.split(',').map(|t| t.trim().parse::<i64>().unwrap_or(0)).collect();
    let n = |i: usize, lo: i64, hi: i64, default: i64| -> i32 { nums.get(i).copied().unwrap_or(default).clamp(lo, hi) as i32 };
    let Ok(list) = boxworks::lang::parse_horizontal_list(body) else {
        return;
    };
    if list.is_empty() || list.len() > 60 {
        return;
    }
    // a discretionary replaces nodes that exist and are not themselves discretionaries (no list TeX builds is otherwise;
    // the generators of the other phases keep to that as well)
    for (i, e) in list.iter().enumerate() {
        if let ds::Horizontal::Discretionary(d) = e {
            let r = d.replace_count as usize;
            // (TeX §841/§869: characters, ligatures, boxes, rules and kerns only - anything else is `confusion`)
            let box_like = |x: &ds::Horizontal| {
                matches!(x, ds::Horizontal::Char(_) | ds::Horizontal::Ligature(_) | ds::Horizontal::HBox(_) | ds::Horizontal::VBox(_) | ds::Horizontal::Rule(_) | ds::Horizontal::Kern(_))
            };
            if i + r >= list.len() + usize::from(r == 0) || !list[i + 1..=i + r].iter().all(box_like) {
                obs.skip("fuzz:discretionary-replaces-missing-nodes-or-nodes-that-are-not-box-like");
                return;
            }
        }
    }
    let mut params = kp::Params::plain_tex_defaults();
    params.line_penalty = n(1, -10000, 10000, 10);
    params.hyphen_penalty = n(2, -30000, 30000, 50);
    params.ex_hyphen_penalty = n(3, -30000, 30000, 50);
    params.adj_demerits = n(4, -2_000_000, 2_000_000, 10000);
    params.double_hyphen_demerits = n(5, -2_000_000, 2_000_000, 10000);
    params.final_hyphen_demerits = n(6, -2_000_000, 2_000_000, 5000);
    params.looseness = n(7, -3, 3, 0);
    let mut widths: Vec<Scaled> = (9..13).filter(|i| nums.len() > *i).map(|i| Scaled(n(i, 65536, 400 * 65536, 100 * 65536))).collect();
    if widths.is_empty() {
        widths.push(Scaled(100 * 65536));
    }
    let inst = Instance { list, params, widths, tolerance: n(0, -1, 10000, 200), emergency: Scaled(n(8, 0, 20 * 65536, 0)) };
    let mut tally = Tally::default();
    check_instance(&inst, &SynthFont, obs, &mut tally, false);
    tally.flush(obs);
}

/// Seed corpus (generated instances of all four styles, printed in the Box language) and dictionary.
pub fn fuzz_seeds() -> vcore::fuzzglue::Seeds {
    use boxworks::lang::convert::ToBoxLang;
    use std::fmt::Write;
    let mut inputs = vec![];
    for k in 0..200u64 {
        let mut rng = Rng::new(0xC04 + k);
        let style = [Style::Clean, Style::Hostile, Style::Soup, Style::Grid][(k % 4) as usize];
        let mut inst = gen::rand_instance(&mut rng, style);
        inst.list.truncate(40);
        // the cut must not separate a discretionary from the nodes it replaces
        while let Some(i) = inst.list.iter().rposition(|e| matches!(e, ds::Horizontal::Discretionary(_))) {
            let r = match &inst.list[i] {
                ds::Horizontal::Discretionary(d) => d.replace_count as usize,
                _ => 0,
            };
            if i + r < inst.list.len() {
                break;
            }
            inst.list.truncate(i);
        }
        let mut body = String::new();
        let printed = catch(|| {
            let mut s = String::new();
            for e in inst.list.clone().to_box_lang() {
                let _ = write!(&mut s, "{e}");
            }
            s
        });
        match printed {
            Ok(s) => body.push_str(&s),
            Err(_) => continue,
        }
        let p = &inst.params;
        let mut header = format!(
            "{},{},{},{},{},{},{},{},{}",
            inst.tolerance, p.line_penalty, p.hyphen_penalty, p.ex_hyphen_penalty, p.adj_demerits, p.double_hyphen_demerits,
            p.final_hyphen_demerits, p.looseness, inst.emergency.0
        );
        for w in &inst.widths {
            header.push_str(&format!(",{}", w.0));
        }
        if body.len() <= 3500 {
            inputs.push(format!("{header}\n{body}").into_bytes());
        }
    }
    let dictionary = [
        "glue(", "kern(", "penalty(", "chars(\"", "disc(", "pre_break=[", "post_break=[", "replace_count=", "hbox(", "math(", "font=", "plus", "minus", "fil", "fill",
        "filll", "pt", "-10000", "10000", "9999", ",", ")", "\n", "0pt", "1sp",
    ]
    .iter()
    .map(|s| s.to_string())
    .collect();
    vcore::fuzzglue::Seeds { inputs, dictionary }
}

/// Check one instance with an arbitrary font repository. Returns true if it was judged (not skipped).
pub fn check_instance<F: boxworks::FontRepo>(inst: &Instance, font: &F, obs: &mut Obs, tally: &mut Tally, in_known_phase: bool) -> bool {
    for (i, e) in inst.list.iter().enumerate() {
        if let ds::Horizontal::Discretionary(d) = e {
            let r = d.replace_count as usize;
            if inst.list[i + 1..(i + 1 + r).min(inst.list.len())]
                .iter()
                .any(|x| matches!(x, ds::Horizontal::Kern(k) if k.kind == ds::KernKind::Explicit))
            {
                tally.hit("feature:explicit-kern-among-replaced-nodes");
                break;
            }
        }
    }
    let items = match to_items(&inst.list, font) {
        Ok(i) => i,
        Err(_) => {
            obs.skip("node kind outside the quantifier");
            return false;
        }
    };
    let params = match to_params(inst) {
        Ok(p) => p,
        Err(_) => {
            obs.skip("infinite shrink");
            return false;
        }
    };
    let unforced: Observation = match observe(inst, font, false) {
        Ok(o) => o,
        Err(p) => {
            obs.repo_panic(&p, json!({"instance": instance_json(inst), "force_solution": false}));
            return false;
        }
    };
    let forced = if inst.params.looseness != 0 { Some(observe(inst, font, true)) } else { None };
    tally.hit("instances:observed");

    // 1. TeX
    let vt = judge_all(&items, &params, Rule::Tex, &unforced, forced.as_ref());
    let (sig, detail) = match vt {
        Verdict::Pass(st) => {
            record_stats(&st, inst, tally);
            tally.hit("verdict:agrees-with-tex-model");
            if in_known_phase {
                tally.hit("known-reproducer-now-matches-tex");
            }
            finish(inst, &items, &params, &unforced, obs, &st);
            return true;
        }
        Verdict::Skip(r) => {
            obs.skip(r);
            return false;
        }
        Verdict::Inconclusive(r) => {
            obs.inconclusive(r);
            return false;
        }
        Verdict::Fail { sig, detail } => (sig, detail),
    };

    // 2. known findings: trigger predicates (syntactic, on the list) + deviation models
    let mt = Model::new(items.clone(), params.clone(), Rule::Tex).expect("constructed above");
    let kern_trig = (0..mt.breaks.len()).any(|a| mt.is_nonzero_kern_break(a));
    let run_trig = (0..mt.breaks.len()).any(|a| mt.run_after_break_has_dimensions(a));
    let mut matching: Vec<(Vec<&'static str>, Stats)> = vec![];
    let mut undecidable = false;
    let mut dev_details = vec![];
    for (k, r) in [(true, false), (false, true), (true, true)] {
        if (k && !kern_trig) || (r && !run_trig) {
            continue;
        }
        let rule = Rule::Deviation { kern_sign_wrong: k, run_not_discarded: r };
        match judge_all(&items, &params, rule, &unforced, forced.as_ref()) {
            Verdict::Pass(st) => {
                let mut ids = vec![];
                if k {
                    ids.push(KNOWN_KERN);
                }
                if r {
                    ids.push(KNOWN_RUN);
                }
                matching.push((ids, st));
            }
            Verdict::Skip(_) | Verdict::Inconclusive(_) => undecidable = true,
            Verdict::Fail { sig, detail } => dev_details.push(json!({"rule": format!("{rule:?}"), "sig": sig, "what": detail["what"]})),
        }
    }
    if !matching.is_empty() {
        // only the deviations common to every explanation are certain
        let common: Vec<&'static str> = [KNOWN_KERN, KNOWN_RUN].into_iter().filter(|id| matching.iter().all(|(ids, _)| ids.contains(id))).collect();
        let st = matching[0].1.clone();
        record_stats(&st, inst, tally);
        if common.is_empty() {
            tally.hit("known:explained-by-either-deviation-alone");
        }
        for id in &common {
            obs.known(
                id,
                json!({"instance": instance_json(inst), "tex_model_says": {"sig": sig, "detail": detail},
                       "explained_by": matching.iter().map(|(ids, _)| ids.clone()).collect::<Vec<_>>()}),
            );
            tally.hit(&format!("known:{id}"));
        }
        tally.hit("verdict:agrees-with-deviation-model-of-known-finding");
        return true;
    }
    if undecidable {
        // a known defect's trigger holds and under its deviation model the instance leaves the
        // property's quantifier (e.g. non-monotone): neither TeX's nor today's behaviour can be judged
        obs.skip("trigger of a known finding holds and the instance is undecidable under its deviation model");
        return false;
    }
    // 3. the one documented ambiguity of the definition (empty line inside a run of discardables)
    if mt.degenerate_empty_lines_differ() {
        if let Verdict::Pass(st) = judge_all(&items, &params, Rule::TexStopAtNextBreak, &unforced, forced.as_ref()) {
            record_stats(&st, inst, tally);
            tally.hit("verdict:agrees-with-tex-model(discard run cut at next break)");
            return true;
        }
    }
    obs.violation(
        sig,
        json!({"instance": instance_json(inst), "tex_model": detail, "kern_trigger": kern_trig, "run_trigger": run_trig, "deviation_models": dev_details}),
    );
    true
}

fn finish(inst: &Instance, items: &[Item], params: &model::Params, o: &Observation, obs: &mut Obs, st: &Stats) {
    if st.n_breaks > 1 {
        obs.nontrivial(&(items, params));
    }
    if obs.wants_sample() && st.feasible && st.lines >= 2 {
        obs.sample(json!({
            "instance": instance_json(inst),
            "result": o.result,
            "events_logged": o.events.len(),
            "feasible_breaks_checked": st.n_fb,
            "lines": st.lines,
        }));
    }
}

// ------------------------------------------------------------------------------------------
// fixed reproducers of the known findings

fn word(c: char, n: usize) -> Vec<ds::Horizontal> {
    (0..n).map(|_| gen::ch(c, 0)).collect()
}

/// Fixed reproducer of C04-explicit-kern-ending-replaced-range-is-a-breakpoint (repaired in /repo 561c320; since then the
/// shape is inside the model's domain as well and the generated phases cover it): x x \discretionary{-}{}{d\kern10pt} <glue> y y. TeX steps over the two replaced nodes: the legal
/// breakpoints are the discretionary (index 2) and the glue (index 5, prev_p = the discretionary). The code under test
/// visits the replaced nodes and logs a feasible break AT the kern (index 4), never at the glue.
const KNOWN_REPLACED_KERN: &str = "C04-explicit-kern-ending-replaced-range-is-a-breakpoint";

fn replaced_kern_reproducer(obs: &mut Obs) {
    let mut l = vec![gen::ch('x', 0), gen::ch('x', 0)];
    l.push(ds::Horizontal::Discretionary(ds::Discretionary {
        pre_break: vec![ds::DiscretionaryElem::Char(ds::Char { char: '-', font: 0 })],
        post_break: vec![],
        replace_count: 2,
    }));
    l.push(gen::ch('d', 0));
    l.push(gen::kern(10 * PT, ds::KernKind::Explicit));
    l.push(gen::glue(5 * PT, 3 * PT, GlueOrder::Normal, PT));
    l.push(gen::ch('y', 0));
    l.push(gen::ch('y', 0));
    gen::par_end(&mut l);
    let inst = Instance { list: l, params: kp::Params::plain_tex_defaults(), widths: vec![Scaled(60 * PT)], tolerance: 10000, emergency: Scaled::ZERO };
    let o = match observe(&inst, &SynthFont, false) {
        Ok(o) => o,
        Err(p) => {
            obs.repo_panic(&p, json!({"instance": instance_json(&inst)}));
            return;
        }
    };
    let at = |pos: usize| o.events.iter().any(|e| matches!(e, judge::Ev::Fb { elem, .. } if *elem == pos));
    obs.nontrivial_by_construction(1);
    match (at(4), at(5)) {
        (false, true) => obs.count("known-reproducer-now-matches-tex"),
        (true, false) => obs.known(
            KNOWN_REPLACED_KERN,
            json!({"instance": instance_json(&inst), "feasible_break_logged_at_the_replaced_kern(4)": true, "feasible_break_logged_at_the_glue(5)": false}),
        ),
        (a, b) => obs.violation(
            "known:replaced-kern-reproducer-neither-tex-nor-the-listed-deviation",
            json!({"instance": instance_json(&inst), "break_at_kern": a, "break_at_glue": b}),
        ),
    }
}

fn known_instances() -> Vec<Instance> {
    let mk = |list: Vec<ds::Horizontal>, w: i32, tol: i32| Instance {
        list,
        params: kp::Params::plain_tex_defaults(),
        widths: vec![Scaled(w)],
        tolerance: tol,
        emergency: Scaled::ZERO,
    };
    let mut v = vec![];
    // (a) AAAAA kern(4pt explicit) glue BBBBB at 30pt lines with 5pt chars
    let mut l = word('A', 5);
    l.push(gen::kern(4 * PT, ds::KernKind::Explicit));
    l.push(gen::glue(5 * PT, 3 * PT, GlueOrder::Normal, PT));
    l.extend(word('B', 5));
    gen::par_end(&mut l);
    v.push(mk(l, 30 * PT, 10000));
    // (b) AAAAA glue(5pt) glue(4pt) BB glue(5pt plus 5pt) BB at 30pt: TeX's second line is
    // "BB BB" = 25pt with 5pt of stretch (b=100); the code keeps the 4pt glue (29pt, b=1)
    let mut l = word('A', 5);
    l.push(gen::glue(5 * PT, 0, GlueOrder::Normal, 0));
    l.push(gen::glue(4 * PT, 0, GlueOrder::Normal, 0));
    l.extend(word('B', 2));
    l.push(gen::glue(5 * PT, 5 * PT, GlueOrder::Normal, 0));
    l.extend(word('B', 2));
    v.push(mk(l, 30 * PT, 10000));
    // (c) penalty break followed by glue: AAAAA penalty(0) glue(5pt) BBBBB
    let mut l = word('A', 5);
    l.push(gen::penalty(0));
    l.push(gen::glue(5 * PT, 0, GlueOrder::Normal, 0));
    l.extend(word('B', 5));
    v.push(mk(l, 25 * PT, 200));
    // (d) control: a discretionary whose replaced nodes include an EXPLICIT kern and which is the only place where the
    // paragraph can be broken (TeX §841 adds the width of any kern among the replaced nodes to the break width):
    // x x \discretionary{a-}{b}{a\kern10pt b} y y
    for kind in [ds::KernKind::Explicit, ds::KernKind::Normal] {
        let mut l = vec![gen::ch('x', 0), gen::ch('x', 0)];
        l.push(ds::Horizontal::Discretionary(ds::Discretionary {
            pre_break: vec![ds::DiscretionaryElem::Char(ds::Char { char: 'a', font: 0 }), ds::DiscretionaryElem::Char(ds::Char { char: '-', font: 0 })],
            post_break: vec![ds::DiscretionaryElem::Char(ds::Char { char: 'b', font: 0 })],
            replace_count: 3,
        }));
        l.push(gen::ch('a', 0));
        l.push(gen::kern(10 * PT, kind));
        l.push(gen::ch('b', 0));
        l.push(gen::ch('y', 0));
        l.push(gen::ch('y', 0));
        gen::par_end(&mut l);
        // the second line (b y y + parfillskip) fits in any width that holds it; the first (x x a -) is rigid: give the
        // exact width of the first line
        let first: i64 = gen::natural_width(&[gen::ch('x', 0), gen::ch('x', 0), gen::ch('a', 0), gen::ch('-', 0)]);
        let second: i64 = gen::natural_width(&[gen::ch('b', 0), gen::ch('y', 0), gen::ch('y', 0)]);
        // a line width that both lines fit into, the second one exactly or with less than the kern's width to spare
        v.push(mk(l, first.max(second) as i32, 10000));
    }
    v
}

// ------------------------------------------------------------------------------------------

const ENUM_MAX_LEN_QUICK: u32 = 6;
const ENUM_MAX_LEN_THOROUGH: u32 = 7;

fn enum_cases(max_len: u32) -> u64 {
    (1..=max_len).map(|k| (gen::ENUM_ALPHABET as u64).pow(k)).sum()
}

fn enum_decode(mut idx: u64) -> Vec<ds::Horizontal> {
    let a = gen::ENUM_ALPHABET as u64;
    let mut len = 1;
    loop {
        let n = a.pow(len);
        if idx < n {
            break;
        }
        idx -= n;
        len += 1;
    }
    (0..len)
        .map(|_| {
            let c = idx % a;
            idx /= a;
            gen::enum_item(c)
        })
        .collect()
}

impl Monitor for M {
    fn id(&self) -> &'static str {
        "C04"
    }
    fn rule(&self) -> String {
        "Each case is a horizontal list + line widths + tolerance + demerit/penalty parameters + looseness, run through the real \
         break_line_single_attempt (force_solution=false; for looseness != 0 also force_solution=true) with a recording debug::Logger. \
         Phases: 'known' (fixed reproducers of the known findings), 'enum' (ALL lists of length 1..6 (thorough: 7) over a 7-letter alphabet \
         {5pt char, stretchable glue, rigid glue, explicit kern, penalty 0, penalty -10000, discretionary} at 2 widths x 2 tolerances), \
         'small' (random lists with few breakpoints so that the DP is cross-checked by brute force over all subsets), 'random' (text-like clean, \
         text-like hostile, item soup and 1pt-grid lists of 5-60 items: chars/boxes/rules/ligatures, glue with finite or fil/fill/filll stretch and \
         finite shrink, both kinds of kerns, penalties in [-20000,20000], discretionaries with 0-2 pre/post/replaced items, math on/off; 1-4 line \
         widths, tolerance in {-1,0,100,200,1000,10000,random}, random parameters incl. negative adj_demerits, looseness in -2..2), 'books' (the three \
         book excerpts of the repository set in cmr10, unhyphenated and hyphenated, at random widths). A case is non-trivial if it has at least one \
         legal breakpoint besides the end of the paragraph; distinct = hash of (model items, model parameters)."
            .into()
    }
    fn assumptions(&self) -> Vec<String> {
        vec![
            "Restriction of the property: per instance (and per model) 'the line a->b is overfull' must be upward closed in b for every line start a and every line-width class, up to the next forced break; other instances are skipped and counted.".into(),
            "The line from break a excludes every discardable item after a up to the first non-discardable one, exactly as TeX §837 computes break_width (once per breakpoint). For the degenerate empty line whose two ends lie in the same run of discardables TeX §837 and §879 disagree with each other; an implementation following either is accepted.".into(),
            "In a non-final pass with looseness != 0 TeX (§873, last test) gives the pass up unless the requested looseness is reached exactly: None is then the correct result. The 'closest feasible line count' behaviour of §875 is observed through force_solution=true on instances the model finds feasible.".into(),
            "Equal-demerit optima are accepted either way (also as the base line count for looseness).".into(),
            "Instances whose partial demerit totals reach 10^9 (awful_bad = 2^30-1 is TeX's infinity) are skipped.".into(),
            "Math nodes have no width in the implementation (ds::Math carries none); the model gives them width 0. Infinite shrink (a TeX error, §825) and mark/insertion/adjust/whatsit nodes are not generated. Replaced items of a discretionary are box-like or implicit kerns.".into(),
            "tolerance <= 10000 (TeX clamps the threshold to inf_bad; the code does not, and larger values are outside the sampled configurations).".into(),
        ]
    }
    fn phases(&self, tier: Tier) -> Vec<Phase> {
        vec![
            Phase::new("known", known_instances().len() as u64 + 1).batch(1),
            Phase::new("enum", enum_cases(tier.pick(ENUM_MAX_LEN_QUICK as u64, ENUM_MAX_LEN_THOROUGH as u64) as u32))
                .batch(512)
                .exhaustive("all lists of length 1..6 (thorough: 1..7) over {A, glue 5pt+3-1, glue 4pt, explicit kern 4pt, penalty 0, penalty -10000, disc{B}{}{}} x line width {12pt, 21pt} x tolerance {200, 10000}"),
            Phase::new("small", tier.pick(250_000, 6_000_000)).batch(128),
            Phase::new("random", tier.pick(500_000, 20_000_000)).batch(128),
            Phase::new("books", tier.pick(4 * 2 * 500, 4 * 2 * 12_000)).batch(8),
        ]
    }
    fn floors(&self, tier: Tier) -> Vec<(&'static str, u64)> {
        // roughly a third of what the quick tier observes at seed 0; the thorough tier is ~35x larger
        let s = tier.pick(1, 25);
        vec![
            ("instances:judged", 600_000 * s),
            ("verdict:agrees-with-tex-model", 450_000 * s),
            ("trace:feasible-breaks-checked", 5_000_000 * s),
            ("trace:new-active-nodes-checked", 1_200_000 * s),
            ("trace:breakpoints-with-several-fitness-classes", 80_000 * s),
            ("model:dp-cross-checked-by-brute-force", 500_000 * s),
            ("model:several-line-counts-feasible", 100_000 * s),
            ("result:feasible-instance", 150_000 * s),
            ("result:infeasible-instance(None expected and returned)", 200_000 * s),
            ("result:lines=2", 50_000 * s),
            ("result:lines=3", 25_000 * s),
            ("result:lines=4-5", 8_000 * s),
            ("result:lines>=6", 1_500 * s),
            ("class:very-loose-line", 100_000 * s),
            ("class:loose-line", 25_000 * s),
            ("class:decent-line", 60_000 * s),
            ("class:tight-line", 20_000 * s),
            ("class:adj-demerits-applied", 100_000 * s),
            ("class:double-or-final-hyphen-demerits-applied", 40_000 * s),
            ("class:forced-break-inside-paragraph", 100_000 * s),
            ("class:line-widths-vary", 60_000 * s),
            ("class:more-lines-than-width-entries", 2_500 * s),
            ("class:easy-line-boundary", 5_000 * s),
            ("boundary:badness=12", 8_000 * s),
            ("boundary:badness=13", 3_000 * s),
            ("boundary:badness=99", 800 * s),
            ("boundary:badness=100", 30_000 * s),
            ("boundary:badness=tolerance", 500_000 * s),
            ("looseness:reached-exactly", 2_500 * s),
            ("looseness:unreachable-pass-gives-up", 8_000 * s),
            ("looseness:final-pass-judged", 10_000 * s),
            ("looseness:final-pass-settles-for-closest", 8_000 * s),
            ("books:instances-judged", tier.pick(2_500, 60_000)),
        ]
    }
    fn calibrate(&self, obs: &mut Obs) {
        cal::calibrate(obs);
    }
    fn run_case(&self, phase: &str, idx: u64, rng: &mut Rng, obs: &mut Obs) {
        let mut tally = Tally::default();
        match phase {
            "known" => {
                let mut k = known_instances();
                if (idx as usize) < k.len() {
                    let inst = k.swap_remove(idx as usize);
                    check_instance(&inst, &SynthFont, obs, &mut tally, true);
                } else {
                    replaced_kern_reproducer(obs);
                }
            }
            "enum" => {
                let list = enum_decode(idx);
                for w in [12 * PT, 21 * PT] {
                    for tol in [200, 10000] {
                        let inst = Instance {
                            list: list.clone(),
                            params: kp::Params::plain_tex_defaults(),
                            widths: vec![Scaled(w)],
                            tolerance: tol,
                            emergency: Scaled::ZERO,
                        };
                        check_instance(&inst, &SynthFont, obs, &mut tally, false);
                    }
                }
            }
            "small" => {
                // few breakpoints: short text-like lists in every style
                let style = *rng.pick(&[Style::Clean, Style::Clean, Style::Hostile, Style::Grid, Style::Grid]);
                let mut inst = gen::rand_instance(rng, style);
                // cut the list so that few breakpoints remain (keeps replaced ranges intact: cut at a glue)
                let keep = rng.range_usize(4, 26);
                if inst.list.len() > keep {
                    let cut = (keep..inst.list.len()).find(|i| matches!(inst.list[*i], ds::Horizontal::Glue(_))).unwrap_or(inst.list.len());
                    inst.list.truncate(cut);
                    if rng.chance(3, 4) {
                        gen::par_end(&mut inst.list);
                    }
                }
                check_instance(&inst, &SynthFont, obs, &mut tally, false);
            }
            "books" => {
                cal::books_case(idx, rng, obs, &mut tally);
            }
            _ => {
                let style = match rng.below(20) {
                    0..=7 => Style::Clean,
                    8..=12 => Style::Hostile,
                    13..=15 => Style::Soup,
                    _ => Style::Grid,
                };
                tally.hit(match style {
                    Style::Clean => "style:clean",
                    Style::Hostile => "style:hostile",
                    Style::Soup => "style:soup",
                    Style::Grid => "style:grid",
                });
                let inst = gen::rand_instance(rng, style);
                check_instance(&inst, &SynthFont, obs, &mut tally, false);
            }
        }
        tally.flush(obs);
    }
    fn stack_bytes(&self) -> usize {
        256 << 20
    }
}
