//! Reference expander for property C07: macros, `\expandafter`, `\noexpand` and nothing else.
//!
//! Own transcription of *TeX: The Program*
//!   §366-§367 expand, §368 (`\expandafter`: "get_token; t:=cur_tok; get_token; if
//!   cur_cmd>max_command then expand else back_input; cur_tok:=t; back_input"),
//!   §369 (`\noexpand`: the next token is backed up behind a `dont_expand` marker),
//!   §358 (a token read behind that marker is interpreted as `\relax` if it is expandable),
//!   §380 get_x_token / the main loop, with macro calls delegated to `macrocall::macro_call`
//!   (§389-§399). Nothing here calls code from /repo.
//!
//! The input is a stack of tokens, each with a flag "preceded by dont_expand". Readers that do
//! not expand (`get_token`: the first token of `\expandafter`, the operand of `\noexpand`, macro
//! arguments) return the plain token, so the flag is lost there exactly as in TeX, where
//! `cur_tok` is the plain control sequence and `back_input` stores it without marker.

use crate::macrocall::{macro_call, parse_def, render, CallError, MacroDef, Tok, TrimRule};
use std::collections::HashMap;

#[derive(Clone, Debug)]
pub enum Meaning {
    Macro(MacroDef),
    ExpandAfter,
    NoExpand,
    /// `\def`, executed by the main loop (needed for calibration against the repo's tests)
    Def,
    /// `\let`, executed by the main loop
    Let,
    /// an unexpandable primitive that produces nothing (`\relax`)
    Relax,
}

impl Meaning {
    pub fn expandable(&self) -> bool {
        matches!(self, Meaning::Macro(_) | Meaning::ExpandAfter | Meaning::NoExpand)
    }
}

#[derive(Clone, Copy, Debug, PartialEq, Eq)]
pub enum NoexpandRule {
    /// TeX §369/§358: the marker stays in front of the token until the token is next read.
    Tex,
    /// Deviation model for finding C07-noexpand-under-expandafter: when `\noexpand` is itself
    /// expanded on behalf of `\expandafter`, the token is put back without any marker.
    MarkerLostUnderExpandafter,
}

#[derive(Clone, Debug, PartialEq, Eq)]
pub struct MacroEvent {
    pub name: String,
    pub args: Vec<String>,
    pub expansion: String,
}

/// What reaches the main loop.
#[derive(Clone, Debug, PartialEq, Eq)]
pub enum Delivered {
    /// an unexpandable token
    Tok(Tok),
    /// an expandable control sequence whose expansion was suppressed (acts like `\relax`)
    Unexpanded(Tok),
}

#[derive(Clone, Debug, PartialEq, Eq)]
pub enum ExpandError {
    /// the input leaves the domain in which TeX's behaviour is modelled (runaway argument,
    /// end of input inside a command, undefined control sequence ...)
    OutOfDomain(String),
    Budget,
}

#[derive(Clone, Copy, PartialEq, Eq)]
enum Ctx {
    Main,
    ExpandAfter,
}

const FLAG_NONE: u8 = 0;
const FLAG_MAIN: u8 = 1;
const FLAG_XA: u8 = 2;

pub struct Expander {
    pub meanings: HashMap<String, Meaning>,
    /// reversed: the last element is the next token
    input: Vec<(Tok, u8)>,
    pub delivered: Vec<Delivered>,
    /// for every delivered token: how many macro expansions had happened before it was delivered
    pub delivered_after_events: Vec<usize>,
    pub events: Vec<MacroEvent>,
    pub rule: NoexpandRule,
    pub trim: TrimRule,
    /// how often a `dont_expand` marker that was created while `\noexpand` was expanded on
    /// behalf of `\expandafter` later suppressed an expansion (made the main loop, or a further
    /// `\expandafter`, treat the token as `\relax`)
    pub marker_mattered: u64,
    /// deepest recursion of `\expandafter` inside `\expandafter`
    pub max_xa_depth: u32,
    pub expansions: u64,
    pub noexpands: u64,
    pub expandafters: u64,
    steps: u64,
    pub budget: u64,
}

impl Expander {
    pub fn new(meanings: HashMap<String, Meaning>, rule: NoexpandRule) -> Expander {
        Expander {
            meanings,
            input: vec![],
            delivered: vec![],
            delivered_after_events: vec![],
            events: vec![],
            rule,
            trim: TrimRule::Tex,
            marker_mattered: 0,
            max_xa_depth: 0,
            expansions: 0,
            noexpands: 0,
            expandafters: 0,
            steps: 0,
            budget: 100_000,
        }
    }

    /// Meanings of the primitives this model knows, under their usual names.
    pub fn primitives() -> HashMap<String, Meaning> {
        let mut m = HashMap::new();
        m.insert("expandafter".to_string(), Meaning::ExpandAfter);
        m.insert("noexpand".to_string(), Meaning::NoExpand);
        m.insert("def".to_string(), Meaning::Def);
        m.insert("let".to_string(), Meaning::Let);
        m.insert("relax".to_string(), Meaning::Relax);
        m
    }

    pub fn push_input(&mut self, toks: &[Tok]) {
        for t in toks.iter().rev() {
            self.input.push((t.clone(), FLAG_NONE));
        }
    }

    fn meaning(&self, t: &Tok) -> Option<&Meaning> {
        match t {
            Tok::Cs(n) => self.meanings.get(n),
            _ => None,
        }
    }

    fn is_expandable(&self, t: &Tok) -> bool {
        self.meaning(t).map(|m| m.expandable()).unwrap_or(false)
    }

    fn tick(&mut self) -> Result<(), ExpandError> {
        self.steps += 1;
        if self.steps > self.budget {
            return Err(ExpandError::Budget);
        }
        Ok(())
    }

    /// get_token: the plain token, marker dropped.
    fn get_token(&mut self, what: &str) -> Result<Tok, ExpandError> {
        match self.input.pop() {
            Some((t, _)) => Ok(t),
            None => Err(ExpandError::OutOfDomain(format!("end of input {what}"))),
        }
    }

    /// back_input
    fn back(&mut self, t: Tok, flag: u8) {
        self.input.push((t, flag));
    }

    /// §366 expand, for an expandable, unmarked token that has just been read.
    fn expand(&mut self, t: Tok, ctx: Ctx, xa_depth: u32) -> Result<(), ExpandError> {
        self.tick()?;
        let meaning = self.meaning(&t).cloned();
        match meaning {
            Some(Meaning::Macro(def)) => {
                // macro_call reads its arguments with get_token: markers are dropped
                let view: Vec<Tok> = self.input.iter().rev().map(|(t, _)| t.clone()).collect();
                let call = macro_call(&def, &view, self.trim).map_err(|e| match e {
                    CallError::EndOfInput => ExpandError::OutOfDomain("runaway argument".into()),
                    other => ExpandError::OutOfDomain(format!("{other:?}")),
                })?;
                let keep = self.input.len() - call.consumed;
                self.input.truncate(keep);
                for x in call.expansion.iter().rev() {
                    self.input.push((x.clone(), FLAG_NONE));
                }
                self.expansions += 1;
                self.events.push(MacroEvent {
                    name: render(&[t]),
                    args: call.args.iter().map(|a| render(a)).collect(),
                    expansion: render(&call.expansion),
                });
                Ok(())
            }
            Some(Meaning::ExpandAfter) => {
                // §368
                self.expandafters += 1;
                self.max_xa_depth = self.max_xa_depth.max(xa_depth + 1);
                let first = self.get_token("after \\expandafter")?;
                let (second, flag) = match self.input.pop() {
                    Some(x) => x,
                    None => {
                        return Err(ExpandError::OutOfDomain(
                            "end of input after \\expandafter<token>".into(),
                        ))
                    }
                };
                // a token behind a dont_expand marker has cur_cmd = relax here (§358): it is
                // backed up as the plain token, the marker is gone
                if flag == FLAG_NONE && self.is_expandable(&second) {
                    self.expand(second, Ctx::ExpandAfter, xa_depth + 1)?;
                } else {
                    if flag == FLAG_XA {
                        // the marker has just suppressed this \expandafter's one expansion
                        self.marker_mattered += 1;
                    }
                    self.back(second, FLAG_NONE);
                }
                self.back(first, FLAG_NONE);
                Ok(())
            }
            Some(Meaning::NoExpand) => {
                // §369
                self.noexpands += 1;
                let x = self.get_token("after \\noexpand")?;
                let expandable = self.is_expandable(&x);
                let flag = if !expandable {
                    FLAG_NONE // §358: only expandable tokens are turned into \relax
                } else {
                    match (ctx, self.rule) {
                        (Ctx::Main, _) => FLAG_MAIN,
                        (Ctx::ExpandAfter, NoexpandRule::Tex) => FLAG_XA,
                        (Ctx::ExpandAfter, NoexpandRule::MarkerLostUnderExpandafter) => FLAG_NONE,
                    }
                };
                self.back(x, flag);
                Ok(())
            }
            _ => unreachable!("expand called on an unexpandable token"),
        }
    }

    /// The main loop: get_x_token and deliver, until the input is exhausted.
    pub fn run(&mut self) -> Result<(), ExpandError> {
        while let Some((t, flag)) = self.input.pop() {
            self.tick()?;
            if flag != FLAG_NONE {
                if flag == FLAG_XA {
                    self.marker_mattered += 1;
                }
                self.delivered.push(Delivered::Unexpanded(t));
                self.delivered_after_events.push(self.events.len());
                continue;
            }
            match self.meaning(&t).cloned() {
                Some(m) if m.expandable() => self.expand(t, Ctx::Main, 0)?,
                Some(Meaning::Def) => {
                    let name = match self.get_token("after \\def")? {
                        Tok::Cs(n) => n,
                        other => {
                            return Err(ExpandError::OutOfDomain(format!("\\def {other:?}")))
                        }
                    };
                    let view: Vec<Tok> = self.input.iter().rev().map(|(t, _)| t.clone()).collect();
                    let (d, used) = parse_def(&view)
                        .map_err(|e| ExpandError::OutOfDomain(format!("{e:?}")))?;
                    let keep = self.input.len() - used;
                    self.input.truncate(keep);
                    self.meanings.insert(name, Meaning::Macro(d));
                }
                Some(Meaning::Let) => {
                    // §1221: \let<cs><optional spaces><optional =><one optional space><token>
                    let name = match self.get_token("after \\let")? {
                        Tok::Cs(n) => n,
                        other => {
                            return Err(ExpandError::OutOfDomain(format!("\\let {other:?}")))
                        }
                    };
                    let mut x = self.get_token("in \\let")?;
                    while x == Tok::Space {
                        x = self.get_token("in \\let")?;
                    }
                    if x == Tok::Ch('=') {
                        x = self.get_token("in \\let")?;
                        if x == Tok::Space {
                            x = self.get_token("in \\let")?;
                        }
                    }
                    match self.meaning(&x).cloned() {
                        Some(m) => {
                            self.meanings.insert(name, m);
                        }
                        None => {
                            return Err(ExpandError::OutOfDomain(
                                "\\let to a character or undefined token".into(),
                            ))
                        }
                    }
                }
                Some(Meaning::Relax) => {}
                _ => {
                    self.delivered.push(Delivered::Tok(t));
                    self.delivered_after_events.push(self.events.len());
                }
            }
        }
        Ok(())
    }
}

/// Text form of what was delivered, in the harness's output convention: characters as
/// themselves, suppressed control sequences as `\name `, braces produce nothing (they open and
/// close groups). Returns `None` when a `}` arrives at group depth 0 (the real VM stops there).
pub fn delivered_text(d: &[Delivered]) -> Option<String> {
    let mut s = String::new();
    let mut depth = 0i64;
    for x in d {
        match x {
            Delivered::Unexpanded(t) => s.push_str(&render(std::slice::from_ref(t))),
            Delivered::Tok(Tok::Begin) => depth += 1,
            Delivered::Tok(Tok::End) => {
                depth -= 1;
                if depth < 0 {
                    return None;
                }
            }
            Delivered::Tok(t @ Tok::Cs(_)) => s.push_str(&render(std::slice::from_ref(t))),
            Delivered::Tok(Tok::Ch(c)) | Delivered::Tok(Tok::Active(c)) => s.push(*c),
            Delivered::Tok(Tok::Space) => s.push(' '),
            Delivered::Tok(Tok::Param) => s.push('#'),
        }
    }
    Some(s)
}

/// Like `delivered_text`, but stops at a `}` that arrives at group depth 0: returns the text
/// delivered before it and the index of that token (the real VM stops there with the fatal error
/// "there is no group to end").
pub fn delivered_text_until_unmatched(d: &[Delivered]) -> (String, Option<usize>) {
    let mut depth = 0i64;
    for (i, x) in d.iter().enumerate() {
        match x {
            Delivered::Tok(Tok::Begin) => depth += 1,
            Delivered::Tok(Tok::End) => {
                depth -= 1;
                if depth < 0 {
                    return (delivered_text(&d[..i]).unwrap_or_default(), Some(i));
                }
            }
            _ => {}
        }
    }
    (delivered_text(d).unwrap_or_default(), None)
}

/// Token form of what was delivered (for calibration against token-list expectations).
pub fn delivered_tokens(d: &[Delivered]) -> Vec<Tok> {
    d.iter()
        .map(|x| match x {
            Delivered::Tok(t) | Delivered::Unexpanded(t) => t.clone(),
        })
        .collect()
}

#[cfg(test)]
mod tests {
    use super::*;
    use crate::macrocall::lex_line;

    fn run(src: &str, rule: NoexpandRule) -> (String, u64) {
        let mut e = Expander::new(Expander::primitives(), rule);
        e.push_input(&lex_line(src));
        e.run().unwrap();
        (delivered_text(&e.delivered).unwrap(), e.marker_mattered)
    }

    #[test]
    fn expandafter_orders() {
        let pre = r"\def\a{A}\def\b{B}\def\c{C}\def\m#1{[#1]}";
        assert_eq!(run(&format!(r"{pre}\expandafter\m\a"), NoexpandRule::Tex).0, "[A]");
        assert_eq!(run(&format!(r"{pre}\m\a"), NoexpandRule::Tex).0, "[A]");
        assert_eq!(
            run(&format!(r"{pre}\expandafter\expandafter\expandafter\m\expandafter\m\a"), NoexpandRule::Tex).0,
            "[[]A]" // \a -> A, then the inner \m takes A: [A], then the outer \m takes "["
        );
    }

    #[test]
    fn noexpand_marker() {
        let pre = r"\def\a{Hello}\def\m#1{[#1]}";
        // marker survives behind X: \a acts as \relax (TeX §358/§369)
        assert_eq!(
            run(&format!(r"{pre}\expandafter X\noexpand\a|"), NoexpandRule::Tex),
            (r"X\a |".to_string(), 1)
        );
        assert_eq!(
            run(&format!(r"{pre}\expandafter X\noexpand\a|"), NoexpandRule::MarkerLostUnderExpandafter),
            ("XHello|".to_string(), 0)
        );
        // absorbed as a macro argument: the marker is gone in both
        assert_eq!(run(&format!(r"{pre}\expandafter\m\noexpand\a|"), NoexpandRule::Tex).0, "[Hello]|");
        // a second \expandafter reads the marked token and backs it up unmarked
        assert_eq!(
            run(&format!(r"{pre}\expandafter\expandafter\expandafter X\noexpand\a|"), NoexpandRule::Tex).0,
            "XHello|"
        );
        assert_eq!(run(&format!(r"{pre}\noexpand\a\a|"), NoexpandRule::Tex).0, r"\a Hello|");
    }
}
