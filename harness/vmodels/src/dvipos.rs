//! Independent model of the DVI machine (property C16).
//!
//! Two small things, both transcribed from the DVI description in *TeX: The Program* part 31
//! (§583-§591) and from DVItype (§79-§99), and neither using the `dvi` crate:
//!
//! * [`Tracker`]: the register machine `(h, v, w, x, y, z)` + stack + current font `f`, which turns
//!   a stream of operations into the list of *placed* characters and rules with their page
//!   position and font. `set_char` advances `h` by the width of the character, which only the
//!   font metric file knows; `h` is therefore an integer plus a *multiset* of unmeasured
//!   `(char, font)` widths (addition commutes, so order does not matter).
//! * [`frame`]: how a byte string splits into commands (length of every command by opcode), and
//!   how it ends: cleanly, in the middle of a command, or at an undefined opcode.
//!
//! The monitor converts `dvi::Op` into the tiny [`TOp`] below; this file knows nothing about the
//! crate under test.

#[derive(Clone, Copy, Debug, PartialEq, Eq, Hash)]
pub enum Reg {
    W = 0,
    X = 1,
    Y = 2,
    Z = 3,
}

/// The operations that matter for positions. Everything else (`xxx`, `fnt_def`, `pre`, `post`,
/// `post_post`) is `Inert`: "it functions as a no-op" as far as registers go (§585, §588).
#[derive(Clone, Debug, PartialEq, Eq, Hash)]
pub enum TOp {
    /// `set_char_i`, `set1..4`: typeset, then `h += width(c)`.
    SetChar(u32),
    /// `put1..4`: typeset, `h` unchanged.
    PutChar(u32),
    /// `set_rule`: typeset a rule of height `a`, width `b`, then `h += b` (even if `b <= 0`).
    SetRule { height: i32, width: i32 },
    /// `put_rule`: same without moving.
    PutRule { height: i32, width: i32 },
    Nop,
    /// `bop`: `(h,v,w,x,y,z) := 0`, stack := empty, `f := undefined`.
    Bop,
    Eop,
    Push,
    Pop,
    Right(i32),
    Down(i32),
    /// `w0`, `x0`, `y0`, `z0`: move by the register.
    Move(Reg),
    /// `w1..4` etc.: set the register to `b`, then move by `b`.
    SetReg(Reg, i32),
    /// `fnt_num_i`, `fnt1..4`.
    Fnt(u32),
    Inert,
}

/// Horizontal position: `int + Σ width(c, f)` over the multiset `sym`.
#[derive(Clone, Debug, PartialEq, Eq, Hash, Default)]
pub struct HPos {
    pub int: i64,
    /// Unmeasured widths, kept sorted so that equal multisets are equal vectors.
    pub sym: Vec<(u32, Option<u32>)>,
}

impl HPos {
    /// Evaluate under a concrete width assignment.
    pub fn concrete(&self, width: &dyn Fn(u32, Option<u32>) -> i64) -> i64 {
        let mut h = self.int;
        for (c, f) in &self.sym {
            h = h.wrapping_add(width(*c, *f));
        }
        h
    }
}

#[derive(Clone, Debug, PartialEq, Eq, Hash)]
pub enum PlacedKind {
    Char(u32),
    Rule { height: i32, width: i32 },
}

/// A typeset character or rule with the state it was typeset in.
#[derive(Clone, Debug, PartialEq, Eq, Hash)]
pub struct Placed {
    pub kind: PlacedKind,
    /// Number of `bop`s seen before this element (0 = before the first page).
    pub page: u32,
    pub h: HPos,
    pub v: i64,
    /// `None` = undefined (no `fnt` command yet on this page).
    pub font: Option<u32>,
    /// Index of the operation in the stream it came from.
    pub op_index: usize,
}

#[derive(Clone, Debug, Default, PartialEq, Eq)]
struct Frame {
    h: HPos,
    v: i64,
    regs: [i64; 4],
}

#[derive(Clone, Debug, Default)]
pub struct Stats {
    pub pages: u32,
    pub max_depth: usize,
    /// `pop` with an empty stack.
    pub pops_on_empty: u32,
    /// `bop` that discarded a non-empty stack (push/pop unbalanced across a page boundary).
    pub bops_discarding_stack: u32,
    /// `bop` that zeroed a non-zero `w`, `x`, `y` or `z`.
    pub bops_resetting_regs: u32,
    /// `pop` that brought back a different value of `w`, `x`, `y` or `z`.
    pub pops_restoring_regs: u32,
    /// `w0`/`x0`/`y0`/`z0` with a non-zero register.
    pub moves_nonzero: u32,
    pub reg_ops: u32,
    /// Some integer coordinate or register left the 32-bit range (wrap-around is unspecified).
    pub left_i32: bool,
    /// A coordinate came within 2 units of the 32-bit limits.
    pub near_i32_limit: u32,
}

/// The register machine.
#[derive(Clone, Debug, Default)]
pub struct Tracker {
    cur: Frame,
    font: Option<u32>,
    stack: Vec<Frame>,
    index: usize,
    pub stats: Stats,
}

fn in_i32(x: i64) -> bool {
    x >= i32::MIN as i64 && x <= i32::MAX as i64
}

impl Tracker {
    pub fn new() -> Tracker {
        Tracker::default()
    }
    pub fn h(&self) -> &HPos {
        &self.cur.h
    }
    pub fn v(&self) -> i64 {
        self.cur.v
    }
    pub fn reg(&self, r: Reg) -> i64 {
        self.cur.regs[r as usize]
    }
    pub fn font(&self) -> Option<u32> {
        self.font
    }
    pub fn depth(&self) -> usize {
        self.stack.len()
    }

    fn note(&mut self, x: i64) {
        if !in_i32(x) {
            self.stats.left_i32 = true;
        } else if x >= i32::MAX as i64 - 2 || x <= i32::MIN as i64 + 2 {
            self.stats.near_i32_limit += 1;
        }
    }

    fn move_h(&mut self, d: i64) {
        self.cur.h.int += d;
        let x = self.cur.h.int;
        self.note(x);
    }

    fn move_v(&mut self, d: i64) {
        self.cur.v += d;
        let x = self.cur.v;
        self.note(x);
    }

    fn placed(&self, kind: PlacedKind) -> Placed {
        Placed {
            kind,
            page: self.stats.pages,
            h: self.cur.h.clone(),
            v: self.cur.v,
            font: self.font,
            op_index: self.index,
        }
    }

    /// Execute one operation; returns what it typeset, if anything.
    pub fn step(&mut self, op: &TOp) -> Option<Placed> {
        let out = match op {
            TOp::SetChar(c) => {
                let p = self.placed(PlacedKind::Char(*c));
                // h := h + width(c in font f): unknown here, kept symbolically (§585 set_char).
                let key = (*c, self.font);
                let pos = self.cur.h.sym.partition_point(|k| *k <= key);
                self.cur.h.sym.insert(pos, key);
                Some(p)
            }
            TOp::PutChar(c) => Some(self.placed(PlacedKind::Char(*c))),
            TOp::SetRule { height, width } => {
                let p = self.placed(PlacedKind::Rule {
                    height: *height,
                    width: *width,
                });
                // "h := h + b" regardless of the sign of b (§585 set_rule).
                self.move_h(*width as i64);
                Some(p)
            }
            TOp::PutRule { height, width } => Some(self.placed(PlacedKind::Rule {
                height: *height,
                width: *width,
            })),
            TOp::Nop | TOp::Eop | TOp::Inert => None,
            TOp::Bop => {
                // §585 bop: "Set (h,v,w,x,y,z):=(0,0,0,0,0,0) and set the stack empty. Set the
                // current font f to an undefined value."
                if !self.stack.is_empty() {
                    self.stats.bops_discarding_stack += 1;
                }
                if self.cur.regs.iter().any(|r| *r != 0) {
                    self.stats.bops_resetting_regs += 1;
                }
                self.stack.clear();
                self.cur = Frame::default();
                self.font = None;
                self.stats.pages += 1;
                None
            }
            TOp::Push => {
                // "Note that f is not pushed."
                self.stack.push(self.cur.clone());
                self.stats.max_depth = self.stats.max_depth.max(self.stack.len());
                None
            }
            TOp::Pop => {
                match self.stack.pop() {
                    Some(fr) => {
                        if fr.regs != self.cur.regs {
                            self.stats.pops_restoring_regs += 1;
                        }
                        self.cur = fr;
                    }
                    // The standard leaves this undefined ("highly embarrassing"); DVItype §83
                    // reports "(illegal at level zero)" and changes nothing. We do the same.
                    None => self.stats.pops_on_empty += 1,
                }
                None
            }
            TOp::Right(b) => {
                self.move_h(*b as i64);
                None
            }
            TOp::Down(a) => {
                self.move_v(*a as i64);
                None
            }
            TOp::Move(r) => {
                self.stats.reg_ops += 1;
                let d = self.cur.regs[*r as usize];
                if d != 0 {
                    self.stats.moves_nonzero += 1;
                }
                match r {
                    Reg::W | Reg::X => self.move_h(d),
                    Reg::Y | Reg::Z => self.move_v(d),
                }
                None
            }
            TOp::SetReg(r, b) => {
                self.stats.reg_ops += 1;
                self.cur.regs[*r as usize] = *b as i64;
                match r {
                    Reg::W | Reg::X => self.move_h(*b as i64),
                    Reg::Y | Reg::Z => self.move_v(*b as i64),
                }
                None
            }
            TOp::Fnt(k) => {
                self.font = Some(*k);
                None
            }
        };
        self.index += 1;
        out
    }

    /// Run a whole stream.
    pub fn run(ops: &[TOp]) -> (Vec<Placed>, Tracker) {
        let mut t = Tracker::new();
        let mut out = vec![];
        for op in ops {
            if let Some(p) = t.step(op) {
                out.push(p);
            }
        }
        (out, t)
    }
}

// ------------------------------------------------------------------------------------------
// Framing: the length of every command (§585-§591).

#[derive(Clone, Copy, Debug, PartialEq, Eq)]
pub enum FrameEnd {
    /// The bytes end exactly at a command boundary.
    Complete,
    /// The bytes end inside the command that starts at `at` with opcode `opcode`.
    Truncated { opcode: u8, at: usize },
    /// Opcodes 250-255 are undefined.
    Invalid { opcode: u8, at: usize },
}

#[derive(Clone, Copy, Debug, PartialEq, Eq)]
pub struct FrameInfo {
    pub start: usize,
    pub len: usize,
    pub opcode: u8,
}

fn be(bytes: &[u8]) -> usize {
    let mut n = 0usize;
    for b in bytes {
        n = (n << 8) | *b as usize;
    }
    n
}

/// Length of the command at the start of `b`, or `None` if `b` is too short to contain it.
/// `b` is non-empty and `b[0] < 250`.
fn command_len(b: &[u8]) -> Option<usize> {
    let op = b[0];
    let fixed = |n: usize| if b.len() >= n { Some(n) } else { None };
    match op {
        0..=127 => fixed(1),              // set_char_i
        128..=131 => fixed(2 + (op - 128) as usize), // set1..4
        132 | 137 => fixed(9),            // set_rule, put_rule: a[4] b[4]
        133..=136 => fixed(2 + (op - 133) as usize), // put1..4
        138 => fixed(1),                  // nop
        139 => fixed(45),                 // bop c0[4]..c9[4] p[4]
        140..=142 => fixed(1),            // eop push pop
        143..=146 => fixed(2 + (op - 143) as usize), // right1..4
        147 => fixed(1),                  // w0
        148..=151 => fixed(2 + (op - 148) as usize),
        152 => fixed(1),                  // x0
        153..=156 => fixed(2 + (op - 153) as usize),
        157..=160 => fixed(2 + (op - 157) as usize), // down1..4
        161 => fixed(1),                  // y0
        162..=165 => fixed(2 + (op - 162) as usize),
        166 => fixed(1),                  // z0
        167..=170 => fixed(2 + (op - 167) as usize),
        171..=234 => fixed(1),            // fnt_num_i
        235..=238 => fixed(2 + (op - 235) as usize), // fnt1..4
        239..=242 => {
            // xxx_k: k[n] x[k]
            let n = 1 + (op - 239) as usize;
            if b.len() < 1 + n {
                return None;
            }
            let k = be(&b[1..1 + n]);
            fixed(1 + n + k)
        }
        243..=246 => {
            // fnt_def_k: k[n] c[4] s[4] d[4] a[1] l[1] n[a+l]
            let n = 1 + (op - 243) as usize;
            let head = 1 + n + 12 + 2;
            if b.len() < head {
                return None;
            }
            let a = b[head - 2] as usize;
            let l = b[head - 1] as usize;
            fixed(head + a + l)
        }
        247 => {
            // pre i[1] num[4] den[4] mag[4] k[1] x[k]
            let head = 1 + 1 + 12 + 1;
            if b.len() < head {
                return None;
            }
            fixed(head + b[head - 1] as usize)
        }
        248 => fixed(29), // post p[4] num[4] den[4] mag[4] l[4] u[4] s[2] t[2]
        249 => {
            // post_post q[4] i[1] followed by "four or more bytes that are all equal to 223";
            // any number of them belongs to the command (§590).
            if b.len() < 6 {
                return None;
            }
            let mut n = 6;
            while n < b.len() && b[n] == 223 {
                n += 1;
            }
            Some(n)
        }
        250..=255 => unreachable!("caller filters undefined opcodes"),
    }
}

/// Split a byte string into commands.
pub fn frame(bytes: &[u8]) -> (Vec<FrameInfo>, FrameEnd) {
    let mut out = vec![];
    let mut at = 0usize;
    while at < bytes.len() {
        let op = bytes[at];
        if op >= 250 {
            return (out, FrameEnd::Invalid { opcode: op, at });
        }
        match command_len(&bytes[at..]) {
            Some(len) => {
                out.push(FrameInfo {
                    start: at,
                    len,
                    opcode: op,
                });
                at += len;
            }
            None => return (out, FrameEnd::Truncated { opcode: op, at }),
        }
    }
    (out, FrameEnd::Complete)
}

#[cfg(test)]
mod tests {
    use super::*;

    #[test]
    fn doc_example() {
        // VarRemover's own documentation example: both streams place nothing, end at h = 3+5+5-...
        let a = vec![
            TOp::SetReg(Reg::X, 3),
            TOp::Push,
            TOp::SetReg(Reg::X, 5),
            TOp::Move(Reg::X),
            TOp::PutChar(1),
            TOp::Pop,
            TOp::Move(Reg::X),
            TOp::PutChar(2),
        ];
        let (p, t) = Tracker::run(&a);
        assert_eq!(p[0].h.int, 13);
        assert_eq!(p[1].h.int, 6);
        assert_eq!(t.reg(Reg::X), 3);
    }

    #[test]
    fn framing() {
        assert_eq!(frame(&[158, 1, 0, 68, 86, 73]).0.len(), 4);
        assert_eq!(
            frame(&[158, 1, 0, 255]).1,
            FrameEnd::Invalid { opcode: 255, at: 3 }
        );
        assert_eq!(
            frame(&[129, 1]).1,
            FrameEnd::Truncated { opcode: 129, at: 0 }
        );
        assert_eq!(frame(&[249, 1, 0, 0, 0, 2, 223, 223, 223, 5]).0[0].len, 9);
    }
}
