//! (reference model; owner fills this in)
