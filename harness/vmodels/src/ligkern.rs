//! Lig/kern reference models (property C05). Nothing here calls into /repo.
//!
//! Three formulations of "what a raw lig/kern program does":
//!
//! * [`run_cursor`]  - the TFM definition read literally: a cursor over `|- w1 ... wn -|`; for the
//!   pair at the cursor walk the SKIP/STOP chain of the left character (or of the left boundary),
//!   apply the first matching KERN or LIG step; a LIG step with op code `4a+2b+c` inserts the
//!   new character, deletes the left character unless b=1, deletes the right character unless
//!   c=1, then passes over `a` characters. The right boundary is a one-shot pseudo element.
//! * [`run_tex`]     - a transcription of TeX: The Program §1034-1040 (`main_loop` ...
//!   `main_lig_loop`) with TeX's own bookkeeping: `lig_stack`, `cur_l`, `cur_r`, `cur_q`,
//!   `ligature_present`, `lft_hit`, `rt_hit`, `bchar`. It yields TeX's *nodes*: which original
//!   characters hang on which ligature node (`lig_ptr`) and the two boundary flags (subtype).
//! * [`PairEval`]    - TFtoPL §88-95: the recursive function f(x,y) over the rule table with the
//!   classes simple / left_z / right_z / both_z / pending; a pair never terminates iff its
//!   evaluation reaches a pair that is still pending.
//!
//! Characters are bytes. Kern payloads are opaque i32 (the monitor stores the fix_word there and
//! scales it with `fontarith::store_scaled`).

use std::collections::{BTreeMap, HashMap};

pub type Ch = u8;

#[derive(Clone, Copy, Debug, PartialEq, Eq, Hash)]
pub enum Op {
    Kern(i32),
    /// `code` = 4a+2b+c, one of 0 1 2 3 5 6 7 11.
    Lig { code: u8, insert: Ch },
    /// An instruction with skip_byte > 128 (unconditional stop / entry redirect of a TFM file)
    /// met in the middle of a chain: TeX §1039 never lets it match and ends the walk.
    Stop,
}

pub const LIG_CODES: [u8; 8] = [0, 1, 2, 3, 5, 6, 7, 11];

/// PL names of the eight forms, for witnesses.
pub fn lig_name(code: u8) -> &'static str {
    match code {
        0 => "LIG",
        1 => "LIG/",
        2 => "/LIG",
        3 => "/LIG/",
        5 => "LIG/>",
        6 => "/LIG>",
        7 => "/LIG/>",
        11 => "/LIG/>>",
        _ => "?",
    }
}

#[derive(Clone, Debug, PartialEq, Eq, Hash)]
pub struct Instr {
    /// `Some(n)`: if this step does not apply continue with instruction i+n+1 (SKIP n; n=0 is
    /// "the next one"). `None`: STOP (skip_byte >= 128).
    pub skip: Option<u8>,
    pub right: Ch,
    pub op: Op,
}

#[derive(Clone, Debug, Default, PartialEq, Eq, Hash)]
pub struct Prog {
    pub instrs: Vec<Instr>,
    /// lig_kern_start of each character that has a program
    pub entry: BTreeMap<Ch, usize>,
    /// bchar_label
    pub left_entry: Option<usize>,
    /// the font's boundary character
    pub right_boundary: Option<Ch>,
}

/// Left element of a pair: a character or the left boundary.
pub type Left = Option<Ch>;

impl Prog {
    /// All skips stay inside the program and the walk from every entry point ends in a STOP:
    /// what TeX §573 demands before it accepts the font.
    pub fn well_formed(&self) -> bool {
        let n = self.instrs.len();
        for (i, ins) in self.instrs.iter().enumerate() {
            if let Some(s) = ins.skip {
                if i + s as usize + 1 >= n {
                    return false;
                }
            }
            if let Op::Lig { code, .. } = ins.op {
                if !LIG_CODES.contains(&code) {
                    return false;
                }
            }
        }
        self.entry.values().all(|&e| e < n) && self.left_entry.map_or(true, |e| e < n)
    }

    fn start(&self, left: Left) -> Option<usize> {
        match left {
            Some(c) => self.entry.get(&c).copied(),
            None => self.left_entry,
        }
    }

    /// TeX §1039: walk the chain of `left`, first instruction whose next_char is `right` wins.
    pub fn rule(&self, left: Left, right: Ch) -> Option<Op> {
        let mut k = self.start(left)?;
        loop {
            let ins = self.instrs.get(k)?;
            if ins.op == Op::Stop {
                return None;
            }
            if ins.right == right {
                return Some(ins.op);
            }
            match ins.skip {
                Some(s) => k = k + s as usize + 1,
                None => return None,
            }
        }
    }

    /// Every (left, right) pair that has a rule, in (left, instruction) order; the left boundary
    /// comes last. Only the first instruction for a pair counts.
    pub fn rule_pairs(&self) -> Vec<(Left, Ch, Op)> {
        let mut out: Vec<(Left, Ch, Op)> = vec![];
        let mut lefts: Vec<Left> = self.entry.keys().map(|c| Some(*c)).collect();
        if self.left_entry.is_some() {
            lefts.push(None);
        }
        for left in lefts {
            let mut seen = [false; 256];
            let Some(mut k) = self.start(left) else {
                continue;
            };
            while let Some(ins) = self.instrs.get(k) {
                if ins.op == Op::Stop {
                    break;
                }
                if !seen[ins.right as usize] {
                    seen[ins.right as usize] = true;
                    out.push((left, ins.right, ins.op));
                }
                match ins.skip {
                    Some(s) => k = k + s as usize + 1,
                    None => break,
                }
            }
        }
        out
    }

    /// Rule table for repeated lookups.
    pub fn table(&self) -> RuleTable {
        let mut m = HashMap::new();
        for (l, r, op) in self.rule_pairs() {
            m.insert((l, r), op);
        }
        RuleTable { m }
    }
}

#[derive(Clone, Debug)]
pub struct RuleTable {
    m: HashMap<(Left, Ch), Op>,
}

impl RuleTable {
    #[inline]
    pub fn get(&self, left: Left, right: Ch) -> Option<Op> {
        self.m.get(&(left, right)).copied()
    }
    pub fn len(&self) -> usize {
        self.m.len()
    }
    pub fn is_empty(&self) -> bool {
        self.m.is_empty()
    }
}

/// What the statement compares: plain characters, ligature glyphs and kerns, in order.
#[derive(Clone, Copy, Debug, PartialEq, Eq, Hash)]
pub enum Item {
    Char(Ch),
    Lig(Ch),
    Kern(i32),
}

/// The run used more ligature steps than the bound: treated as "does not terminate".
#[derive(Clone, Copy, Debug, PartialEq, Eq)]
pub struct Diverged;

#[derive(Clone, Debug, Default)]
pub struct RunStats {
    pub lig_steps: u64,
    pub kern_steps: u64,
    /// a LIG step was applied with the left boundary as left element
    pub left_boundary_steps: u64,
    /// a LIG or KERN step was applied with the right boundary as right element
    pub right_boundary_steps: u64,
    /// the right boundary was deleted by a step
    pub right_boundary_consumed: bool,
    /// the same (left,right) pair had a LIG step applied more than once during this run
    pub pair_revisited: bool,
    /// LIG steps applied, by op code (index = 4a+2b+c)
    pub form_steps: [u32; 12],
    /// the distinct (left,right) pairs a LIG step was applied to, in order of first application
    pub lig_pairs: Vec<(Left, Ch)>,
}

#[derive(Clone, Copy, Debug)]
struct El {
    c: Ch,
    inserted: bool,
}

/// Formulation (a1): the cursor interpreter. `left_boundary`: start with the cursor on the left
/// boundary (TeX without `\noboundary`); `bchar`: the right boundary character in force.
pub fn run_cursor(
    rules: &RuleTable,
    word: &[Ch],
    left_boundary: bool,
    bchar: Option<Ch>,
    max_lig_steps: u64,
    stats: &mut RunStats,
) -> Result<Vec<Item>, Diverged> {
    let mut out: Vec<Item> = vec![];
    if word.is_empty() {
        return Ok(out);
    }
    // everything to the right of the cursor, nearest element last
    let mut rest: Vec<El> = word
        .iter()
        .rev()
        .map(|&c| El { c, inserted: false })
        .collect();
    let mut bchar = bchar;
    // the element under the cursor; None = the left boundary
    let mut cur: Option<El> = if left_boundary { None } else { rest.pop() };
    fn emit(out: &mut Vec<Item>, e: Option<El>) {
        if let Some(e) = e {
            out.push(if e.inserted { Item::Lig(e.c) } else { Item::Char(e.c) });
        }
    }

    loop {
        let right: Option<(Ch, bool)> = match rest.last() {
            Some(e) => Some((e.c, false)),
            None => bchar.map(|c| (c, true)),
        };
        let Some((r, r_is_boundary)) = right else {
            emit(&mut out, cur);
            return Ok(out);
        };
        let left: Left = cur.map(|e| e.c);
        let op = rules.get(left, r);
        // number of elements the cursor passes over after this step
        let passes: u8 = match op {
            None => 1,
            Some(Op::Kern(_)) | Some(Op::Stop) => 1,
            Some(Op::Lig { code, insert }) => {
                stats.lig_steps += 1;
                if stats.lig_steps > max_lig_steps {
                    return Err(Diverged);
                }
                stats.form_steps[(code & 15).min(11) as usize] += 1;
                if cur.is_none() {
                    stats.left_boundary_steps += 1;
                }
                if r_is_boundary {
                    stats.right_boundary_steps += 1;
                }
                if stats.lig_pairs.contains(&(left, r)) {
                    stats.pair_revisited = true;
                } else {
                    stats.lig_pairs.push((left, r));
                }
                let keep_left = code & 2 != 0;
                let keep_right = code & 1 != 0;
                if !keep_right {
                    if r_is_boundary {
                        bchar = None;
                        stats.right_boundary_consumed = true;
                    } else {
                        rest.pop();
                    }
                }
                let z = El {
                    c: insert,
                    inserted: true,
                };
                if keep_left {
                    rest.push(z);
                } else {
                    cur = Some(z);
                }
                code >> 2
            }
        };
        if let Some(Op::Kern(k)) = op {
            stats.kern_steps += 1;
            if r_is_boundary {
                stats.right_boundary_steps += 1;
            }
            emit(&mut out, cur);
            out.push(Item::Kern(k));
            match rest.pop() {
                Some(e) => cur = Some(e),
                None => return Ok(out), // the cursor moved onto the right boundary
            }
            continue;
        }
        for _ in 0..passes {
            emit(&mut out, cur);
            match rest.pop() {
                Some(e) => cur = Some(e),
                None => return Ok(out), // onto the right boundary, or off the end
            }
        }
    }
}

// ------------------------------------------------------------------------------------------
// TeX §1034-1040

/// TeX's nodes.
#[derive(Clone, Debug, PartialEq, Eq, Hash)]
pub enum Node {
    Char(Ch),
    /// ligature node: character, the characters on `lig_ptr`, subtype >= 2, subtype odd
    Lig {
        c: Ch,
        original: Vec<Ch>,
        left_boundary: bool,
        right_boundary: bool,
    },
    Kern(i32),
}

impl Node {
    pub fn item(&self) -> Item {
        match self {
            Node::Char(c) => Item::Char(*c),
            Node::Lig { c, .. } => Item::Lig(*c),
            Node::Kern(k) => Item::Kern(*k),
        }
    }
}

#[derive(Clone, Copy, Debug)]
enum StackItem {
    /// a character node fetched from the input (always at the bottom: link = null)
    CharNode(Ch),
    /// `new_lig_item(c)` with `lig_ptr` null or one character node
    LigItem { c: Ch, ptr: Option<Ch> },
}

impl StackItem {
    fn character(&self) -> Ch {
        match self {
            StackItem::CharNode(c) => *c,
            StackItem::LigItem { c, .. } => *c,
        }
    }
}

#[derive(Clone, Copy, Debug, PartialEq, Eq)]
enum Label {
    MainLoopWrapup,
    MainLoopMove,
    MainLoopMove1,
    MainLoopMove2,
    MainLoopMoveLig,
    MainLoopLookahead,
    MainLigLoop,
    MainLigLoop1,
    Reswitch,
}

struct Tex<'a> {
    prog: &'a Prog,
    input: &'a [Ch],
    pos: usize,
    tail: Vec<Node>,
    cur_q: usize,
    lig_stack: Vec<StackItem>,
    cur_l: Option<Ch>,
    cur_r: Option<Ch>,
    bchar: Option<Ch>,
    ligature_present: bool,
    lft_hit: bool,
    rt_hit: bool,
    main_k: usize,
}

impl<'a> Tex<'a> {
    /// §1035 pack_lig(#)
    fn pack_lig(&mut self, z: bool) {
        let c = self.cur_l.expect("pack_lig with cur_l = non_char");
        let mut original = vec![];
        for n in self.tail.drain(self.cur_q..) {
            match n {
                Node::Char(c) => original.push(c),
                other => panic!("model: non-character node {other:?} inside a ligature's original list"),
            }
        }
        let mut left_boundary = false;
        let mut right_boundary = false;
        if self.lft_hit {
            left_boundary = true;
            self.lft_hit = false;
        }
        if z && self.lig_stack.is_empty() {
            right_boundary = true;
            self.rt_hit = false;
        }
        self.tail.push(Node::Lig {
            c,
            original,
            left_boundary,
            right_boundary,
        });
        self.ligature_present = false;
    }

    /// §1035 wrapup(#) (the discretionary after a hyphen char is not modelled)
    fn wrapup(&mut self, z: bool) {
        if self.cur_l.is_some() && self.ligature_present {
            self.pack_lig(z);
        }
    }
}

/// Formulation (a2): TeX's main loop. `cancel_boundary` = `\noboundary` precedes the word.
pub fn run_tex(
    prog: &Prog,
    word: &[Ch],
    cancel_boundary: bool,
    bchar: Option<Ch>,
    max_lig_steps: u64,
) -> Result<Vec<Node>, Diverged> {
    if word.is_empty() {
        return Ok(vec![]);
    }
    let mut t = Tex {
        prog,
        input: word,
        pos: 1,
        tail: vec![],
        cur_q: 0,
        lig_stack: vec![StackItem::CharNode(word[0])],
        cur_l: Some(word[0]),
        cur_r: None,
        bchar,
        ligature_present: false,
        lft_hit: false,
        rt_hit: false,
        main_k: 0,
    };
    let mut steps = 0u64;
    // §1034
    let mut label = match (cancel_boundary, prog.left_entry) {
        (false, Some(k)) => {
            t.main_k = k;
            t.cur_r = t.cur_l;
            t.cur_l = None;
            Label::MainLigLoop1
        }
        _ => Label::MainLoopMove2,
    };
    loop {
        label = match label {
            Label::Reswitch => return Ok(t.tail),
            Label::MainLoopWrapup => {
                let z = t.rt_hit;
                t.wrapup(z);
                Label::MainLoopMove
            }
            // §1036
            Label::MainLoopMove => {
                if t.lig_stack.is_empty() {
                    Label::Reswitch
                } else {
                    t.cur_q = t.tail.len();
                    t.cur_l = Some(t.lig_stack.last().unwrap().character());
                    Label::MainLoopMove1
                }
            }
            Label::MainLoopMove1 => match t.lig_stack.last() {
                Some(StackItem::CharNode(_)) => Label::MainLoopMove2,
                Some(StackItem::LigItem { .. }) => Label::MainLoopMoveLig,
                None => panic!("model: main_loop_move+1 with empty lig_stack"),
            },
            Label::MainLoopMove2 => {
                // link(tail):=lig_stack; tail:=lig_stack
                match t.lig_stack.pop() {
                    Some(StackItem::CharNode(c)) => t.tail.push(Node::Char(c)),
                    other => panic!("model: main_loop_move+2 expects a character node, got {other:?}"),
                }
                assert!(t.lig_stack.is_empty(), "model: character node was not at the bottom");
                Label::MainLoopLookahead
            }
            // §1037
            Label::MainLoopMoveLig => {
                let Some(StackItem::LigItem { ptr: main_p, .. }) = t.lig_stack.pop() else {
                    panic!("model: main_loop_move_lig expects a lig item");
                };
                if let Some(c) = main_p {
                    t.tail.push(Node::Char(c));
                }
                t.ligature_present = true;
                match t.lig_stack.last() {
                    None => {
                        if main_p.is_some() {
                            Label::MainLoopLookahead
                        } else {
                            t.cur_r = t.bchar;
                            Label::MainLigLoop
                        }
                    }
                    Some(top) => {
                        t.cur_r = Some(top.character());
                        Label::MainLigLoop
                    }
                }
            }
            // §1038
            Label::MainLoopLookahead => {
                if t.pos < t.input.len() {
                    let c = t.input[t.pos];
                    t.pos += 1;
                    t.lig_stack = vec![StackItem::CharNode(c)];
                    t.cur_r = Some(c);
                } else {
                    t.cur_r = t.bchar;
                    t.lig_stack.clear();
                }
                Label::MainLigLoop
            }
            // §1039
            Label::MainLigLoop => {
                let cur_l = t.cur_l.expect("model: main_lig_loop with cur_l = non_char");
                match (t.prog.entry.get(&cur_l), t.cur_r) {
                    (None, _) => Label::MainLoopWrapup,
                    (_, None) => Label::MainLoopWrapup,
                    (Some(&k), Some(_)) => {
                        t.main_k = k;
                        Label::MainLigLoop1
                    }
                }
            }
            Label::MainLigLoop1 => {
                let Some(ins) = t.prog.instrs.get(t.main_k) else {
                    panic!("model: lig/kern walk left the program");
                };
                if ins.op == Op::Stop {
                    // skip_byte > stop_flag: no match, and skip_byte >= stop_flag ends the walk
                    Label::MainLoopWrapup
                } else if Some(ins.right) == t.cur_r {
                    // §1040
                    match ins.op {
                        Op::Stop => unreachable!(),
                        Op::Kern(k) => {
                            let z = t.rt_hit;
                            t.wrapup(z);
                            t.tail.push(Node::Kern(k));
                            Label::MainLoopMove
                        }
                        Op::Lig { code, insert } => {
                            if t.cur_l.is_none() {
                                t.lft_hit = true;
                            } else if t.lig_stack.is_empty() {
                                t.rt_hit = true;
                            }
                            steps += 1;
                            if steps > max_lig_steps {
                                return Err(Diverged);
                            }
                            let mut early: Option<Label> = None;
                            match code {
                                1 | 5 => {
                                    t.cur_l = Some(insert);
                                    t.ligature_present = true;
                                }
                                2 | 6 => {
                                    t.cur_r = Some(insert);
                                    match t.lig_stack.last_mut() {
                                        None => {
                                            t.lig_stack.push(StackItem::LigItem {
                                                c: insert,
                                                ptr: None,
                                            });
                                            t.bchar = None;
                                        }
                                        Some(top) => match *top {
                                            StackItem::CharNode(p) => {
                                                *top = StackItem::LigItem {
                                                    c: insert,
                                                    ptr: Some(p),
                                                };
                                            }
                                            StackItem::LigItem { ptr, .. } => {
                                                *top = StackItem::LigItem { c: insert, ptr };
                                            }
                                        },
                                    }
                                }
                                3 => {
                                    t.cur_r = Some(insert);
                                    t.lig_stack.push(StackItem::LigItem {
                                        c: insert,
                                        ptr: None,
                                    });
                                }
                                7 | 11 => {
                                    t.wrapup(false);
                                    t.cur_q = t.tail.len();
                                    t.cur_l = Some(insert);
                                    t.ligature_present = true;
                                }
                                _ => {
                                    // =:
                                    t.cur_l = Some(insert);
                                    t.ligature_present = true;
                                    early = Some(if t.lig_stack.is_empty() {
                                        Label::MainLoopWrapup
                                    } else {
                                        Label::MainLoopMove1
                                    });
                                }
                            }
                            if let Some(l) = early {
                                l
                            } else if code > 4 && code != 7 {
                                Label::MainLoopWrapup
                            } else if t.cur_l.is_some() {
                                Label::MainLigLoop
                            } else {
                                t.main_k = t
                                    .prog
                                    .left_entry
                                    .expect("model: cur_l = non_char without bchar_label");
                                Label::MainLigLoop1
                            }
                        }
                    }
                } else {
                    match ins.skip {
                        Some(s) => {
                            t.main_k = t.main_k + s as usize + 1;
                            Label::MainLigLoop1
                        }
                        None => Label::MainLoopWrapup,
                    }
                }
            }
        };
    }
}

// ------------------------------------------------------------------------------------------
// TFtoPL §88-95

#[derive(Clone, Copy, Debug, PartialEq, Eq)]
enum Class {
    Simple,
    LeftZ,
    RightZ,
    BothZ,
    Pending,
    /// evaluation reached a pending pair: f is undefined
    Diverges,
}

#[derive(Clone, Copy, Debug)]
struct Entry {
    class: Class,
    /// lig_z: the function value (simple) or the ligature character (left_z, right_z, both_z)
    z: Ch,
    /// number of LIG steps the evaluation takes (saturating)
    steps: u64,
    /// number of items (glyphs + kerns) emitted before the cursor rests on f(x,y) (saturating)
    emitted: u64,
}

/// Result of evaluating a pair.
#[derive(Clone, Copy, Debug, PartialEq, Eq)]
pub enum PairResult {
    /// terminates; `f` = the character under the cursor afterwards, with cost figures
    Value { f: Ch, lig_steps: u64, emitted: u64 },
    Diverges,
}

/// The recursive evaluation of TFtoPL §94-95 over the rule table of §89-93.
pub struct PairEval {
    hash: HashMap<(Left, Ch), Entry>,
    pending: Vec<(Left, Ch)>,
    on_cycle: Vec<(Left, Ch)>,
}

impl PairEval {
    /// §91-93: enter the first command for each (c, y); compute class and lig_z.
    pub fn new(prog: &Prog) -> PairEval {
        let mut hash = HashMap::new();
        for (left, y, op) in prog.rule_pairs() {
            let (class, z, emitted) = match op {
                // kern: f = y; emits left (unless boundary) and the kern
                Op::Kern(_) => (Class::Simple, y, left.is_some() as u64 + 1),
                Op::Stop => continue,
                Op::Lig { code, insert } => match code {
                    0 => (Class::Simple, insert, 0),
                    6 => (Class::Simple, insert, left.is_some() as u64),
                    5 => (Class::Simple, y, 1),
                    11 => (Class::Simple, y, left.is_some() as u64 + 1),
                    1 => (Class::LeftZ, insert, 0),
                    7 => (Class::LeftZ, insert, left.is_some() as u64),
                    2 => (Class::RightZ, insert, 0),
                    3 => (Class::BothZ, insert, 0),
                    _ => (Class::Simple, y, 0),
                },
            };
            let steps = matches!(op, Op::Lig { .. }) as u64;
            hash.insert(
                (left, y),
                Entry {
                    class,
                    z,
                    steps,
                    emitted,
                },
            );
        }
        PairEval {
            hash,
            pending: vec![],
            on_cycle: vec![],
        }
    }

    /// §94 eval(x,y): `Ok((f, steps, emitted))`, or `Err(())` if the evaluation depends on a
    /// pending pair. A pair without a rule: f = y, the cursor simply passes over x.
    fn eval(&mut self, x: Left, y: Ch) -> Result<(Ch, u64, u64), ()> {
        let Some(e) = self.hash.get(&(x, y)).copied() else {
            return Ok((y, 0, x.is_some() as u64));
        };
        match e.class {
            Class::Simple => Ok((e.z, e.steps, e.emitted)),
            Class::Diverges => Err(()),
            Class::Pending => {
                // §95 "pending": the pair depends on itself
                let pos = self
                    .pending
                    .iter()
                    .position(|p| *p == (x, y))
                    .expect("pending pair is on the stack");
                for p in self.pending[pos..].to_vec() {
                    if !self.on_cycle.contains(&p) {
                        self.on_cycle.push(p);
                    }
                }
                Err(())
            }
            Class::LeftZ | Class::RightZ | Class::BothZ => {
                self.hash.get_mut(&(x, y)).unwrap().class = Class::Pending;
                self.pending.push((x, y));
                let r = match e.class {
                    // f(x,y) = f(z,y)
                    Class::LeftZ => self.eval(Some(e.z), y),
                    // f(x,y) = f(x,z)
                    Class::RightZ => self.eval(x, e.z),
                    // f(x,y) = f(f(x,z),y)
                    _ => match self.eval(x, e.z) {
                        Ok((w, s1, m1)) => self
                            .eval(Some(w), y)
                            .map(|(f, s2, m2)| (f, s1.saturating_add(s2), m1.saturating_add(m2))),
                        Err(()) => Err(()),
                    },
                };
                self.pending.pop();
                let slot = self.hash.get_mut(&(x, y)).unwrap();
                match r {
                    Ok((f, s, m)) => {
                        slot.class = Class::Simple;
                        slot.z = f;
                        slot.steps = e.steps.saturating_add(s);
                        slot.emitted = e.emitted.saturating_add(m);
                        Ok((f, slot.steps, slot.emitted))
                    }
                    Err(()) => {
                        slot.class = Class::Diverges;
                        Err(())
                    }
                }
            }
        }
    }

    pub fn pair(&mut self, x: Left, y: Ch) -> PairResult {
        match self.eval(x, y) {
            Ok((f, lig_steps, emitted)) => PairResult::Value {
                f,
                lig_steps,
                emitted,
            },
            Err(()) => PairResult::Diverges,
        }
    }

    /// Pairs found to depend on themselves (members of a dependency cycle) so far.
    pub fn on_cycle(&self) -> &[(Left, Ch)] {
        &self.on_cycle
    }
}

#[cfg(test)]
mod tests {
    use super::*;

    fn prog(rules: &[(Option<u8>, &[(u8, Op)])], rb: Option<u8>) -> Prog {
        let mut p = Prog::default();
        p.right_boundary = rb;
        for (left, rs) in rules {
            let start = p.instrs.len();
            for (i, (r, op)) in rs.iter().enumerate() {
                p.instrs.push(Instr {
                    skip: if i + 1 == rs.len() { None } else { Some(0) },
                    right: *r,
                    op: *op,
                });
            }
            match left {
                Some(c) => {
                    p.entry.insert(*c, start);
                }
                None => p.left_entry = Some(start),
            }
        }
        p
    }

    #[test]
    fn simple_lig_and_loop() {
        let p = prog(
            &[(Some(b'A'), &[(b'B', Op::Lig { code: 0, insert: b'1' })])],
            None,
        );
        let mut st = RunStats::default();
        let r = run_cursor(&p.table(), b"AB", false, None, 100, &mut st).unwrap();
        assert_eq!(r, vec![Item::Lig(b'1')]);
        let n = run_tex(&p, b"AB", true, None, 100).unwrap();
        assert_eq!(
            n,
            vec![Node::Lig {
                c: b'1',
                original: vec![b'A', b'B'],
                left_boundary: false,
                right_boundary: false
            }]
        );
        // (A,B) -> (A,C) -> (A,B): the loop of corpus/originals/ligature-loop
        let p = prog(
            &[(
                Some(b'A'),
                &[
                    (b'B', Op::Lig { code: 2, insert: b'C' }),
                    (b'C', Op::Lig { code: 2, insert: b'B' }),
                ],
            )],
            None,
        );
        let mut st = RunStats::default();
        assert!(run_cursor(&p.table(), b"AB", false, None, 1000, &mut st).is_err());
        assert!(run_tex(&p, b"AB", true, None, 1000).is_err());
        let mut pe = PairEval::new(&p);
        assert_eq!(pe.pair(Some(b'A'), b'B'), PairResult::Diverges);
    }
}
